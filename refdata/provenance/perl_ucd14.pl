#!/usr/bin/perl
# Writes the classification of every code point according to Perl's bundled UCD (14.0.0), in the
# naming of /verif/refdata/*.rle, for the provenance cross-check (not used by any check).
use strict; use warnings; use Unicode::UCD qw(prop_invmap prop_value_aliases);
my $out = shift or die "usage: perl_ucd14.pl OUTDIR";
sub table { my ($prop) = @_; my ($list, $map, $fmt, $def) = prop_invmap($prop); my @v;
  for my $i (0..$#$list) { my $lo = $list->[$i]; my $hi = $i < $#$list ? $list->[$i+1]-1 : 0x10FFFF; $hi = 0x10FFFF if $hi > 0x10FFFF;
    my $val = ref($map->[$i]) ? $map->[$i][0] : $map->[$i]; for my $c ($lo..$hi) { $v[$c] = $val } } return \@v; }
my $gcb = table("Grapheme_Cluster_Break"); my $wb = table("Word_Break"); my $sb = table("Sentence_Break");
my $lb = table("Line_Break"); my $ea = table("East_Asian_Width"); my $gc = table("General_Category");
my $ep = table("Extended_Pictographic"); my $epres = table("Emoji_Presentation"); my $age = table("Age");
my %short; sub lbshort { my $v = shift; $short{$v} //= (prop_value_aliases("lb", $v))[0]; return $short{$v}; }
my %gcs; sub gcshort { my $v = shift; $gcs{$v} //= (prop_value_aliases("gc", $v))[0]; return $gcs{$v}; }
my %eas; sub eashort { my $v = shift; $eas{$v} //= (prop_value_aliases("ea", $v))[0]; return $eas{$v}; }
sub pr { my $v = shift; $v =~ s/_//g; return "pr$v"; }
sub rle { my ($file, $f) = @_; open(my $fh, ">", "$out/$file") or die; my ($lo, $cur) = (0, $f->(0));
  for my $c (1..0x10FFFF) { my $v = $f->($c); if ($v ne $cur) { printf $fh "%04X %04X %s\n", $lo, $c-1, $cur; ($lo, $cur) = ($c, $v); } }
  printf $fh "%04X %04X %s\n", $lo, 0x10FFFF, $cur; close $fh; }
rle("grapheme_cluster_break_and_extpict.rle", sub { my $c = shift; my $v = $gcb->[$c]; $v = "Other" if $v eq "ExtPict_XX"; return pr($v) if $v ne "Other"; return $ep->[$c] eq "Y" ? "prExtendedPictographic" : "prXX"; });
rle("word_break_and_extpict.rle", sub { my $c = shift; my $v = $wb->[$c];
  # Perl tailors the internal WB table for horizontal space; \p{WB=...} still gives the official value
  if ($v eq "Perl_Tailored_HSpace") { $v = (chr($c) =~ /\p{WB=WSegSpace}/) ? "WSegSpace" : "Other"; }
  $v = "Other" if $v eq "ExtPict_XX"; return pr($v) if $v ne "Other"; return $ep->[$c] eq "Y" ? "prExtendedPictographic" : "prXX"; });
rle("sentence_break.rle", sub { my $c = shift; my $v = $sb->[$c]; return $v eq "Other" ? "prXX" : pr($v); });
rle("line_break_and_gc.rle", sub { my $c = shift; my $g = gcshort($gc->[$c]); $g = ($g eq "Mn" || $g eq "Mc" || $g eq "Cn") ? "gc$g" : "gcOther"; return "pr".lbshort($lb->[$c]).",".$g; });
rle("east_asian_width.rle", sub { my $c = shift; return "pr".eashort($ea->[$c]); });
rle("emoji_presentation.rle", sub { my $c = shift; return $epres->[$c] eq "Y" ? "prEmojiPresentation" : "prXX"; });
rle("age_assigned.rle", sub { my $c = shift; return $age->[$c] eq "Unassigned" ? "unassigned" : "assigned"; });
