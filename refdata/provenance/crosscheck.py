#!/usr/bin/env python3
"""Provenance cross-check of /verif/refdata against Perl 5.36's bundled UCD 14.0.0
(perl_ucd14.pl OUTDIR first). Differences are listed for code points ASSIGNED in 14.0 only: the
committed reference is Unicode 15.0.0, so code points first assigned in 15.0 differ by design."""
import sys, bisect
def load(path):
    lo, hi, v = [], [], []
    for l in open(path):
        a, b, c = l.split()
        lo.append(int(a, 16)); hi.append(int(b, 16)); v.append(c)
    return lo, hi, v
def get(t, r):
    i = bisect.bisect_right(t[0], r) - 1
    return t[2][i]
ref, perl = sys.argv[1], sys.argv[2]
age = load(perl + "/age_assigned.rle")
total = 0
for f in ["grapheme_cluster_break_and_extpict.rle", "word_break_and_extpict.rle", "sentence_break.rle", "line_break_and_gc.rle", "east_asian_width.rle", "emoji_presentation.rle"]:
    a, b = load(ref + "/" + f), load(perl + "/" + f)
    diffs = []
    for r in range(0x110000):
        if get(age, r) != "assigned":
            continue
        x, y = get(a, r), get(b, r)
        if x != y:
            diffs.append((r, x, y))
    total += len(diffs)
    print("%s: %d differences on code points assigned in 14.0" % (f, len(diffs)))
    for r, x, y in diffs[:40]:
        print("   U+%04X reference(15.0)=%s perl(14.0)=%s" % (r, x, y))
print("total", total)
