package main

import (
	"fmt"
	"testing"

	u "github.com/rivo/uniseg"
)

// ALLOC (C17's search): a complete pass with each function of the functional API must perform zero
// heap allocations, on every generated input.

type allocFn struct {
	name string
	f    func(b []byte, s string)
}

var allocSink int

var allocFns = []allocFn{
	{"FirstGraphemeCluster", func(b []byte, s string) {
		st := -1
		for len(b) > 0 {
			var c []byte
			c, b, _, st = u.FirstGraphemeCluster(b, st)
			allocSink += len(c)
		}
	}},
	{"FirstGraphemeClusterInString", func(b []byte, s string) {
		st := -1
		for len(s) > 0 {
			var c string
			c, s, _, st = u.FirstGraphemeClusterInString(s, st)
			allocSink += len(c)
		}
	}},
	{"FirstWord", func(b []byte, s string) {
		st := -1
		for len(b) > 0 {
			var c []byte
			c, b, st = u.FirstWord(b, st)
			allocSink += len(c)
		}
	}},
	{"FirstWordInString", func(b []byte, s string) {
		st := -1
		for len(s) > 0 {
			var c string
			c, s, st = u.FirstWordInString(s, st)
			allocSink += len(c)
		}
	}},
	{"FirstSentence", func(b []byte, s string) {
		st := -1
		for len(b) > 0 {
			var c []byte
			c, b, st = u.FirstSentence(b, st)
			allocSink += len(c)
		}
	}},
	{"FirstSentenceInString", func(b []byte, s string) {
		st := -1
		for len(s) > 0 {
			var c string
			c, s, st = u.FirstSentenceInString(s, st)
			allocSink += len(c)
		}
	}},
	{"FirstLineSegment", func(b []byte, s string) {
		st := -1
		for len(b) > 0 {
			var c []byte
			c, b, _, st = u.FirstLineSegment(b, st)
			allocSink += len(c)
		}
	}},
	{"FirstLineSegmentInString", func(b []byte, s string) {
		st := -1
		for len(s) > 0 {
			var c string
			c, s, _, st = u.FirstLineSegmentInString(s, st)
			allocSink += len(c)
		}
	}},
	{"Step", func(b []byte, s string) {
		st := -1
		for len(b) > 0 {
			var c []byte
			c, b, _, st = u.Step(b, st)
			allocSink += len(c)
		}
	}},
	{"StepString", func(b []byte, s string) {
		st := -1
		for len(s) > 0 {
			var c string
			c, s, _, st = u.StepString(s, st)
			allocSink += len(c)
		}
	}},
	{"StringWidth", func(b []byte, s string) { allocSink += u.StringWidth(s) }},
	{"GraphemeClusterCount", func(b []byte, s string) { allocSink += u.GraphemeClusterCount(s) }},
	{"HasTrailingLineBreak", func(b []byte, s string) { allocSink += b2i(u.HasTrailingLineBreak(b)) }},
	{"HasTrailingLineBreakInString", func(b []byte, s string) { allocSink += b2i(u.HasTrailingLineBreakInString(s)) }},
}

func stageAlloc(cs *caseSource, thorough bool) stageResult {
	s := stageResult{Name: "ALLOC", Domain: "testing.AllocsPerRun of a complete pass with each of the 14 functional-API functions on generated inputs (templates, random, malformed, each also repeated to 40-4000 bytes)"}
	seen := map[string]bool{}
	measure := func(b []byte) {
		str := string(b)
		for _, af := range allocFns {
			s.Evaluations++
			f := af.f
			if n := testing.AllocsPerRun(2, func() { f(b, str) }); n != 0 {
				key := af.name
				if !seen[key] || s.MismatchCount < 10 {
					seen[key] = true
					small := shrink(b, func(x []byte) bool {
						xs := string(x)
						return testing.AllocsPerRun(2, func() { f(x, xs) }) != 0
					})
					s.add("alloc "+af.name+" "+hx(small), fmt.Sprintf("%.0f allocations per pass", n), "0", fmt.Sprintf("%s allocates on %+q", af.name, string(small)))
				} else {
					s.MismatchCount++
				}
			}
		}
	}
	limit := 1500
	if thorough {
		limit = 20000
	}
	cnt := 0
	cs.each(func(i int, gc genCase) {
		if cnt >= limit || len(gc.input) == 0 {
			return
		}
		cnt++
		measure(gc.input)
		if cnt%10 == 0 {
			// the same text repeated: large inputs, as the documentation promises
			var big []byte
			for len(big) < 40+(cnt%7)*600 {
				big = append(big, gc.input...)
			}
			measure(big)
		}
	})
	s.Samples = []string{fmt.Sprintf("%d inputs x 14 functions", cnt)}
	return s
}
