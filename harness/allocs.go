package main

import (
	"encoding/hex"
	"fmt"
	"runtime"
	"runtime/debug"
	"testing"

	u "github.com/rivo/uniseg"
)

// ALLOC (C17's search): a complete pass with each function of the functional API must perform zero
// heap allocations, on every generated input.

type allocFn struct {
	name string
	f    func(b []byte, s string)
}

var allocSink int

var allocFns = []allocFn{
	{"FirstGraphemeCluster", func(b []byte, s string) {
		st := -1
		for len(b) > 0 {
			var c []byte
			c, b, _, st = u.FirstGraphemeCluster(b, st)
			allocSink += len(c)
		}
	}},
	{"FirstGraphemeClusterInString", func(b []byte, s string) {
		st := -1
		for len(s) > 0 {
			var c string
			c, s, _, st = u.FirstGraphemeClusterInString(s, st)
			allocSink += len(c)
		}
	}},
	{"FirstWord", func(b []byte, s string) {
		st := -1
		for len(b) > 0 {
			var c []byte
			c, b, st = u.FirstWord(b, st)
			allocSink += len(c)
		}
	}},
	{"FirstWordInString", func(b []byte, s string) {
		st := -1
		for len(s) > 0 {
			var c string
			c, s, st = u.FirstWordInString(s, st)
			allocSink += len(c)
		}
	}},
	{"FirstSentence", func(b []byte, s string) {
		st := -1
		for len(b) > 0 {
			var c []byte
			c, b, st = u.FirstSentence(b, st)
			allocSink += len(c)
		}
	}},
	{"FirstSentenceInString", func(b []byte, s string) {
		st := -1
		for len(s) > 0 {
			var c string
			c, s, st = u.FirstSentenceInString(s, st)
			allocSink += len(c)
		}
	}},
	{"FirstLineSegment", func(b []byte, s string) {
		st := -1
		for len(b) > 0 {
			var c []byte
			c, b, _, st = u.FirstLineSegment(b, st)
			allocSink += len(c)
		}
	}},
	{"FirstLineSegmentInString", func(b []byte, s string) {
		st := -1
		for len(s) > 0 {
			var c string
			c, s, _, st = u.FirstLineSegmentInString(s, st)
			allocSink += len(c)
		}
	}},
	{"Step", func(b []byte, s string) {
		st := -1
		for len(b) > 0 {
			var c []byte
			c, b, _, st = u.Step(b, st)
			allocSink += len(c)
		}
	}},
	{"StepString", func(b []byte, s string) {
		st := -1
		for len(s) > 0 {
			var c string
			c, s, _, st = u.StepString(s, st)
			allocSink += len(c)
		}
	}},
	{"StringWidth", func(b []byte, s string) { allocSink += u.StringWidth(s) }},
	{"GraphemeClusterCount", func(b []byte, s string) { allocSink += u.GraphemeClusterCount(s) }},
	{"HasTrailingLineBreak", func(b []byte, s string) { allocSink += b2i(u.HasTrailingLineBreak(b)) }},
	{"HasTrailingLineBreakInString", func(b []byte, s string) { allocSink += b2i(u.HasTrailingLineBreakInString(s)) }},
}

// allocFirstCall (search only): AllocsPerRun warms up before it measures, so an allocation that happens
// only the first time a code point is seen (a lazily filled cache) is invisible to it. Here every
// input consists of code points no earlier input contained, each function is called once, and the
// process-wide malloc counter is read before and after. A function is reported only if at least three
// different fresh inputs each show an allocation.
func allocFirstCall(s *stageResult) {
	pools := [][2]rune{{0x1F000, 0x1FAFF}, {0x2600, 0x27BF}, {0x3000, 0x30FF}, {0x4E00, 0x9FFF}, {0xAC00, 0xD7A3}, {0x0600, 0x06FF}, {0x0900, 0x097F}, {0x2100, 0x21FF}, {0xA0, 0x17F}}
	next := make([]rune, len(pools))
	for i, p := range pools {
		next[i] = p[0]
	}
	old := debug.SetGCPercent(-1)
	defer debug.SetGCPercent(old)
	hits := map[string][][]byte{}
	var m0, m1 runtime.MemStats
	for i := 0; i < 160; i++ {
		var rs []rune
		for j := range pools {
			if next[j] <= pools[j][1] {
				rs = append(rs, next[j])
				next[j] += 1 + rune(j%3)
			}
		}
		b := []byte(string(rs))
		// a shared cache is filled by the first function that sees a code point, so every input goes to
		// one function only, in rotation
		k := i % len(allocFns)
		af := allocFns[k]
		str := string(b)
		runtime.ReadMemStats(&m0)
		af.f(b, str)
		runtime.ReadMemStats(&m1)
		s.Evaluations++
		if m1.Mallocs != m0.Mallocs {
			hits[af.name] = append(hits[af.name], b)
		}
	}
	for name, hs := range hits {
		if len(hs) >= 3 {
			s.add("alloc-first "+name+" "+hx(hs[0]), fmt.Sprintf("heap allocations on the first call with fresh code points (%d of the fresh inputs given to this function)", len(hs)), "0",
				fmt.Sprintf("%s allocates the first time it sees %+q", name, string(hs[0])))
		}
	}
}

var allocFirst bool
var allocFirstInput string

// replay of an alloc-first finding: single first calls on the recorded input, in a fresh process
func allocFirstReplay(s *stageResult, b []byte) {
	old := debug.SetGCPercent(-1)
	defer debug.SetGCPercent(old)
	var m0, m1 runtime.MemStats
	str := string(b)
	for _, af := range allocFns {
		runtime.ReadMemStats(&m0)
		af.f(b, str)
		runtime.ReadMemStats(&m1)
		s.Evaluations++
		if m1.Mallocs != m0.Mallocs {
			s.add("alloc-first "+af.name+" "+hx(b), fmt.Sprintf("%d heap allocations on the first call", m1.Mallocs-m0.Mallocs), "0",
				fmt.Sprintf("%s allocates the first time it sees %+q", af.name, str))
		}
	}
}

func stageAlloc(cs *caseSource, thorough bool) stageResult {
	s := stageResult{Name: "ALLOC", Domain: "testing.AllocsPerRun of a complete pass with each of the 14 functional-API functions on generated inputs (templates, random, malformed, each also repeated to 40-4000 bytes)"}
	if allocFirstInput != "" {
		if b, err := hex.DecodeString(allocFirstInput); err == nil {
			allocFirstReplay(&s, b)
		}
	}
	if allocFirst {
		allocFirstCall(&s)
	}
	seen := map[string]bool{}
	measure := func(b []byte) {
		str := string(b)
		for _, af := range allocFns {
			s.Evaluations++
			f := af.f
			if n := testing.AllocsPerRun(2, func() { f(b, str) }); n != 0 {
				key := af.name
				if !seen[key] || s.MismatchCount < 10 {
					seen[key] = true
					small := shrink(b, func(x []byte) bool {
						xs := string(x)
						return testing.AllocsPerRun(2, func() { f(x, xs) }) != 0
					})
					s.add("alloc "+af.name+" "+hx(small), fmt.Sprintf("%.0f allocations per pass", n), "0", fmt.Sprintf("%s allocates on %+q", af.name, string(small)))
				} else {
					s.MismatchCount++
				}
			}
		}
	}
	limit := 1500
	if thorough {
		limit = 20000
	}
	cnt := 0
	cs.each(func(i int, gc genCase) {
		if cnt >= limit || len(gc.input) == 0 {
			return
		}
		cnt++
		measure(gc.input)
		if cnt%10 == 0 {
			// the same text repeated: large inputs, as the documentation promises
			var big []byte
			for len(big) < 40+(cnt%7)*600 {
				big = append(big, gc.input...)
			}
			measure(big)
		}
	})
	s.Samples = []string{fmt.Sprintf("%d inputs x 14 functions", cnt)}
	return s
}
