package main

import (
	"fmt"
	"go/ast"
	"go/parser"
	"go/token"
	"path/filepath"
	"strconv"
	"strings"
	"unicode/utf8"
)

// VEC: the Lean specifications (Spec/*.lean, my reading of UAX #29 and UAX #14) against the OFFICIAL
// Unicode 15.0.0 break-test vectors, which /repo embeds in its generated test files. This validates
// the specs themselves, independently of the implementation: a mismatch here is a defect of the
// specification (the machinery), not a violation of a property.

type vector struct {
	input []byte
	cuts  map[int]bool // code-point offsets (1..n-1) at which the official data has a boundary
	n     int          // number of code points
}

func loadVectors(repo, file, varName string) ([]vector, error) {
	fset := token.NewFileSet()
	f, err := parser.ParseFile(fset, filepath.Join(repo, file), nil, 0)
	if err != nil {
		return nil, err
	}
	var res []vector
	ast.Inspect(f, func(n ast.Node) bool {
		vs, ok := n.(*ast.ValueSpec)
		if !ok || len(vs.Names) != 1 || vs.Names[0].Name != varName || len(vs.Values) != 1 {
			return true
		}
		outer, ok := vs.Values[0].(*ast.CompositeLit)
		if !ok {
			return false
		}
		for _, el := range outer.Elts {
			cl, ok := el.(*ast.CompositeLit)
			if !ok {
				continue
			}
			var v vector
			okAll := true
			for _, fe := range cl.Elts {
				kv, ok := fe.(*ast.KeyValueExpr)
				if !ok {
					okAll = false
					break
				}
				key := kv.Key.(*ast.Ident).Name
				switch key {
				case "original":
					bl, ok := kv.Value.(*ast.BasicLit)
					if !ok {
						okAll = false
						break
					}
					s, err := strconv.Unquote(bl.Value)
					if err != nil {
						okAll = false
						break
					}
					v.input = []byte(s)
				case "expected":
					segs, ok := kv.Value.(*ast.CompositeLit)
					if !ok {
						okAll = false
						break
					}
					v.cuts = map[int]bool{}
					pos := 0
					for _, sg := range segs.Elts {
						scl, ok := sg.(*ast.CompositeLit)
						if !ok {
							okAll = false
							break
						}
						pos += len(scl.Elts)
						v.cuts[pos] = true
					}
					v.n = pos
				}
			}
			if okAll && v.cuts != nil && utf8.RuneCount(v.input) == v.n {
				res = append(res, v)
			}
		}
		return false
	})
	return res, nil
}

func stageVec(d *driver, repo string) stageResult {
	s := stageResult{Name: "VEC", Exhaustive: true, Domain: "the declarative Lean specifications (Spec/Grapheme, Word, Sentence, Line) vs the official Unicode 15.0.0 GraphemeBreakTest / WordBreakTest / SentenceBreakTest / LineBreakTest vectors embedded in /repo's generated test files: the boundary positions of every vector"}
	sets := []struct{ file, v, alg string }{
		{"graphemebreak_test.go", "graphemeBreakTestCases", "g"},
		{"wordbreak_test.go", "wordBreakTestCases", "w"},
		{"sentencebreak_test.go", "sentenceBreakTestCases", "s"},
		{"linebreak_test.go", "lineBreakTestCases", "l"},
	}
	var counts []string
	for _, set := range sets {
		vecs, err := loadVectors(repo, set.file, set.v)
		if err != nil || len(vecs) == 0 {
			s.add("vec "+set.alg, fmt.Sprint("cannot read the vectors: ", err, " found ", len(vecs)), "", "the official vectors could not be extracted from "+set.file)
			continue
		}
		counts = append(counts, fmt.Sprintf("%s: %d", set.alg, len(vecs)))
		var ops []string
		for _, v := range vecs {
			ops = append(ops, "spec "+set.alg+" "+hx(v.input))
		}
		outs := d.run(ops)
		for i, v := range vecs {
			s.Evaluations++
			var want strings.Builder
			for p := 1; p < v.n; p++ {
				if v.cuts[p] {
					want.WriteByte('1')
				} else {
					want.WriteByte('0')
				}
			}
			w := want.String()
			if w == "" {
				w = "-"
			}
			got := strings.Map(func(r rune) rune {
				if r == '2' {
					return '1' // a mandatory break is a break
				}
				return r
			}, outs[i])
			if got != w {
				s.add(ops[i], got, w, fmt.Sprintf("spec vs official vector %+q", string(v.input)))
			}
		}
	}
	// the width specification against the width cases of /repo's width_test.go (hand-written by the
	// library's author: they document the intended model, they are not Unicode data)
	if wc, err := loadWidthCases(repo); err == nil && len(wc) > 0 {
		var ops []string
		for _, c := range wc {
			ops = append(ops, fmt.Sprintf("specwidth 1 %s", hx([]byte(c.s))))
		}
		outs := d.run(ops)
		for i, c := range wc {
			s.Evaluations++
			sum := 0
			if outs[i] != "-" {
				for _, f := range strings.Fields(outs[i]) {
					parts := strings.Split(f, ":")
					if len(parts) == 2 {
						w, _ := strconv.Atoi(parts[1])
						sum += w
					}
				}
			}
			if sum != c.w {
				s.add(ops[i], fmt.Sprint(sum), fmt.Sprint(c.w), fmt.Sprintf("width spec vs width_test.go case %+q", c.s))
			}
		}
		counts = append(counts, fmt.Sprintf("width cases: %d", len(wc)))
	} else {
		s.add("vec width", fmt.Sprint("cannot read width_test.go: ", err), "", "")
	}
	s.Samples = counts
	return s
}

type widthCase struct {
	s string
	w int
}

func loadWidthCases(repo string) ([]widthCase, error) {
	fset := token.NewFileSet()
	f, err := parser.ParseFile(fset, filepath.Join(repo, "width_test.go"), nil, 0)
	if err != nil {
		return nil, err
	}
	var res []widthCase
	ast.Inspect(f, func(n ast.Node) bool {
		vs, ok := n.(*ast.ValueSpec)
		if !ok || len(vs.Names) != 1 || vs.Names[0].Name != "widthTestCases" || len(vs.Values) != 1 {
			return true
		}
		outer, ok := vs.Values[0].(*ast.CompositeLit)
		if !ok {
			return false
		}
		for _, el := range outer.Elts {
			cl, ok := el.(*ast.CompositeLit)
			if !ok || len(cl.Elts) != 2 {
				continue
			}
			a, ok1 := cl.Elts[0].(*ast.BasicLit)
			b, ok2 := cl.Elts[1].(*ast.BasicLit)
			if !ok1 || !ok2 {
				continue
			}
			str, err1 := strconv.Unquote(a.Value)
			w, err2 := strconv.Atoi(b.Value)
			if err1 == nil && err2 == nil {
				res = append(res, widthCase{str, w})
			}
		}
		return false
	})
	return res, nil
}
