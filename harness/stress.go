package main

import (
	"encoding/json"
	"fmt"
	"os"
	"strings"
	"sync"

	u "github.com/rivo/uniseg"
)

// Concurrency stress (C16's search): the same mixed API calls from many goroutines on shared
// inputs, results compared with a sequential pass made AFTERWARDS (so that lazily initialised
// hidden state, if someone adds it, is first touched concurrently). Built with -race by the check.

var stressBuiltin = []string{
	"éé àßñ naïve café́", "אב\"ג שלום.", "السلام ؀١٢٣",
	"☺☺☺☺ \U0001F600\U0001F600 ☺️\U0001F44D\U0001F3FD", "\U0001F469‍\U0001F469‍\U0001F467 \U0001F1E9\U0001F1EA\U0001F1EB",
	"Lorem ipsum dolor sit amet, consectetur (adipiscing) elit. Sed do $(1.50) 20% off!\r\nNext line third",
	"각가각 あア一、。 （）", "a‍b‍\U0001F600 x­x ─x─ ¡Hola! ¿qué?",
	"", "a", "\n", "\r\n",
	"1,234.56 3.,5 1,,2 \"  (a)b c-1 a -1", "A. � a. B! 。 c? (d) e", "\xff\x80abc\xe2\x82 \xf0\x9f\x98", "กัก ါက ាក",
	// twins: same length, same shape, the look-ahead rules decide differently (SB8, WB6/7, WB12, LB25) - whatever
	// one goroutine's look-ahead leaves behind is wrong for the goroutine working on the twin
	"Wait.  next one. So.", "Wait.  Next one. So.", "Etc.) 12 then more. x", "Etc.) 12 Then more. x",
	"x'yz w x:yz", "x' yzw x: yz", "1,234 5;67", "1, 234 5; 7",
	"$(12) %-5 a", "$(ab) %-b a",
}

func stressResult(s string) string {
	var sb strings.Builder
	for _, k := range kinds {
		sb.WriteString(realChain(k, []byte(s), false))
		sb.WriteString("|")
		sb.WriteString(realChain(k, []byte(s), true))
		sb.WriteString("|")
	}
	fmt.Fprintf(&sb, "%d|%d|%s|%v|", u.StringWidth(s), u.GraphemeClusterCount(s), u.ReverseString(s), u.HasTrailingLineBreakInString(s))
	g := u.NewGraphemes(s)
	f0, t0 := g.Positions()
	fmt.Fprintf(&sb, "new:%d,%d,%d,%q;", f0, t0, g.LineBreak(), g.Str())
	for g.Next() {
		f, t := g.Positions()
		fmt.Fprintf(&sb, "%d,%d,%d,%v,%v,%d;", f, t, g.Width(), g.IsWordBoundary(), g.IsSentenceBoundary(), g.LineBreak())
	}
	// the iterator of one caller is nobody else's: after the pass and after Reset it is where this caller left it
	f1, t1 := g.Positions()
	fmt.Fprintf(&sb, "end:%d,%d,%q;", f1, t1, g.Str())
	g.Reset()
	f2, t2 := g.Positions()
	fmt.Fprintf(&sb, "reset:%d,%d,%d,%q,%v;", f2, t2, g.LineBreak(), g.Str(), g.Next())
	return sb.String()
}

func runStress(goroutines, rounds int, corpusDir, out string) {
	inputs := append([]string{}, stressBuiltin...)
	for _, b := range loadCorpus(corpusDir) {
		inputs = append(inputs, string(b))
	}
	// long inputs (pooled or shared scratch buffers usually start above some size): every built-in text
	// repeated to 65..4100 bytes, all of them joined, one very long cluster, long ASCII runs.
	// Plain string operations only: no library call may happen before the concurrent phase.
	sizes := []int{65, 129, 300, 1025, 4100}
	for i, t := range stressBuiltin {
		if len(t) == 0 {
			continue
		}
		n := sizes[i%len(sizes)]
		inputs = append(inputs, strings.Repeat(t, n/len(t)+1))
	}
	inputs = append(inputs, strings.Join(stressBuiltin, " "), strings.Repeat(strings.Join(stressBuiltin, "\n"), 4),
		"e"+strings.Repeat("\u0301", 200)+" x", strings.Repeat("abcdefghij", 13)+".", strings.Repeat("The quick brown fox. ", 60),
		strings.Repeat("\U0001F1E9\U0001F1EA", 40), strings.Repeat("한글 テスト 中文。", 30))
	type rec struct {
		g, i int
		res  string
	}
	results := make([][]string, goroutines)
	start := make(chan struct{})
	var wg sync.WaitGroup
	for g := 0; g < goroutines; g++ {
		results[g] = make([]string, len(inputs))
		wg.Add(1)
		go func(g int) {
			defer wg.Done()
			<-start
			for r := 0; r < rounds; r++ {
				for k := range inputs {
					i := (k*7 + g*3 + r) % len(inputs)
					res := stressResult(inputs[i])
					if results[g][i] == "" {
						results[g][i] = res
					} else if results[g][i] != res {
						results[g][i] = "UNSTABLE:" + res
					}
				}
			}
		}(g)
	}
	close(start)
	wg.Wait()
	// sequential reference, computed after the concurrent phase
	type bad struct {
		Input      string `json:"input_go_quoted"`
		InputHex   string `json:"input_hex"`
		Goroutine  int    `json:"goroutine"`
		Concurrent string `json:"concurrent"`
		Sequential string `json:"sequential"`
	}
	var bads []bad
	evals := 0
	for i, s := range inputs {
		want := stressResult(s)
		for g := 0; g < goroutines; g++ {
			evals++
			if results[g][i] != "" && results[g][i] != want {
				if len(bads) < 10 {
					bads = append(bads, bad{fmt.Sprintf("%+q", s), hx([]byte(s)), g, trunc(results[g][i]), trunc(want)})
				}
			}
		}
	}
	js, _ := json.MarshalIndent(map[string]interface{}{"goroutines": goroutines, "rounds": rounds, "inputs": len(inputs), "evaluations": evals * rounds, "mismatches": bads}, "", " ")
	if out != "" {
		os.WriteFile(out, js, 0o644)
	} else {
		fmt.Println(string(js))
	}
	if len(bads) > 0 {
		os.Exit(1)
	}
}

func trunc(s string) string {
	if len(s) > 300 {
		return s[:300] + "..."
	}
	return s
}
