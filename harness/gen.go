package main

import (
	"strconv"
	"strings"
	"unicode/utf8"
)

// ill-formed byte chunks: stray continuation bytes, overlongs, truncated sequences, encoded
// surrogates, bytes that can never occur, a code point above U+10FFFF
var badChunks = [][]byte{{0x80}, {0xbf}, {0xc0, 0x80}, {0xc1, 0xbf}, {0xc2}, {0xe0, 0x80, 0x80}, {0xe0, 0x9f, 0xbf}, {0xe2, 0x82}, {0xe2},
	{0xed, 0xa0, 0x80}, {0xed, 0xbf, 0xbf}, {0xf0, 0x9f}, {0xf0, 0x9f, 0x98}, {0xf0, 0x8f, 0xbf, 0xbf}, {0xf5}, {0xff}, {0xfe},
	{0xf4, 0x90, 0x80, 0x80}, {0xf8, 0x88, 0x80, 0x80, 0x80}}

type template struct {
	alg byte // 'G', 'W', 'S', 'L'
	pat string
}

var templates = []template{
	{'G', "CR LF"}, {'G', "L{1,3} V{0,2} T{0,2}"}, {'G', "LV T{0,3}"}, {'G', "LVT T{0,2} V"}, {'G', "L LV|LVT T"},
	{'G', "XX Extend{0,3} ZWJ ExtendedPictographic"}, {'G', "ExtendedPictographic Extend{0,3} ZWJ ExtendedPictographic ZWJ ExtendedPictographic"},
	{'G', "RegionalIndicator{1,5}"}, {'G', "Prepend{1,2} XX|Control|CR|L|ExtendedPictographic"}, {'G', "XX SpacingMark{1,2} XX"},
	{'G', "Control|CR|LF Extend|SpacingMark|ZWJ"}, {'G', "ExtendedPictographic Extend{0,2} ZWJ{2,2} ExtendedPictographic"},
	{'G', "ZWJ ExtendedPictographic"}, {'G', "ExtendedPictographic SpacingMark|Prepend ZWJ ExtendedPictographic"},
	{'G', "RegionalIndicator Extend|ZWJ RegionalIndicator RegionalIndicator"}, {'G', "XX RegionalIndicator{2,4} XX"},
	{'W', "ALetter|HebrewLetter MidLetter|MidNumLet|SingleQuote ALetter|HebrewLetter"},
	{'W', "ALetter Extend|Format|ZWJ{0,3} MidNumLet|MidLetter Extend|Format|ZWJ{0,3} ALetter|Numeric|XX"},
	{'W', "HebrewLetter DoubleQuote Extend|Format{0,2} HebrewLetter|ALetter"}, {'W', "HebrewLetter SingleQuote XX|ALetter"},
	{'W', "Numeric MidNum|MidNumLet|SingleQuote Extend|Format|ZWJ{0,3} Numeric|ALetter"}, {'W', "ALetter Numeric ALetter Numeric"},
	{'W', "Katakana{1,3} ExtendNumLet Katakana"}, {'W', "ExtendNumLet ALetter ExtendNumLet Numeric ExtendNumLet"},
	{'W', "RegionalIndicator{1,5}"}, {'W', "RegionalIndicator Extend|ZWJ|Format RegionalIndicator RegionalIndicator"},
	{'W', "XX|ALetter ZWJ ExtendedPictographic"}, {'W', "XX ZWJ Extend|Format ExtendedPictographic"},
	{'W', "WSegSpace{1,3}"}, {'W', "WSegSpace Extend|Format|ZWJ WSegSpace"}, {'W', "CR LF"}, {'W', "Newline|CR|LF Extend|Format|ZWJ XX"},
	{'W', "ALetter MidLetter Extend{0,3}"}, {'W', "ALetter MidLetter MidLetter ALetter"}, {'W', "Numeric MidNum MidNum Numeric"},
	{'W', "ALetter|Numeric|Katakana|ExtendNumLet{2,5}"},
	{'S', "Upper ATerm Upper"}, {'S', "Lower|Upper ATerm Close{0,3} Sp{0,4} XX|Numeric|Close|SContinue{0,6} Lower"},
	{'S', "ATerm|STerm Close{0,2} Sp{0,3} Sep|CR|LF XX"}, {'S', "ATerm|STerm Close{0,2} Sp{0,3} CR LF XX"},
	{'S', "ATerm Numeric"}, {'S', "ATerm|STerm Close{0,2} Sp{0,2} SContinue|ATerm|STerm"},
	{'S', "XX Extend|Format{0,3} ATerm Extend|Format{0,2} Close Extend{0,1} Sp Lower|Upper|OLetter"},
	{'S', "CR LF XX"}, {'S', "Sep|CR|LF Extend|Format XX"}, {'S', "ATerm Sp{1,3} XX|Numeric|Close{0,5} Lower|Upper|OLetter|STerm|ATerm|Sep"},
	{'S', "STerm Close{0,2} Sp{0,3} XX|Lower|Upper"}, {'S', "Upper|Lower ATerm Close{1,2} Upper"}, {'S', "OLetter ATerm Sp Lower"},
	{'S', "ATerm Close Sp Close Lower"}, {'S', "ATerm Sp Close Lower"},
	{'L', "QU SP{0,3} OP"}, {'L', "CL|CP SP{0,3} NS"}, {'L', "B2 SP{0,3} B2"}, {'L', "OP SP{0,3} AL|ID|CM|QU|GL"},
	{'L', "PR|PO OP|HY NU"}, {'L', "PR|PO OP|HY CM|ZWJ{1,2} NU"}, {'L', "AL|SP|LF|BA HY NU"},
	{'L', "NU NU|SY|IS{0,4} CL|CP{0,1} PO|PR"}, {'L', "NU SY|IS{1,2} NU|AL|HL"}, {'L', "NU CL|CP SP{0,2} PO|PR|NS|AL"},
	{'L', "HL HY|BA AL|HL"}, {'L', "SY HL"}, {'L', "AL|HL|NU OP"}, {'L', "CP AL|HL|NU"}, {'L', "CP CM{1,2} AL|HL|NU"},
	{'L', "RI{1,5}"}, {'L', "RI CM|ZWJ RI RI"}, {'L', "EB EM"}, {'L', "EB CM EM"}, {'L', "ID|AL EM"},
	{'L', "ZW SP{0,3} AL|CM|GL|CL"}, {'L', "AL ZWJ AL|ID|SP"}, {'L', "AL CM{0,3} SP AL"}, {'L', "SP|ZW CM|ZWJ AL|OP|NU"},
	{'L', "BK|CR|LF|NL AL|CM|ZWJ|SP"}, {'L', "CR LF AL"}, {'L', "AL GL AL"}, {'L', "AL SP|BA|HY GL"}, {'L', "AL|ID|NU IN"},
	{'L', "AL|ID|EB|EM|HL PO|PR"}, {'L', "PR|PO AL|HL|ID|EB|EM|JL|JV|JT|H2|H3"}, {'L', "JL JL|JV|H2|H3"}, {'L', "JV|H2 JV|JT"},
	{'L', "JT|H3 JT"}, {'L', "JL|JV|JT|H2|H3 PO"}, {'L', "IS AL|HL"}, {'L', "BB AL"}, {'L', "CB AL"}, {'L', "AL CB"}, {'L', "WJ AL"},
	{'L', "AL WJ"}, {'L', "AL SP{1,2} EX|CL|CP|IS|SY"}, {'L', "AL EX|CL|CP|IS|SY"}, {'L', "SA{1,3}"}, {'L', "AI|SG|XX|CJ{1,3}"},
	{'L', "AL BA|HY|NS AL"}, {'L', "AL SP{1,3} AL"}, {'L', "QU AL QU"}, {'L', "AL QU SP AL"}, {'L', "OP CM SP AL"}, {'L', "QU CM SP{1,2} OP"},
	{'L', "CL|CP CM SP NS"}, {'L', "B2 CM SP B2"}, {'L', "HL CM HY CM AL"}, {'L', "NU CM SY CM NU"}, {'L', "PR CM NU"},
}

type tplTok struct {
	classes []int
	min, max int
}

type compiledTpl struct {
	alg  byte
	toks []tplTok
	src  string
}

var compiled []compiledTpl

func className(alg byte, n string) int {
	if n == "XX" {
		return c("prXX")
	}
	return c("pr" + n)
}

func compileTemplates() {
	for _, t := range templates {
		ct := compiledTpl{alg: t.alg, src: string(t.alg) + ":" + t.pat}
		for _, f := range strings.Fields(t.pat) {
			tok := tplTok{min: 1, max: 1}
			if i := strings.Index(f, "{"); i >= 0 {
				rng := strings.Trim(f[i:], "{}")
				parts := strings.Split(rng, ",")
				tok.min, _ = strconv.Atoi(parts[0])
				tok.max, _ = strconv.Atoi(parts[1])
				f = f[:i]
			}
			for _, n := range strings.Split(f, "|") {
				tok.classes = append(tok.classes, className(t.alg, n))
			}
			ct.toks = append(ct.toks, tok)
		}
		compiled = append(compiled, ct)
	}
}

func repsFor(alg byte, class int) []rune {
	switch alg {
	case 'G':
		return ci.byG[class]
	case 'W':
		return ci.byW[class]
	case 'S':
		return ci.byS[class]
	}
	return ci.byL[class]
}

func classesOf(alg byte) []int {
	var m map[int][]rune
	switch alg {
	case 'G':
		m = ci.byG
	case 'W':
		m = ci.byW
	case 'S':
		m = ci.byS
	default:
		m = ci.byL
	}
	res := make([]int, 0, len(m))
	for k := range m {
		res = append(res, k)
	}
	// deterministic order
	for i := 1; i < len(res); i++ {
		for j := i; j > 0 && res[j] < res[j-1]; j-- {
			res[j], res[j-1] = res[j-1], res[j]
		}
	}
	return res
}

var algClasses map[byte][]int
var boosted map[byte][]int

func initGen() {
	compileTemplates()
	algClasses = map[byte][]int{}
	for _, a := range []byte("GWSL") {
		algClasses[a] = classesOf(a)
	}
	boosted = map[byte][]int{
		'G': {c("prExtend"), c("prZWJ"), c("prExtendedPictographic"), c("prRegionalIndicator"), c("prSpacingMark"), c("prPrepend")},
		'W': {c("prExtend"), c("prFormat"), c("prZWJ"), c("prALetter"), c("prNumeric"), c("prMidNumLet"), c("prWSegSpace")},
		'S': {c("prExtend"), c("prFormat"), c("prSp"), c("prClose"), c("prATerm"), c("prSTerm"), c("prLower"), c("prXX")},
		'L': {c("prCM"), c("prZWJ"), c("prSP"), c("prNU"), c("prAL"), c("prOP"), c("prCP"), c("prQU"), c("prHY"), c("prIS")},
	}
}

func pickRune(r *rng, alg byte, class int) rune {
	reps := repsFor(alg, class)
	if len(reps) == 0 {
		return 'a'
	}
	return reps[r.intn(len(reps))]
}

func randomRune(r *rng, alg byte) rune {
	if r.chance(1, 3) {
		b := boosted[alg]
		return pickRune(r, alg, b[r.intn(len(b))])
	}
	if r.chance(1, 12) {
		return ci.named[r.intn(len(ci.named))]
	}
	cl := algClasses[alg]
	return pickRune(r, alg, cl[r.intn(len(cl))])
}

type genCase struct {
	input  []byte
	kind   string // "template", "random", "malformed", "corpus", "vector", "short"
	tplIdx int
}

func appendRune(b []byte, r rune) []byte {
	if r >= 0xD800 && r <= 0xDFFF || r > 0x10FFFF || r < 0 {
		return append(b, 0xEF, 0xBF, 0xBD)
	}
	return utf8.AppendRune(b, r)
}

func genTemplate(r *rng) genCase {
	idx := r.intn(len(compiled))
	t := compiled[idx]
	var b []byte
	algs := []byte("GWSL")
	for n := r.intn(3); n > 0; n-- {
		b = appendRune(b, randomRune(r, algs[r.intn(4)]))
	}
	reps := 1 + r.intn(2)
	// occasionally stretch one repeated token far beyond its nominal range: rules with "X*" and
	// look-ahead loops are unbounded
	stretch := -1
	if r.chance(1, 8) {
		stretch = r.intn(len(t.toks))
	}
	for ; reps > 0; reps-- {
		for ti, tok := range t.toks {
			n := tok.min + r.intn(tok.max-tok.min+1)
			if ti == stretch && tok.max > tok.min {
				n = tok.max + 1 + r.intn(40)
			}
			for i := 0; i < n; i++ {
				b = appendRune(b, pickRune(r, t.alg, tok.classes[r.intn(len(tok.classes))]))
			}
		}
	}
	for n := r.intn(3); n > 0; n-- {
		b = appendRune(b, randomRune(r, t.alg))
	}
	return genCase{input: b, kind: "template", tplIdx: idx}
}

func genRandom(r *rng) genCase {
	alg := []byte("GWSL")[r.intn(4)]
	n := 1 + r.intn(12)
	if r.chance(1, 20) {
		n = 12 + r.intn(40)
	}
	var b []byte
	for i := 0; i < n; i++ {
		b = appendRune(b, randomRune(r, alg))
	}
	return genCase{input: b, kind: "random", tplIdx: -1}
}

// genMalformed splices ill-formed chunks into a well-formed case, at rune boundaries and inside runes
func genMalformed(r *rng) genCase {
	var base genCase
	if r.chance(1, 2) {
		base = genTemplate(r)
	} else {
		base = genRandom(r)
	}
	b := base.input
	k := 1 + r.intn(3)
	for ; k > 0; k-- {
		pos := 0
		if len(b) > 0 {
			pos = r.intn(len(b) + 1)
		}
		if r.chance(3, 4) {
			for pos < len(b) && !utf8.RuneStart(b[pos]) {
				pos++
			}
		}
		chunk := badChunks[r.intn(len(badChunks))]
		nb := append([]byte{}, b[:pos]...)
		nb = append(nb, chunk...)
		nb = append(nb, b[pos:]...)
		b = nb
	}
	if r.chance(1, 6) && len(b) > 1 { // truncate the last sequence
		b = b[:len(b)-1]
	}
	return genCase{input: b, kind: "malformed", tplIdx: base.tplIdx}
}

func genAny(r *rng) genCase {
	switch x := r.intn(10); {
	case x < 4:
		return genTemplate(r)
	case x < 7:
		return genRandom(r)
	default:
		return genMalformed(r)
	}
}

// shortSequences enumerates all sequences of length 1..n over one representative per class of alg
// (thorough tier)
func shortSequences(alg byte, n int, emit func([]byte)) {
	var reps []rune
	for _, cl := range algClasses[alg] {
		rs := repsFor(alg, cl)
		if len(rs) > 0 {
			reps = append(reps, rs[0])
		}
	}
	if alg == 'L' {
		// signatures that matter for lines beyond the class: ea of OP/CP, ExtPict&Cn, SA marks
		reps = append(reps, 0xFF08, 0xFF09, 0x1F02C, 0x0E31)
	}
	idx := make([]int, n)
	var rec func(d, l int)
	rec = func(d, l int) {
		if d == l {
			var b []byte
			for i := 0; i < l; i++ {
				b = appendRune(b, reps[idx[i]])
			}
			emit(b)
			return
		}
		for i := range reps {
			idx[d] = i
			rec(d+1, l)
		}
	}
	for l := 1; l <= n; l++ {
		rec(0, l)
	}
}
