package main

import (
	"strconv"
	"strings"
	"unicode/utf8"
)

// ill-formed byte chunks: stray continuation bytes, overlongs, truncated sequences, encoded
// surrogates, bytes that can never occur, a code point above U+10FFFF
var badChunks = [][]byte{{0x80}, {0xbf}, {0xc0, 0x80}, {0xc1, 0xbf}, {0xc2}, {0xe0, 0x80, 0x80}, {0xe0, 0x9f, 0xbf}, {0xe2, 0x82}, {0xe2},
	{0xed, 0xa0, 0x80}, {0xed, 0xbf, 0xbf}, {0xf0, 0x9f}, {0xf0, 0x9f, 0x98}, {0xf0, 0x8f, 0xbf, 0xbf}, {0xf5}, {0xff}, {0xfe},
	{0xf4, 0x90, 0x80, 0x80}, {0xf8, 0x88, 0x80, 0x80, 0x80},
	// overlong encodings of characters that matter to the rules (a decoder that forgets a range check
	// would see a letter, a digit, a quote, a full stop or a line break instead of U+FFFD)
	{0xc1, 0xa1}, {0xc1, 0x81}, {0xc0, 0xb1}, {0xc0, 0x8a}, {0xc0, 0x8d}, {0xc0, 0xae}, {0xc0, 0xa7}, {0xc0, 0xba}, {0xc0, 0xa0},
	{0xe0, 0x81, 0xa1}, {0xe0, 0x80, 0xb1}, {0xe0, 0x80, 0x8a}, {0xe0, 0x80, 0x8d}, {0xe0, 0x82, 0x85}, {0xe0, 0x80, 0xae},
	{0xf0, 0x80, 0x81, 0xa1}, {0xf0, 0x80, 0x80, 0x8a}, {0xf0, 0x82, 0x80, 0xa8}, {0xe2, 0x80}, {0xed, 0xa0, 0xbd, 0xed, 0xb8, 0x80}}

// run lengths around powers of two and other round numbers: a bounded window, a counter of the wrong
// unit or a width field that is too narrow shows only there
var specialRuns = []int{15, 16, 17, 31, 32, 33, 63, 64, 65, 100, 127, 128, 129, 160, 161, 200, 255, 256, 257, 300, 511, 512, 513, 600, 1023, 1024, 1025}
var hugeRuns = []int{1500, 2047, 2048, 2049, 4095, 4096, 4097}

type template struct {
	alg byte // 'G', 'W', 'S', 'L'
	pat string
}

var templates = []template{
	{'G', "CR LF"}, {'G', "L{1,3} V{0,2} T{0,2}"}, {'G', "LV T{0,3}"}, {'G', "LVT T{0,2} V"}, {'G', "L LV|LVT T"},
	{'G', "XX Extend{0,3} ZWJ ExtendedPictographic"}, {'G', "ExtendedPictographic Extend{0,3} ZWJ ExtendedPictographic ZWJ ExtendedPictographic"},
	{'G', "RegionalIndicator{1,5}"}, {'G', "Prepend{1,2} XX|Control|CR|L|ExtendedPictographic"}, {'G', "XX SpacingMark{1,2} XX"},
	{'G', "Control|CR|LF Extend|SpacingMark|ZWJ"}, {'G', "ExtendedPictographic Extend{0,2} ZWJ{2,2} ExtendedPictographic"},
	{'G', "ZWJ ExtendedPictographic"}, {'G', "ExtendedPictographic SpacingMark|Prepend ZWJ ExtendedPictographic"},
	{'G', "RegionalIndicator Extend|ZWJ RegionalIndicator RegionalIndicator"}, {'G', "XX RegionalIndicator{2,4} XX"},
	{'W', "ALetter|HebrewLetter MidLetter|MidNumLet|SingleQuote ALetter|HebrewLetter"},
	{'W', "ALetter Extend|Format|ZWJ{0,3} MidNumLet|MidLetter Extend|Format|ZWJ{0,3} ALetter|Numeric|XX"},
	{'W', "HebrewLetter DoubleQuote Extend|Format{0,2} HebrewLetter|ALetter"}, {'W', "HebrewLetter SingleQuote XX|ALetter"},
	{'W', "Numeric MidNum|MidNumLet|SingleQuote Extend|Format|ZWJ{0,3} Numeric|ALetter"}, {'W', "ALetter Numeric ALetter Numeric"},
	{'W', "Katakana{1,3} ExtendNumLet Katakana"}, {'W', "ExtendNumLet ALetter ExtendNumLet Numeric ExtendNumLet"},
	{'W', "RegionalIndicator{1,5}"}, {'W', "RegionalIndicator Extend|ZWJ|Format RegionalIndicator RegionalIndicator"},
	{'W', "XX|ALetter ZWJ ExtendedPictographic"}, {'W', "XX ZWJ Extend|Format ExtendedPictographic"},
	{'W', "WSegSpace{1,3}"}, {'W', "WSegSpace Extend|Format|ZWJ WSegSpace"}, {'W', "CR LF"}, {'W', "Newline|CR|LF Extend|Format|ZWJ XX"},
	{'W', "ALetter MidLetter Extend{0,3}"}, {'W', "ALetter MidLetter MidLetter ALetter"}, {'W', "Numeric MidNum MidNum Numeric"},
	{'W', "ALetter|Numeric|Katakana|ExtendNumLet{2,5}"},
	{'S', "Upper ATerm Upper"}, {'S', "Lower|Upper ATerm Close{0,3} Sp{0,4} XX|Numeric|Close|SContinue{0,6} Lower"},
	{'S', "ATerm|STerm Close{0,2} Sp{0,3} Sep|CR|LF XX"}, {'S', "ATerm|STerm Close{0,2} Sp{0,3} CR LF XX"},
	{'S', "ATerm Numeric"}, {'S', "ATerm|STerm Close{0,2} Sp{0,2} SContinue|ATerm|STerm"},
	{'S', "XX Extend|Format{0,3} ATerm Extend|Format{0,2} Close Extend{0,1} Sp Lower|Upper|OLetter"},
	{'S', "CR LF XX"}, {'S', "Sep|CR|LF Extend|Format XX"}, {'S', "ATerm Sp{1,3} XX|Numeric|Close{0,5} Lower|Upper|OLetter|STerm|ATerm|Sep"},
	{'S', "STerm Close{0,2} Sp{0,3} XX|Lower|Upper"}, {'S', "Upper|Lower ATerm Close{1,2} Upper"}, {'S', "OLetter ATerm Sp Lower"},
	{'S', "ATerm Close Sp Close Lower"}, {'S', "ATerm Sp Close Lower"},
	{'L', "QU SP{0,3} OP"}, {'L', "CL|CP SP{0,3} NS"}, {'L', "B2 SP{0,3} B2"}, {'L', "OP SP{0,3} AL|ID|CM|QU|GL"},
	{'L', "PR|PO OP|HY NU"}, {'L', "PR|PO OP|HY CM|ZWJ{1,2} NU"}, {'L', "AL|SP|LF|BA HY NU"},
	{'L', "NU NU|SY|IS{0,4} CL|CP{0,1} PO|PR"}, {'L', "NU SY|IS{1,2} NU|AL|HL"}, {'L', "NU CL|CP SP{0,2} PO|PR|NS|AL"},
	{'L', "HL HY|BA AL|HL"}, {'L', "SY HL"}, {'L', "AL|HL|NU OP"}, {'L', "CP AL|HL|NU"}, {'L', "CP CM{1,2} AL|HL|NU"},
	{'L', "RI{1,5}"}, {'L', "RI CM|ZWJ RI RI"}, {'L', "EB EM"}, {'L', "EB CM EM"}, {'L', "ID|AL EM"},
	{'L', "ZW SP{0,3} AL|CM|GL|CL"}, {'L', "AL ZWJ AL|ID|SP"}, {'L', "AL CM{0,3} SP AL"}, {'L', "SP|ZW CM|ZWJ AL|OP|NU"},
	{'L', "BK|CR|LF|NL AL|CM|ZWJ|SP"}, {'L', "CR LF AL"}, {'L', "AL GL AL"}, {'L', "AL SP|BA|HY GL"}, {'L', "AL|ID|NU IN"},
	{'L', "AL|ID|EB|EM|HL PO|PR"}, {'L', "PR|PO AL|HL|ID|EB|EM|JL|JV|JT|H2|H3"}, {'L', "JL JL|JV|H2|H3"}, {'L', "JV|H2 JV|JT"},
	{'L', "JT|H3 JT"}, {'L', "JL|JV|JT|H2|H3 PO"}, {'L', "IS AL|HL"}, {'L', "BB AL"}, {'L', "CB AL"}, {'L', "AL CB"}, {'L', "WJ AL"},
	{'L', "AL WJ"}, {'L', "AL SP{1,2} EX|CL|CP|IS|SY"}, {'L', "AL EX|CL|CP|IS|SY"}, {'L', "SA{1,3}"}, {'L', "AI|SG|XX|CJ{1,3}"},
	{'L', "AL BA|HY|NS AL"}, {'L', "AL SP{1,3} AL"}, {'L', "QU AL QU"}, {'L', "AL QU SP AL"}, {'L', "OP CM SP AL"}, {'L', "QU CM SP{1,2} OP"},
	{'L', "CL|CP CM SP NS"}, {'L', "B2 CM SP B2"}, {'L', "HL CM HY CM AL"}, {'L', "NU CM SY CM NU"}, {'L', "PR CM NU"},
}

type tplTok struct {
	classes []int
	min, max int
}

type compiledTpl struct {
	alg  byte
	toks []tplTok
	src  string
}

var compiled []compiledTpl

func className(alg byte, n string) int {
	if n == "XX" {
		return c("prXX")
	}
	return c("pr" + n)
}

func compileTemplates() {
	for _, t := range templates {
		ct := compiledTpl{alg: t.alg, src: string(t.alg) + ":" + t.pat}
		for _, f := range strings.Fields(t.pat) {
			tok := tplTok{min: 1, max: 1}
			if i := strings.Index(f, "{"); i >= 0 {
				rng := strings.Trim(f[i:], "{}")
				parts := strings.Split(rng, ",")
				tok.min, _ = strconv.Atoi(parts[0])
				tok.max, _ = strconv.Atoi(parts[1])
				f = f[:i]
			}
			for _, n := range strings.Split(f, "|") {
				tok.classes = append(tok.classes, className(t.alg, n))
			}
			ct.toks = append(ct.toks, tok)
		}
		compiled = append(compiled, ct)
	}
}

func repsFor(alg byte, class int) []rune {
	switch alg {
	case 'G':
		return ci.byG[class]
	case 'W':
		return ci.byW[class]
	case 'S':
		return ci.byS[class]
	}
	return ci.byL[class]
}

func classesOf(alg byte) []int {
	var m map[int][]rune
	switch alg {
	case 'G':
		m = ci.byG
	case 'W':
		m = ci.byW
	case 'S':
		m = ci.byS
	default:
		m = ci.byL
	}
	res := make([]int, 0, len(m))
	for k := range m {
		res = append(res, k)
	}
	// deterministic order
	for i := 1; i < len(res); i++ {
		for j := i; j > 0 && res[j] < res[j-1]; j-- {
			res[j], res[j-1] = res[j-1], res[j]
		}
	}
	return res
}

var algClasses map[byte][]int
var boosted map[byte][]int

func initGen() {
	compileTemplates()
	algClasses = map[byte][]int{}
	for _, a := range []byte("GWSL") {
		algClasses[a] = classesOf(a)
	}
	boosted = map[byte][]int{
		'G': {c("prExtend"), c("prZWJ"), c("prExtendedPictographic"), c("prRegionalIndicator"), c("prSpacingMark"), c("prPrepend")},
		'W': {c("prExtend"), c("prFormat"), c("prZWJ"), c("prALetter"), c("prNumeric"), c("prMidNumLet"), c("prWSegSpace")},
		'S': {c("prExtend"), c("prFormat"), c("prSp"), c("prClose"), c("prATerm"), c("prSTerm"), c("prLower"), c("prXX")},
		'L': {c("prCM"), c("prZWJ"), c("prSP"), c("prNU"), c("prAL"), c("prOP"), c("prCP"), c("prQU"), c("prHY"), c("prIS")},
	}
}

func pickRune(r *rng, alg byte, class int) rune {
	reps := repsFor(alg, class)
	if len(reps) == 0 {
		return 'a'
	}
	return reps[r.intn(len(reps))]
}

func randomRune(r *rng, alg byte) rune {
	if r.chance(1, 3) {
		b := boosted[alg]
		return pickRune(r, alg, b[r.intn(len(b))])
	}
	if r.chance(1, 12) {
		return ci.named[r.intn(len(ci.named))]
	}
	cl := algClasses[alg]
	return pickRune(r, alg, cl[r.intn(len(cl))])
}

type genCase struct {
	input  []byte
	kind   string // "template", "random", "malformed", "corpus", "vector", "short"
	tplIdx int
}

func appendRune(b []byte, r rune) []byte {
	if r >= 0xD800 && r <= 0xDFFF || r > 0x10FFFF || r < 0 {
		return append(b, 0xEF, 0xBF, 0xBD)
	}
	return utf8.AppendRune(b, r)
}

func genTemplate(r *rng) genCase {
	idx := r.intn(len(compiled))
	t := compiled[idx]
	var b []byte
	algs := []byte("GWSL")
	for n := r.intn(3); n > 0; n-- {
		b = appendRune(b, randomRune(r, algs[r.intn(4)]))
	}
	reps := 1 + r.intn(2)
	// occasionally stretch one repeated token far beyond its nominal range: rules with "X*" and
	// look-ahead loops are unbounded
	stretch := -1
	if r.chance(1, 6) {
		stretch = r.intn(len(t.toks))
	}
	for ; reps > 0; reps-- {
		for ti, tok := range t.toks {
			n := tok.min + r.intn(tok.max-tok.min+1)
			if ti == stretch && tok.max > tok.min {
				n = tok.max + 1 + r.intn(40)
				if r.chance(1, 3) {
					n = specialRuns[r.intn(len(specialRuns))]
				} else if r.chance(1, 12) {
					n = hugeRuns[r.intn(len(hugeRuns))]
				}
				stretch = -1 // once per case
				if r.chance(1, 10) {
					// a run of ill-formed bytes where the rule allows a run of ignorable code points
					chunk := badChunks[r.intn(len(badChunks))]
					for i := 0; i < n; i++ {
						b = append(b, chunk...)
					}
					continue
				}
				if r.chance(1, 2) {
					// one member repeated (a long run of the same mark), else a mix
					x := pickRune(r, t.alg, tok.classes[r.intn(len(tok.classes))])
					for i := 0; i < n; i++ {
						b = appendRune(b, x)
					}
					continue
				}
			}
			for i := 0; i < n; i++ {
				b = appendRune(b, pickRune(r, t.alg, tok.classes[r.intn(len(tok.classes))]))
			}
		}
	}
	for n := r.intn(3); n > 0; n-- {
		b = appendRune(b, randomRune(r, t.alg))
	}
	return genCase{input: b, kind: "template", tplIdx: idx}
}

func genRandom(r *rng) genCase {
	alg := []byte("GWSL")[r.intn(4)]
	n := 1 + r.intn(12)
	if r.chance(1, 20) {
		n = 12 + r.intn(40)
	}
	var b []byte
	for i := 0; i < n; i++ {
		b = appendRune(b, randomRune(r, alg))
	}
	return genCase{input: b, kind: "random", tplIdx: -1}
}

// genMalformed splices ill-formed chunks into a well-formed case, at rune boundaries and inside runes
func genMalformed(r *rng) genCase {
	var base genCase
	if r.chance(1, 2) {
		base = genTemplate(r)
	} else {
		base = genRandom(r)
	}
	b := base.input
	k := 1 + r.intn(3)
	for ; k > 0; k-- {
		pos := 0
		if len(b) > 0 {
			pos = r.intn(len(b) + 1)
		}
		if r.chance(1, 5) {
			pos = len(b) // at the very end: DecodeLastRune and the end-of-input branches
		}
		if r.chance(3, 4) {
			for pos < len(b) && !utf8.RuneStart(b[pos]) {
				pos++
			}
		}
		chunk := badChunks[r.intn(len(badChunks))]
		switch r.intn(5) {
		case 0:
			// a random lead byte followed by up to three bytes that are continuation bytes, ASCII or leads
			chunk = []byte{byte(0xc0 + r.intn(0x40))}
			for n := r.intn(4); n > 0; n-- {
				switch r.intn(3) {
				case 0:
					chunk = append(chunk, byte(0x80+r.intn(0x40)))
				case 1:
					chunk = append(chunk, byte('a'+r.intn(26)))
				default:
					chunk = append(chunk, byte(0xc0+r.intn(0x40)))
				}
			}
		case 1:
			// a corrupted copy of a multi-byte code point of the input, same length, in front of the original:
			// the lead byte stays, continuation bytes become ASCII, leads, or out-of-range continuation bytes
			for try := 0; try < 8 && len(b) > 0; try++ {
				q := r.intn(len(b))
				for q < len(b) && !utf8.RuneStart(b[q]) {
					q++
				}
				if q >= len(b) {
					continue
				}
				_, sz := utf8.DecodeRune(b[q:])
				if sz < 2 {
					continue
				}
				cp := append([]byte{}, b[q:q+sz]...)
				for i := 1; i < sz; i++ {
					switch r.intn(4) {
					case 0:
						cp[i] = byte('a' + r.intn(26))
					case 1:
						cp[i] = cp[0]
					case 2:
						cp[i] ^= 0x40
					}
				}
				chunk = cp
				pos = q
				break
			}
		}
		nb := append([]byte{}, b[:pos]...)
		nb = append(nb, chunk...)
		nb = append(nb, b[pos:]...)
		b = nb
	}
	if r.chance(1, 6) && len(b) > 1 { // truncate the last sequence
		b = b[:len(b)-1]
	}
	return genCase{input: b, kind: "malformed", tplIdx: base.tplIdx}
}

// genASCIIRun: a run of ASCII bytes of a length around a multiple of 8 with a few punctuation bytes,
// digits and spaces inside, next to something that attaches to or interacts with its ends - the shape
// that word-at-a-time and "printable ASCII" fast paths get wrong
func genASCIIRun(r *rng) genCase {
	var b []byte
	algs := []byte("GWSL")
	if r.chance(1, 2) {
		b = appendRune(b, randomRune(r, algs[r.intn(4)]))
	}
	lens := []int{7, 8, 9, 15, 16, 17, 23, 24, 25, 31, 32, 33, 63, 64, 65}
	n := lens[r.intn(len(lens))]
	letters := "abcdefghijklmnopqrstuvwxyzABCDEFGHIJKLMNOPQRSTUVWXYZ"
	other := "0123456789 .,:;'\"!?()[]{}|\\/@#$%^&*-_=+<>~`\x7f\t"
	for i := 0; i < n; i++ {
		if r.chance(1, 8) {
			b = append(b, other[r.intn(len(other))])
		} else {
			b = append(b, letters[r.intn(len(letters))])
		}
	}
	switch r.intn(6) {
	case 0:
	case 1:
		b = append(b, badChunks[r.intn(len(badChunks))]...)
	case 2:
		b = append(b, '\r', '\n')
	default:
		alg := algs[r.intn(4)]
		bo := boosted[alg]
		b = appendRune(b, pickRune(r, alg, bo[r.intn(len(bo))]))
	}
	for n := r.intn(3); n > 0; n-- {
		b = appendRune(b, randomRune(r, algs[r.intn(4)]))
	}
	return genCase{input: b, kind: "asciirun", tplIdx: -1}
}

// genEcho: a piece, the same piece again, then something that continues the last cluster or segment -
// the shape that "same as last time" caches get wrong
func genEcho(r *rng) genCase {
	var piece genCase
	if r.chance(1, 2) {
		piece = genTemplate(r)
	} else {
		piece = genRandom(r)
	}
	if len(piece.input) > 200 {
		piece.input = piece.input[:0]
		piece.input = appendRune(piece.input, 'a')
	}
	b := append([]byte{}, piece.input...)
	for n := 1 + r.intn(3); n > 0; n-- {
		b = append(b, piece.input...)
	}
	algs := []byte("GWSL")
	for n := 1 + r.intn(2); n > 0; n-- {
		alg := algs[r.intn(4)]
		bo := boosted[alg]
		b = appendRune(b, pickRune(r, alg, bo[r.intn(len(bo))]))
	}
	b = append(b, piece.input...)
	return genCase{input: b, kind: "echo", tplIdx: -1}
}

// genBigCluster: one grapheme cluster (or look-ahead span) of a length around a power of two: a base,
// then a long run of one kind of attaching code point - spacing marks add to the width, Extend and ZWJ
// do not, Prepend comes first - so that byte lengths, code point counts and widths all reach the
// thresholds where a narrow field, a bounded window or a "long cluster" shortcut would show
func genBigCluster(r *rng) genCase {
	var b []byte
	algs := []byte("GWSL")
	for n := r.intn(3); n > 0; n-- {
		b = appendRune(b, randomRune(r, algs[r.intn(4)]))
	}
	n := specialRuns[r.intn(len(specialRuns))]
	if r.chance(1, 5) {
		n = hugeRuns[r.intn(len(hugeRuns))]
	}
	kinds := []int{c("prSpacingMark"), c("prExtend"), c("prZWJ"), c("prPrepend")}
	k := kinds[r.intn(len(kinds))]
	x := pickRune(r, 'G', k)
	if k == c("prPrepend") {
		for i := 0; i < n; i++ {
			b = appendRune(b, x)
		}
		b = appendRune(b, randomRune(r, 'G'))
	} else {
		b = appendRune(b, randomRune(r, 'G'))
		for i := 0; i < n; i++ {
			if r.chance(1, 50) {
				x = pickRune(r, 'G', k)
			}
			b = appendRune(b, x)
		}
	}
	for n := r.intn(4); n > 0; n-- {
		b = appendRune(b, randomRune(r, algs[r.intn(4)]))
	}
	return genCase{input: b, kind: "bigcluster", tplIdx: -1}
}

// genFarLook: the deciding code point of a look-ahead rule (SB8, WB6/7/7b/7c/11/12, LB25) at a distance
// around a power of two or a round number, measured in code points of one to four bytes each
func genFarLook(r *rng) genCase {
	type pat struct {
		alg                  byte
		pre, skip, decide    []string
	}
	pats := []pat{
		{'S', []string{"Lower|Upper|OLetter|XX", "ATerm", "Close|Sp|XX"}, []string{"XX", "Numeric", "Close", "SContinue", "Sp", "Extend", "Format"}, []string{"Lower", "Upper", "OLetter", "STerm", "ATerm", "Sep"}},
		{'S', []string{"ATerm", "Sp"}, []string{"Numeric", "XX"}, []string{"Lower", "Upper"}},
		{'W', []string{"ALetter|HebrewLetter|Numeric", "MidLetter|MidNumLet|MidNum|SingleQuote|DoubleQuote"}, []string{"Extend", "Format", "ZWJ"}, []string{"ALetter", "HebrewLetter", "Numeric", "XX", "Katakana"}},
		{'L', []string{"PR|PO", "OP|HY"}, []string{"CM", "ZWJ"}, []string{"NU", "AL", "OP"}},
		{'L', []string{"AL|HL|NU|CP", "CM|ZWJ"}, []string{"CM", "ZWJ"}, []string{"AL", "NU", "OP", "SP", "ID"}},
	}
	p := pats[r.intn(len(pats))]
	pick := func(spec string) rune {
		alts := strings.Split(spec, "|")
		return pickRune(r, p.alg, className(p.alg, alts[r.intn(len(alts))]))
	}
	var b []byte
	for n := r.intn(3); n > 0; n-- {
		b = appendRune(b, randomRune(r, p.alg))
	}
	for _, t := range p.pre {
		b = appendRune(b, pick(t))
	}
	n := specialRuns[r.intn(len(specialRuns))]
	if r.chance(1, 5) {
		n = hugeRuns[r.intn(len(hugeRuns))]
	}
	x := pick(p.skip[r.intn(len(p.skip))])
	mixed := r.chance(1, 3)
	for i := 0; i < n; i++ {
		if mixed && r.chance(1, 4) {
			x = pick(p.skip[r.intn(len(p.skip))])
		}
		b = appendRune(b, x)
	}
	b = appendRune(b, pick(p.decide[r.intn(len(p.decide))]))
	for n := r.intn(4); n > 0; n-- {
		b = appendRune(b, randomRune(r, p.alg))
	}
	return genCase{input: b, kind: "farlook", tplIdx: -1}
}

func genAny(r *rng) genCase {
	switch x := r.intn(26); {
	case x == 25:
		return genFarLook(r)
	case x == 24:
		return genBigCluster(r)
	case x < 9:
		return genTemplate(r)
	case x < 15:
		return genRandom(r)
	case x < 17:
		return genASCIIRun(r)
	case x < 18:
		return genEcho(r)
	default:
		return genMalformed(r)
	}
}

// modelSized: the Lean driver's chain and spec functions are quadratic; inputs beyond this size go to the
// oracle-free monitors only
func modelSized(b []byte) bool { return len(b) <= 300 }

// byteSequences enumerates ALL byte strings of length 1..n over a 13-byte alphabet that has every kind of
// byte (ASCII, a line break, low/middle/high continuation bytes, two-, three- and four-byte leads with
// and without restricted second-byte ranges): fast paths keyed on byte values and alignments, and every
// way a sequence can be truncated or interrupted, at every position of a short input
var byteAlphabet = []byte{'a', '\n', 0x80, 0xa5, 0xbf, 0xc3, 0xd0, 0xe0, 0xe6, 0xe9, 0xed, 0xf0, 0xf4}

func byteSequences(n int, emit func([]byte)) {
	buf := make([]byte, n)
	var rec func(d, l int)
	rec = func(d, l int) {
		if d == l {
			emit(append([]byte{}, buf[:l]...))
			return
		}
		for _, x := range byteAlphabet {
			buf[d] = x
			rec(d+1, l)
		}
	}
	for l := 1; l <= n; l++ {
		rec(0, l)
	}
}

// smallAlphabet: the symbols of the small-scope exhaustive streams for one algorithm. For every class of
// alg: its first representative (the lowest code point, i.e. the ASCII member where the class has one) and,
// where that one is ASCII, also the first non-ASCII representative - fast paths keyed on "ASCII letter",
// "single byte" and the like treat the two differently; for lines the signatures that matter beyond the
// class (East Asian width of OP/CP, unassigned Extended_Pictographic, an SA mark); U+FFFD; and one
// ill-formed byte.
func smallAlphabet(alg byte, full bool) [][]byte {
	var syms [][]byte
	seen := map[rune]bool{}
	add := func(r rune) {
		if !seen[r] {
			seen[r] = true
			syms = append(syms, appendRune(nil, r))
		}
	}
	for _, cl := range algClasses[alg] {
		rs := repsFor(alg, cl)
		if len(rs) == 0 {
			continue
		}
		add(rs[0])
		if full && rs[0] < 0x80 {
			for _, r := range rs[1:] {
				if r >= 0x80 {
					add(r)
					break
				}
			}
		}
	}
	switch alg {
	case 'L':
		for _, r := range []rune{0xFF08, 0xFF09, 0x1F02C, 0x0E31, 0x1F3FB} {
			add(r)
		}
	case 'W':
		for _, r := range []rune{0x2139, 0x231A, 'a', '1'} {
			add(r)
		}
	case 'G':
		for _, r := range []rune{0xFE0F, 0x1F3FB, 'a', '1', 0x20E3} {
			add(r)
		}
	case 'S':
		for _, r := range []rune{'a', 'A', '1', 0x1F3FB} {
			add(r)
		}
	}
	add(0xFFFD)
	syms = append(syms, []byte{0xFF})
	return syms
}

// smallScopeLen: the lengths up to which the small-scope streams are exhaustive: over the core alphabet
// and over the full alphabet
func smallScopeLen(alg byte, thorough bool) (n, nFull int) {
	n = map[byte]int{'G': 4, 'W': 4, 'S': 4, 'L': 3}[alg]
	nFull = n - 1
	if thorough {
		nFull = n
		if alg == 'G' {
			n = 5
		}
	}
	return
}

// shortSequences enumerates ALL sequences of length 1..n over the core alphabet of alg (one member per
// class, the ASCII one where there is one, plus the extra symbols) and ALL sequences of length 1..nFull
// over the full alphabet (also a non-ASCII member of every class that has an ASCII one)
func shortSequences(alg byte, n, nFull int, emit func([]byte)) {
	if !smallScope {
		return
	}
	if nFull > 0 {
		shortSeqOver(smallAlphabet(alg, true), 1, nFull, emit)
	}
	lo := 1
	if nFull >= n {
		return
	}
	if nFull > 0 {
		// lengths 1..nFull over the core alphabet are a subset of the above
		lo = nFull + 1
	}
	shortSeqOver(smallAlphabet(alg, false), lo, n, emit)
}

func shortSeqOver(syms [][]byte, lo, n int, emit func([]byte)) {
	idx := make([]int, n)
	var rec func(d, l int)
	rec = func(d, l int) {
		if d == l {
			var b []byte
			for i := 0; i < l; i++ {
				b = append(b, syms[idx[i]]...)
			}
			emit(b)
			return
		}
		for i := range syms {
			idx[d] = i
			rec(d+1, l)
		}
	}
	for l := lo; l <= n; l++ {
		rec(0, l)
	}
}
