package main

import (
	"bytes"
	"fmt"
	"strings"
	"unicode/utf8"
	"unsafe"

	u "github.com/rivo/uniseg"
)

// A monitor evaluates a property directly on the outputs of the real code. It returns "" when the
// property holds on this input and a description of the failure otherwise.
type monitor func(b []byte) string

type seg struct {
	end   int // byte offset of the segment's end
	extra int // width (fg), mustBreak (fl), boundaries (st)
	state int
}

var inDecoy bool

func chainSegs(kind string, b []byte, str bool) (res []seg, err string) {
	enter(b, kindName[kind]+" chain")
	defer leave()
	defer func() {
		if e := recover(); e != nil {
			err = fmt.Sprintf("panic: %v", e)
		}
	}()
	st, off := -1, 0
	if !str {
		rest := b
		if useArena && !inDecoy && len(b) > 0 && len(b) <= len(arena) {
			// the same memory held another text of the same length a moment ago (ASCII letters in the other
			// case: what SB8 decides on), segmented by the same entry point: a reused buffer, see viaArena
			inDecoy = true
			decoy := append([]byte(nil), b...)
			for i, c := range decoy {
				if c >= 'a' && c <= 'z' {
					decoy[i] = c - 32
				} else if c >= 'A' && c <= 'Z' {
					decoy[i] = c + 32
				}
			}
			chainSegs(kind, viaArena(decoy), false)
			inDecoy = false
			rest = viaArena(b)
		}
		for len(rest) > 0 {
			if len(res) > len(b) {
				return res, "more calls than bytes"
			}
			var s []byte
			var e int
			switch kind {
			case "fg":
				s, rest, e, st = u.FirstGraphemeCluster(rest, st)
			case "fw":
				s, rest, st = u.FirstWord(rest, st)
			case "fs":
				s, rest, st = u.FirstSentence(rest, st)
			case "fl":
				var mb bool
				s, rest, mb, st = u.FirstLineSegment(rest, st)
				e = b2i(mb)
			default:
				s, rest, e, st = u.Step(rest, st)
			}
			if len(s) == 0 {
				return res, "empty segment"
			}
			off += len(s)
			res = append(res, seg{off, e, st})
		}
		return
	}
	rest := string(b)
	for len(rest) > 0 {
		if len(res) > len(b) {
			return res, "more calls than bytes"
		}
		var s string
		var e int
		switch kind {
		case "fg":
			s, rest, e, st = u.FirstGraphemeClusterInString(rest, st)
		case "fw":
			s, rest, st = u.FirstWordInString(rest, st)
		case "fs":
			s, rest, st = u.FirstSentenceInString(rest, st)
		case "fl":
			var mb bool
			s, rest, mb, st = u.FirstLineSegmentInString(rest, st)
			e = b2i(mb)
		default:
			s, rest, e, st = u.StepString(rest, st)
		}
		if len(s) == 0 {
			return res, "empty segment"
		}
		off += len(s)
		res = append(res, seg{off, e, st})
	}
	return
}

var kinds = []string{"fg", "fw", "fs", "fl", "st"}
var kindName = map[string]string{"fg": "FirstGraphemeCluster", "fw": "FirstWord", "fs": "FirstSentence", "fl": "FirstLineSegment", "st": "Step"}

func runeBoundaries(b []byte) map[int]bool {
	m := map[int]bool{0: true}
	for i := 0; i < len(b); {
		_, n := utf8.DecodeRune(b[i:])
		i += n
		m[i] = true
	}
	return m
}

// C05: lossless partition, progress, aliasing, non-negative states, zero values on empty input
func monC05(b []byte) string {
	orig := append([]byte(nil), b...)
	rb := runeBoundaries(b)
	for _, k := range kinds {
		for _, str := range []bool{false, true} {
			name := kindName[k]
			if str {
				name += "InString/StepString"
			}
			segs, err := chainSegs(k, b, str)
			if err != "" {
				return name + ": " + err
			}
			if len(b) > 0 && (len(segs) == 0 || segs[len(segs)-1].end != len(b)) {
				return name + ": segments do not cover the input"
			}
			if len(segs) > len(b) {
				return name + ": more calls than bytes"
			}
			prev := 0
			for _, s := range segs {
				if s.end <= prev {
					return name + ": empty segment"
				}
				if !rb[s.end] {
					return fmt.Sprintf("%s: boundary at byte %d falls inside a decoded rune", name, s.end)
				}
				if s.state < 0 {
					return fmt.Sprintf("%s: negative state %d", name, s.state)
				}
				prev = s.end
			}
		}
	}
	if !bytes.Equal(orig, b) {
		return "input was modified"
	}
	// aliasing of the byte forms, call by call
	if msg := aliasCheck(b); msg != "" {
		return msg
	}
	return ""
}

func aliasCheck(b []byte) (msg string) {
	enter(b, "First*/Step chain (aliasing monitor)")
	defer leave()
	defer func() {
		if e := recover(); e != nil {
			msg = fmt.Sprintf("panic: %v", e)
		}
	}()
	for _, k := range kinds {
		rest := b
		st := -1
		for len(rest) > 0 {
			var s, r []byte
			switch k {
			case "fg":
				s, r, _, st = u.FirstGraphemeCluster(rest, st)
			case "fw":
				s, r, st = u.FirstWord(rest, st)
			case "fs":
				s, r, st = u.FirstSentence(rest, st)
			case "fl":
				s, r, _, st = u.FirstLineSegment(rest, st)
			default:
				s, r, _, st = u.Step(rest, st)
			}
			if len(s) == 0 {
				return kindName[k] + ": empty segment"
			}
			if unsafe.SliceData(s) != unsafe.SliceData(rest) {
				return kindName[k] + ": segment is not a prefix sub-slice of the argument (copied?)"
			}
			if len(r) > 0 && unsafe.SliceData(r) != (*byte)(unsafe.Add(unsafe.Pointer(unsafe.SliceData(rest)), len(s))) {
				return kindName[k] + ": rest is not the suffix sub-slice of the argument"
			}
			if len(s)+len(r) != len(rest) {
				return kindName[k] + ": segment and rest do not add up to the argument"
			}
			if len(r) == 0 && r != nil && len(s) == len(rest) {
				// documented: rest is nil at the end; a non-nil empty rest is tolerated
			}
			rest = r
		}
	}
	// string forms: the segment must be a prefix and rest the matching suffix (by value; strings are immutable)
	str := string(b)
	for _, k := range kinds {
		rest := str
		st := -1
		for len(rest) > 0 {
			var s, r string
			switch k {
			case "fg":
				s, r, _, st = u.FirstGraphemeClusterInString(rest, st)
			case "fw":
				s, r, st = u.FirstWordInString(rest, st)
			case "fs":
				s, r, st = u.FirstSentenceInString(rest, st)
			case "fl":
				s, r, _, st = u.FirstLineSegmentInString(rest, st)
			default:
				s, r, _, st = u.StepString(rest, st)
			}
			if len(s) == 0 || s+r != rest {
				return kindName[k] + "InString: segment+rest != argument"
			}
			rest = r
		}
	}
	return ""
}

func monEmpty() string {
	if s, r, w, st := u.FirstGraphemeCluster(nil, -1); s != nil || r != nil || w != 0 || st != 0 {
		return "FirstGraphemeCluster(nil) is not all zero"
	}
	if s, r, w, st := u.FirstGraphemeClusterInString("", -1); s != "" || r != "" || w != 0 || st != 0 {
		return "FirstGraphemeClusterInString(\"\") is not all zero"
	}
	if s, r, st := u.FirstWord([]byte{}, -1); len(s) != 0 || len(r) != 0 || st != 0 {
		return "FirstWord(empty) is not all zero"
	}
	if s, r, st := u.FirstWordInString("", 5); s != "" || r != "" || st != 0 {
		return "FirstWordInString(\"\") is not all zero"
	}
	if s, r, st := u.FirstSentence(nil, -1); s != nil || r != nil || st != 0 {
		return "FirstSentence(nil) is not all zero"
	}
	if s, r, st := u.FirstSentenceInString("", -1); s != "" || r != "" || st != 0 {
		return "FirstSentenceInString(\"\") is not all zero"
	}
	if s, r, mb, st := u.FirstLineSegment(nil, -1); s != nil || r != nil || mb || st != 0 {
		return "FirstLineSegment(nil) is not all zero"
	}
	if s, r, mb, st := u.FirstLineSegmentInString("", -1); s != "" || r != "" || mb || st != 0 {
		return "FirstLineSegmentInString(\"\") is not all zero"
	}
	if s, r, bd, st := u.Step(nil, -1); s != nil || r != nil || bd != 0 || st != 0 {
		return "Step(nil) is not all zero"
	}
	if s, r, bd, st := u.StepString("", -1); s != "" || r != "" || bd != 0 || st != 0 {
		return "StepString(\"\") is not all zero"
	}
	return ""
}

func endSet(segs []seg) map[int]seg {
	m := map[int]seg{}
	for _, s := range segs {
		m[s.end] = s
	}
	return m
}

// C08: Step reports exactly what the four specialised functions report
func monC08(b []byte) string {
	for _, str := range []bool{false, true} {
		st, e := chainSegs("st", b, str)
		if e != "" {
			return "Step: " + e
		}
		fg, e1 := chainSegs("fg", b, str)
		fw, e2 := chainSegs("fw", b, str)
		fs, e3 := chainSegs("fs", b, str)
		fl, e4 := chainSegs("fl", b, str)
		if e1+e2+e3+e4 != "" {
			return "First*: " + e1 + e2 + e3 + e4
		}
		if len(st) != len(fg) {
			return fmt.Sprintf("Step yields %d clusters, FirstGraphemeCluster %d", len(st), len(fg))
		}
		ws, ss, ls := endSet(fw), endSet(fs), endSet(fl)
		for i := range st {
			if st[i].end != fg[i].end {
				return fmt.Sprintf("cluster %d ends at %d (Step) vs %d (FirstGraphemeCluster)", i, st[i].end, fg[i].end)
			}
			bd := st[i].extra
			if bd>>u.ShiftWidth != fg[i].extra {
				return fmt.Sprintf("cluster %d: width %d (Step) vs %d (FirstGraphemeCluster)", i, bd>>u.ShiftWidth, fg[i].extra)
			}
			_, w := ws[st[i].end]
			if (bd&u.MaskWord != 0) != w {
				return fmt.Sprintf("offset %d: word bit %v, FirstWord boundary %v", st[i].end, bd&u.MaskWord != 0, w)
			}
			_, s := ss[st[i].end]
			if (bd&u.MaskSentence != 0) != s {
				return fmt.Sprintf("offset %d: sentence bit %v, FirstSentence boundary %v", st[i].end, bd&u.MaskSentence != 0, s)
			}
			want := u.LineDontBreak
			if l, ok := ls[st[i].end]; ok {
				want = u.LineCanBreak
				if l.extra == 1 {
					want = u.LineMustBreak
				}
			}
			if bd&u.MaskLine != want {
				return fmt.Sprintf("offset %d: line bits %d, FirstLineSegment says %d", st[i].end, bd&u.MaskLine, want)
			}
		}
		// boundaries of the specialised functions that Step omits must lie strictly inside a cluster
		cl := endSet(st)
		for _, set := range []map[int]seg{ws, ss, ls} {
			for off := range set {
				if _, ok := cl[off]; !ok {
					// inside a cluster: fine by the property; nothing to check beyond existence
					_ = off
				}
			}
		}
	}
	return interleaveCheck("st", b)
}

// C09: byte and string variants agree
func monC09(b []byte) string {
	for _, k := range kinds {
		a, e1 := chainSegs(k, b, false)
		s, e2 := chainSegs(k, b, true)
		if e1 != e2 {
			return kindName[k] + ": " + e1 + " vs " + e2
		}
		if len(a) != len(s) {
			return fmt.Sprintf("%s: %d segments (bytes) vs %d (string)", kindName[k], len(a), len(s))
		}
		for i := range a {
			if a[i].end != s[i].end || a[i].extra != s[i].extra {
				return fmt.Sprintf("%s: segment %d differs: end %d/%d extra %d/%d", kindName[k], i, a[i].end, s[i].end, a[i].extra, s[i].extra)
			}
			if a[i].end != len(b) && a[i].state != s[i].state {
				return fmt.Sprintf("%s: state after segment %d differs: %d vs %d", kindName[k], i, a[i].state, s[i].state)
			}
		}
	}
	if u.HasTrailingLineBreak(b) != u.HasTrailingLineBreakInString(string(b)) {
		return "HasTrailingLineBreak differs from HasTrailingLineBreakInString"
	}
	return ""
}

// C10: ill-formed bytes behave as U+FFFD, nothing panics
func reencode(b []byte) []byte { return []byte(string([]rune(string(b)))) }

func runeEnds(b []byte, segs []seg) []int {
	// convert byte offsets into code-point counts
	idx := map[int]int{0: 0}
	n := 0
	for i := 0; i < len(b); {
		_, l := utf8.DecodeRune(b[i:])
		i += l
		n++
		idx[i] = n
	}
	res := make([]int, len(segs))
	for i, s := range segs {
		res[i] = idx[s.end]
	}
	return res
}

func monC10(b []byte) string {
	fixed := reencode(b)
	for _, k := range kinds {
		for _, str := range []bool{false, true} {
			a, e1 := chainSegs(k, b, str)
			if e1 != "" {
				return kindName[k] + ": " + e1
			}
			f, e2 := chainSegs(k, fixed, str)
			if e2 != "" {
				return kindName[k] + " (re-encoded): " + e2
			}
			ra, rf := runeEnds(b, a), runeEnds(fixed, f)
			if len(ra) != len(rf) {
				return fmt.Sprintf("%s: %d segments on the input, %d with ill-formed bytes replaced by U+FFFD", kindName[k], len(ra), len(rf))
			}
			for i := range ra {
				if ra[i] != rf[i] {
					return fmt.Sprintf("%s: segment %d ends after %d code points on the input, %d after replacement", kindName[k], i, ra[i], rf[i])
				}
				if a[i].extra != f[i].extra {
					return fmt.Sprintf("%s: segment %d width/flags %d on the input, %d after replacement", kindName[k], i, a[i].extra, f[i].extra)
				}
			}
		}
	}
	res := protect(func() string {
		if u.StringWidth(string(b)) != u.StringWidth(string(fixed)) {
			return "StringWidth differs after replacement"
		}
		if u.GraphemeClusterCount(string(b)) != u.GraphemeClusterCount(string(fixed)) {
			return "GraphemeClusterCount differs after replacement"
		}
		_ = u.ReverseString(string(b)) // totality only: reversing ill-formed bytes may create well-formed sequences
		if u.HasTrailingLineBreak(b) != u.HasTrailingLineBreak(fixed) {
			return "HasTrailingLineBreak differs after replacement"
		}
		if u.HasTrailingLineBreakInString(string(b)) != u.HasTrailingLineBreakInString(string(fixed)) {
			return "HasTrailingLineBreakInString differs after replacement"
		}
		g, gf := u.NewGraphemes(string(b)), u.NewGraphemes(string(fixed))
		for {
			n1, n2 := g.Next(), gf.Next()
			if n1 != n2 {
				return "Graphemes: different number of clusters after replacement"
			}
			if !n1 {
				break
			}
			if string(g.Runes()) != string(gf.Runes()) || g.Width() != gf.Width() || g.LineBreak() != gf.LineBreak() ||
				g.IsWordBoundary() != gf.IsWordBoundary() || g.IsSentenceBoundary() != gf.IsSentenceBoundary() {
				return "Graphemes: a cluster's code points, width or flags differ after replacement"
			}
		}
		return ""
	})
	return res
}

// C11: compositionality at reported boundaries
func monC11(b []byte) string {
	for _, k := range []string{"fg", "fw", "fs", "fl", "st"} {
		full, e := chainSegs(k, b, false)
		if e != "" {
			return kindName[k] + ": " + e
		}
		for i := 0; i+1 < len(full); i++ {
			p := full[i].end
			pre, e1 := chainSegs(k, b[:p], false)
			suf, e2 := chainSegs(k, b[p:], false)
			if e1+e2 != "" {
				return kindName[k] + ": " + e1 + e2
			}
			if len(pre)+len(suf) != len(full) {
				return fmt.Sprintf("%s: cut at reported boundary %d: %d+%d segments instead of %d", kindName[k], p, len(pre), len(suf), len(full))
			}
			for j := range full {
				var got seg
				last := false
				if j < len(pre) {
					got = pre[j]
					last = j == len(pre)-1
				} else {
					got = suf[j-len(pre)]
					got.end += p
				}
				if got.end != full[j].end {
					return fmt.Sprintf("%s: cut at reported boundary %d: segment %d ends at %d instead of %d", kindName[k], p, j, got.end, full[j].end)
				}
				if k == "st" {
					// p is a cluster boundary: clusters and widths must be the same; the line / word /
					// sentence flags must be the same for the segmenters for which Step reported a
					// boundary at p (except the end-of-text flags of the prefix's last cluster)
					if got.extra>>u.ShiftWidth != full[j].extra>>u.ShiftWidth {
						return fmt.Sprintf("Step: cut at reported cluster boundary %d: cluster %d has width %d instead of %d", p, j, got.extra>>u.ShiftWidth, full[j].extra>>u.ShiftWidth)
					}
					if last {
						continue
					}
					at := full[i].extra
					if at&u.MaskLine != u.LineDontBreak && got.extra&u.MaskLine != full[j].extra&u.MaskLine {
						return fmt.Sprintf("Step: cut at reported line break %d: cluster %d has line flag %d instead of %d", p, j, got.extra&u.MaskLine, full[j].extra&u.MaskLine)
					}
					if at&u.MaskWord != 0 && got.extra&u.MaskWord != full[j].extra&u.MaskWord {
						return fmt.Sprintf("Step: cut at reported word boundary %d: cluster %d has word flag %d instead of %d", p, j, got.extra&u.MaskWord, full[j].extra&u.MaskWord)
					}
					if at&u.MaskSentence != 0 && got.extra&u.MaskSentence != full[j].extra&u.MaskSentence {
						return fmt.Sprintf("Step: cut at reported sentence boundary %d: cluster %d has sentence flag %d instead of %d", p, j, got.extra&u.MaskSentence, full[j].extra&u.MaskSentence)
					}
					continue
				}
				if got.extra != full[j].extra && !(k == "fl" && last) {
					return fmt.Sprintf("%s: cut at reported boundary %d: segment %d has width/mustBreak %d instead of %d", kindName[k], p, j, got.extra, full[j].extra)
				}
			}
		}
	}
	return ""
}

var hardBreaks = map[rune]bool{0x0A: true, 0x0B: true, 0x0C: true, 0x0D: true, 0x85: true, 0x2028: true, 0x2029: true}

// C12: hard breaks, end flags, CR LF
func monC12(b []byte) string {
	r, n := utf8.DecodeLastRune(b)
	want := n > 0 && !(r == utf8.RuneError && n == 1) && hardBreaks[r]
	if got := u.HasTrailingLineBreak(b); got != want {
		return fmt.Sprintf("HasTrailingLineBreak = %v, last code point U+%04X", got, r)
	}
	if got := u.HasTrailingLineBreakInString(string(b)); got != want {
		return fmt.Sprintf("HasTrailingLineBreakInString = %v, last code point U+%04X", got, r)
	}
	if len(b) == 0 {
		return ""
	}
	for _, str := range []bool{false, true} {
		fl, e := chainSegs("fl", b, str)
		if e != "" {
			return "FirstLineSegment: " + e
		}
		prev := 0
		for i, s := range fl {
			if i == len(fl)-1 {
				if s.extra != 1 {
					return "last line segment has mustBreak false"
				}
			} else if (s.extra == 1) != u.HasTrailingLineBreak(b[prev:s.end]) {
				return fmt.Sprintf("line segment %d (bytes %d..%d): mustBreak %v but HasTrailingLineBreak(segment) %v", i, prev, s.end, s.extra == 1, u.HasTrailingLineBreak(b[prev:s.end]))
			}
			prev = s.end
		}
		st, e := chainSegs("st", b, str)
		if e != "" {
			return "Step: " + e
		}
		last := st[len(st)-1].extra
		if last&u.MaskLine != u.LineMustBreak || last&u.MaskWord == 0 || last&u.MaskSentence == 0 {
			return fmt.Sprintf("last Step cluster has boundaries %d (expected word, sentence and LineMustBreak)", last)
		}
		for _, k := range kinds {
			segs, e := chainSegs(k, b, str)
			if e != "" {
				return kindName[k] + ": " + e
			}
			for _, s := range segs {
				if s.end < len(b) && s.end > 0 && b[s.end-1] == '\r' && b[s.end] == '\n' {
					return fmt.Sprintf("%s reports a boundary between CR and LF at byte %d", kindName[k], s.end)
				}
			}
		}
	}
	return ""
}

// C13: the iterator mirrors StepString (real vs real)
func monC13ops(b []byte, ops string) string {
	return protect(func() string {
		str := string(b)
		type stepRes struct {
			cluster    string
			from, to   int
			boundaries int
		}
		var steps []stepRes
		rest, st, off := str, -1, 0
		for len(rest) > 0 {
			var cl string
			var bd int
			cl, rest, bd, st = u.StepString(rest, st)
			if len(cl) == 0 {
				return "StepString returned an empty cluster"
			}
			steps = append(steps, stepRes{cl, off, off + len(cl), bd})
			off += len(cl)
		}
		g := u.NewGraphemes(str)
		pos := -1 // -1 before first Next; len(steps) after the end
		check := func() string {
			switch {
			case pos == -1:
				f, t := g.Positions()
				if f != 0 || t != 0 || g.Str() != "" || g.Runes() != nil || g.Bytes() != nil || !g.IsWordBoundary() || !g.IsSentenceBoundary() || g.LineBreak() != u.LineDontBreak || g.Width() != 0 {
					return "accessors before the first Next are not the documented neutral values"
				}
			case pos >= len(steps):
				f, t := g.Positions()
				if f != 1 || t != 1 || g.Str() != "" || g.Runes() != nil || g.Bytes() != nil || !g.IsWordBoundary() || !g.IsSentenceBoundary() || g.LineBreak() != u.LineMustBreak || g.Width() != 0 {
					return "accessors after the end are not the documented neutral values"
				}
			default:
				s := steps[pos]
				f, t := g.Positions()
				if g.Str() != s.cluster || string(g.Bytes()) != s.cluster || string(g.Runes()) != string([]rune(s.cluster)) {
					return fmt.Sprintf("cluster %d: Str/Bytes/Runes differ from StepString's cluster", pos)
				}
				if f != s.from || t != s.to || str[f:t] != g.Str() {
					return fmt.Sprintf("cluster %d: Positions (%d,%d), expected (%d,%d)", pos, f, t, s.from, s.to)
				}
				if g.IsWordBoundary() != (s.boundaries&u.MaskWord != 0) || g.IsSentenceBoundary() != (s.boundaries&u.MaskSentence != 0) ||
					g.LineBreak() != s.boundaries&u.MaskLine || g.Width() != s.boundaries>>u.ShiftWidth {
					return fmt.Sprintf("cluster %d: flags/width differ from StepString's boundaries %d", pos, s.boundaries)
				}
			}
			return ""
		}
		for i, op := range ops {
			switch op {
			case 'N':
				got := g.Next()
				if pos < len(steps) {
					pos++
				}
				if got != (pos < len(steps)) {
					return fmt.Sprintf("op %d: Next returned %v at position %d of %d", i, got, pos, len(steps))
				}
			case 'R':
				g.Reset()
				pos = -1
			}
			if pos == len(steps) && len(steps) > 0 && op != 'N' {
				// state -2 is only entered by the Next that returns false
			}
			if m := checkIf(pos, len(steps), op, check); m != "" {
				return fmt.Sprintf("after op %d (%c): %s", i, op, m)
			}
		}
		return ""
	})
}

func checkIf(pos, n int, op rune, check func() string) string { return check() }

// iterAfterReset (C01-C04, C06: their statements name Graphemes as an observation point): a Graphemes value
// yields the clusters / flags / widths of the StepString chain on a first pass, again after Reset, and after
// a partial pass followed by Reset. what: "clusters", "word", "sentence", "line", "width".
func iterAfterReset(b []byte, what string) string {
	s := string(b)
	type rec struct {
		cl string
		bd int
	}
	var want []rec
	rest, st := s, -1
	for len(rest) > 0 {
		var cl string
		var bd int
		cl, rest, bd, st = u.StepString(rest, st)
		if cl == "" {
			return "StepString returned an empty cluster"
		}
		want = append(want, rec{cl, bd})
	}
	g := u.NewGraphemes(s)
	pass := func(name string) string {
		for i, w := range want {
			if !g.Next() {
				return fmt.Sprintf("%s: Graphemes ends before cluster %d", name, i)
			}
			switch what {
			case "clusters":
				if g.Str() != w.cl {
					return fmt.Sprintf("%s: cluster %d is %+q, StepString gives %+q", name, i, g.Str(), w.cl)
				}
			case "word":
				if g.Str() != w.cl || g.IsWordBoundary() != (w.bd&u.MaskWord != 0) {
					return fmt.Sprintf("%s: cluster %d: IsWordBoundary %v, StepString's boundaries %d", name, i, g.IsWordBoundary(), w.bd)
				}
			case "sentence":
				if g.Str() != w.cl || g.IsSentenceBoundary() != (w.bd&u.MaskSentence != 0) {
					return fmt.Sprintf("%s: cluster %d: IsSentenceBoundary %v, StepString's boundaries %d", name, i, g.IsSentenceBoundary(), w.bd)
				}
			case "line":
				if g.Str() != w.cl || g.LineBreak() != w.bd&u.MaskLine {
					return fmt.Sprintf("%s: cluster %d: LineBreak %d, StepString's boundaries %d", name, i, g.LineBreak(), w.bd)
				}
			case "width":
				if g.Str() != w.cl || g.Width() != w.bd>>u.ShiftWidth {
					return fmt.Sprintf("%s: cluster %d: Width %d, StepString's boundaries %d", name, i, g.Width(), w.bd)
				}
			}
		}
		if g.Next() {
			return name + ": Graphemes yields more clusters than StepString"
		}
		return ""
	}
	if m := pass("first pass"); m != "" {
		return m
	}
	g.Reset()
	if m := pass("pass after Reset"); m != "" {
		return m
	}
	g.Reset()
	for i := 0; i < len(want)/2; i++ {
		g.Next()
	}
	g.Reset()
	return pass("pass after a partial pass and Reset")
}

// interleaveCheck: the chain of one entry point over b is the same when another text (b rotated by half its
// length: same length, similar content) is segmented alternately with it, call by call - nothing is
// remembered from one call that another text's call could pick up
func interleaveCheck(kind string, b []byte) string {
	if len(b) < 2 {
		return ""
	}
	h := len(b) / 2
	other := append(append([]byte{}, b[h:]...), b[:h]...)
	for _, str := range []bool{false, true} {
		if a, c := realChainInterleaved(kind, b, other, str), realChain(kind, b, str); a != c {
			return fmt.Sprintf("%s (string form %v): segmented alternately with %+q the chain is %s, alone it is %s", kindName[kind], str, string(other), a, c)
		}
	}
	return ""
}

func monIter(what string) monitor {
	kind := map[string]string{"word": "fw", "sentence": "fs", "line": "fl"}[what]
	return func(b []byte) string {
		return protect(func() string {
			if m := iterAfterReset(b, what); m != "" {
				return m
			}
			return interleaveCheck(kind, b)
		})
	}
}

// C01 (oracle-free part): every cluster-producing entry point reports the same clusters
// (FirstGraphemeCluster, FirstGraphemeClusterInString, Step, StepString, Graphemes, GraphemeClusterCount);
// that these are the clusters of GB1-GB999 is the SPEC stage's comparison of the first of them
func monC01(b []byte) string {
	return protect(func() string {
		s := string(b)
		n := 0
		rest, st := s, -1
		g := u.NewGraphemes(s)
		rb, stb := b, -1
		rs, sts := s, -1
		rsb, stsb := b, -1
		for len(rest) > 0 {
			var cl string
			cl, rest, _, st = u.FirstGraphemeClusterInString(rest, st)
			if cl == "" {
				return "empty cluster"
			}
			n++
			var clb []byte
			clb, rb, _, stb = u.FirstGraphemeCluster(rb, stb)
			if string(clb) != cl {
				return fmt.Sprintf("cluster %d: FirstGraphemeCluster %+q, FirstGraphemeClusterInString %+q", n, string(clb), cl)
			}
			var c2 string
			c2, rs, _, sts = u.StepString(rs, sts)
			if c2 != cl {
				return fmt.Sprintf("cluster %d: StepString %+q, FirstGraphemeClusterInString %+q", n, c2, cl)
			}
			var c3 []byte
			c3, rsb, _, stsb = u.Step(rsb, stsb)
			if string(c3) != cl {
				return fmt.Sprintf("cluster %d: Step %+q, FirstGraphemeClusterInString %+q", n, string(c3), cl)
			}
			if !g.Next() || g.Str() != cl {
				return fmt.Sprintf("cluster %d: Graphemes %+q, FirstGraphemeClusterInString %+q", n, g.Str(), cl)
			}
		}
		if g.Next() {
			return "Graphemes reports more clusters than FirstGraphemeClusterInString"
		}
		if c := u.GraphemeClusterCount(s); c != n {
			return fmt.Sprintf("GraphemeClusterCount = %d, FirstGraphemeClusterInString finds %d clusters", c, n)
		}
		if m := iterAfterReset(b, "clusters"); m != "" {
			return m
		}
		return interleaveCheck("fg", b)
	})
}

// C06 (oracle-free part): StringWidth is the sum of the cluster widths; FirstGraphemeCluster(InString),
// Step(String) and Graphemes.Width report the same width for the same cluster, whether the cluster is
// reached through chained states or segmented on its own
func monC06(b []byte) string {
	return protect(func() string {
		s := string(b)
		sum := 0
		rest, st := s, -1
		g := u.NewGraphemes(s)
		rb, stb := b, -1
		rs, sts := s, -1
		rsb, stsb := b, -1
		for len(rest) > 0 {
			var cl string
			var w int
			cl, rest, w, st = u.FirstGraphemeClusterInString(rest, st)
			if cl == "" {
				return "empty cluster"
			}
			sum += w
			var clb []byte
			var wb int
			clb, rb, wb, stb = u.FirstGraphemeCluster(rb, stb)
			if string(clb) != cl || wb != w {
				return fmt.Sprintf("FirstGraphemeCluster reports cluster %+q width %d, FirstGraphemeClusterInString %+q width %d", string(clb), wb, cl, w)
			}
			var c2 string
			var bd int
			c2, rs, bd, sts = u.StepString(rs, sts)
			if c2 != cl || bd>>u.ShiftWidth != w {
				return fmt.Sprintf("StepString reports cluster %+q width %d, FirstGraphemeClusterInString %+q width %d", c2, bd>>u.ShiftWidth, cl, w)
			}
			var c3 []byte
			c3, rsb, bd, stsb = u.Step(rsb, stsb)
			if string(c3) != cl || bd>>u.ShiftWidth != w {
				return fmt.Sprintf("Step reports cluster %+q width %d, FirstGraphemeClusterInString %+q width %d", string(c3), bd>>u.ShiftWidth, cl, w)
			}
			if !g.Next() || g.Str() != cl || g.Width() != w {
				return fmt.Sprintf("Graphemes reports cluster %+q width %d, FirstGraphemeClusterInString %+q width %d", g.Str(), g.Width(), cl, w)
			}
			// the same cluster on its own
			if _, _, w1, _ := u.FirstGraphemeClusterInString(cl, -1); w1 != w {
				return fmt.Sprintf("cluster %+q has width %d in the chain and %d on its own", cl, w, w1)
			}
			if u.StringWidth(cl) != w {
				return fmt.Sprintf("cluster %+q has width %d in the chain and StringWidth %d", cl, w, u.StringWidth(cl))
			}
		}
		if sw := u.StringWidth(s); sw != sum {
			return fmt.Sprintf("StringWidth = %d, sum of the cluster widths = %d", sw, sum)
		}
		return iterAfterReset(b, "width")
	})
}

// C14: count and reverse
func monC14(b []byte) string {
	return protect(func() string {
		s := string(b)
		var clusters []string
		rest, st := s, -1
		for len(rest) > 0 {
			var cl string
			cl, rest, _, st = u.FirstGraphemeClusterInString(rest, st)
			if cl == "" {
				return "empty cluster"
			}
			clusters = append(clusters, cl)
		}
		n := u.GraphemeClusterCount(s)
		if n != len(clusters) {
			return fmt.Sprintf("GraphemeClusterCount = %d, FirstGraphemeClusterInString yields %d", n, len(clusters))
		}
		if (n == 0) != (len(s) == 0) {
			return "count is zero iff empty violated"
		}
		if n > len([]rune(s)) {
			return "count exceeds the number of code points"
		}
		var sb strings.Builder
		for i := len(clusters) - 1; i >= 0; i-- {
			sb.WriteString(clusters[i])
		}
		if rev := u.ReverseString(s); rev != sb.String() {
			return fmt.Sprintf("ReverseString = %+q, clusters reversed = %+q", rev, sb.String())
		}
		return ""
	})
}

// C15: EastAsianAmbiguousWidth changes widths only, affinely. Not safe for concurrent use: it
// sets the package variable; the harness runs it single-threaded and restores the value.
func monC15(b []byte) string {
	save := u.EastAsianAmbiguousWidth
	defer func() { u.EastAsianAmbiguousWidth = save }()
	type snap struct {
		chains map[string][]seg
		sw     int
	}
	take := func(k int) (snap, string) {
		u.EastAsianAmbiguousWidth = k
		sn := snap{chains: map[string][]seg{}}
		for _, kd := range kinds {
			for _, str := range []bool{false, true} {
				sg, e := chainSegs(kd, b, str)
				if e != "" {
					return sn, e
				}
				sn.chains[fmt.Sprint(kd, str)] = sg
			}
		}
		sn.sw = u.StringWidth(string(b))
		return sn, ""
	}
	base, e := take(1)
	if e != "" {
		return e
	}
	two, e := take(2)
	if e != "" {
		return e
	}
	nA := 0 // number of code points with East_Asian_Width A (upper bound for the counted ones)
	for _, r := range string(b) {
		if u.VerifPropertyEastAsianWidth(r) == c("prA") {
			nA++
		}
	}
	width := func(kd string, s seg) int {
		if strings.HasPrefix(kd, "st") {
			return s.extra >> u.ShiftWidth
		}
		return s.extra
	}
	for _, k := range []int{0, 2, 3, 7} {
		sn, e := take(k)
		if e != "" {
			return e
		}
		for key, segs := range sn.chains {
			bs, ts := base.chains[key], two.chains[key]
			if len(segs) != len(bs) {
				return fmt.Sprintf("%s: number of segments changes with EastAsianAmbiguousWidth=%d", key, k)
			}
			for i := range segs {
				if segs[i].end != bs[i].end {
					return fmt.Sprintf("%s: segment %d moves with EastAsianAmbiguousWidth=%d", key, i, k)
				}
				hasW := strings.HasPrefix(key, "fg") || strings.HasPrefix(key, "st")
				if !hasW {
					if segs[i].extra != bs[i].extra || segs[i].state != bs[i].state {
						return fmt.Sprintf("%s: flags/state of segment %d change with EastAsianAmbiguousWidth=%d", key, i, k)
					}
					continue
				}
				if segs[i].state != bs[i].state {
					return fmt.Sprintf("%s: state after segment %d changes with EastAsianAmbiguousWidth=%d", key, i, k)
				}
				kd := key[:2]
				if kd == "st" && segs[i].extra&(u.MaskLine|u.MaskWord|u.MaskSentence) != bs[i].extra&(u.MaskLine|u.MaskWord|u.MaskSentence) {
					return fmt.Sprintf("%s: boundary bits of cluster %d change with EastAsianAmbiguousWidth=%d", key, i, k)
				}
				w1, w2, wk := width(kd, bs[i]), width(kd, ts[i]), width(kd, segs[i])
				cnt := w2 - w1
				if cnt < 0 || cnt > nA {
					return fmt.Sprintf("%s: cluster %d: width grows by %d from k=1 to k=2 but the text has %d Ambiguous code points", key, i, cnt, nA)
				}
				if wk != w1+(k-1)*cnt {
					return fmt.Sprintf("%s: cluster %d: width %d under k=%d, expected %d + (%d-1)*%d", key, i, wk, k, w1, k, cnt)
				}
			}
		}
		if sn.sw != base.sw+(k-1)*(two.sw-base.sw) {
			return fmt.Sprintf("StringWidth %d under k=%d is not affine (k=1: %d, k=2: %d)", sn.sw, k, base.sw, two.sw)
		}
	}
	// restoring the default restores all results
	again, e := take(1)
	if e != "" {
		return e
	}
	if fmt.Sprint(again) != fmt.Sprint(base) {
		return "results under the restored default differ from the original ones"
	}
	return ""
}
