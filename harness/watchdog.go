package main

import (
	"encoding/json"
	"fmt"
	"os"
	"sync"
	"time"
)

// A library call that does not return (e.g. a look-ahead loop that stops advancing) cannot be
// interrupted from inside the process; the watchdog notices it, records the input and ends the
// process with exit code 5 so that the check can report it (C05/C10: "never loops").
var wd struct {
	sync.Mutex
	active bool
	start  time.Time
	input  []byte
	what   string
	out    string
}

func enter(b []byte, what string) {
	wd.Lock()
	wd.active, wd.start, wd.input, wd.what = true, time.Now(), b, what
	wd.Unlock()
}

func leave() {
	wd.Lock()
	wd.active = false
	wd.Unlock()
}

func startWatchdog(out string, limit time.Duration) {
	wd.out = out
	go func() {
		for {
			time.Sleep(200 * time.Millisecond)
			wd.Lock()
			if wd.active && time.Since(wd.start) > limit {
				rec := map[string]interface{}{"hang": true, "input_hex": hx(wd.input), "input_go_quoted": fmt.Sprintf("%+q", string(wd.input)), "what": wd.what,
					"detail": fmt.Sprintf("%s did not return within %v on %+q", wd.what, limit, string(wd.input))}
				js, _ := json.MarshalIndent(rec, "", " ")
				if wd.out != "" {
					os.WriteFile(wd.out+".hang", js, 0o644)
				}
				fmt.Fprintln(os.Stderr, string(js))
				os.Exit(5)
			}
			wd.Unlock()
		}
	}()
}
