package main

import (
	"bufio"
	"fmt"
	"os"
	"sort"
	"strings"

	u "github.com/rivo/uniseg"
)

// The reference classification is stored by constant NAME (prALetter, gcMn, ...), so a consistent
// renumbering of the constants in /repo does not disturb it.

func namesByPrefix(prefix string) map[int]string {
	m := map[int]string{}
	var keys []string
	for k := range consts {
		if strings.HasPrefix(k, prefix) {
			keys = append(keys, k)
		}
	}
	sort.Strings(keys)
	for _, k := range keys {
		v := int(consts[k])
		if _, ok := m[v]; !ok || k == "prXX" {
			m[v] = k
		}
	}
	return m
}

type refFn struct {
	key  string // same keys as stage E2
	file string
	f    func(r rune) string
}

func refFns() []refFn {
	pr := namesByPrefix("pr")
	gc := namesByPrefix("gc")
	name := func(m map[int]string, v int) string {
		if n, ok := m[v]; ok {
			return n
		}
		return fmt.Sprintf("?%d", v)
	}
	gcB := func(g int) string {
		// only as far as the code looks at the general category
		switch name(gc, g) {
		case "gcMn", "gcMc", "gcCn":
			return name(gc, g)
		}
		return "gcOther"
	}
	other := func(n string) string {
		// prXX (table miss) and prAny (ASCII fast path) both mean "Other"
		if n == "prAny" {
			return "prXX"
		}
		return n
	}
	return []refFn{
		{"g", "grapheme_cluster_break_and_extpict.rle", func(r rune) string { return other(name(pr, u.VerifPropertyGraphemes(r))) }},
		{"w", "word_break_and_extpict.rle", func(r rune) string { p, _ := u.VerifProperty(1, r); return name(pr, p) }},
		{"s", "sentence_break.rle", func(r rune) string { p, _ := u.VerifProperty(2, r); return name(pr, p) }},
		{"l", "line_break_and_gc.rle", func(r rune) string { p, g := u.VerifPropertyLineBreak(r); return name(pr, p) + "," + gcB(g) }},
		{"e", "east_asian_width.rle", func(r rune) string {
			n := name(pr, u.VerifPropertyEastAsianWidth(r))
			if n == "prXX" {
				n = "prN" // not listed = Neutral
			}
			return n
		}},
		{"m", "emoji_presentation.rle", func(r rune) string { p, _ := u.VerifProperty(5, r); return name(pr, p) }},
	}
}

func rle(f func(r rune) string) []string {
	var out []string
	lo, cur := 0, f(0)
	for r := rune(1); r <= 0x10FFFF; r++ {
		v := f(r)
		if v != cur {
			out = append(out, fmt.Sprintf("%04X %04X %s", lo, r-1, cur))
			lo, cur = int(r), v
		}
	}
	return append(out, fmt.Sprintf("%04X %04X %s", lo, 0x10FFFF, cur))
}

func dumpReference(dir string) {
	os.MkdirAll(dir, 0o755)
	for _, rf := range refFns() {
		lines := rle(rf.f)
		if err := os.WriteFile(dir+"/"+rf.file, []byte(strings.Join(lines, "\n")+"\n"), 0o644); err != nil {
			fatal("%v", err)
		}
		fmt.Printf("%s: %d ranges\n", rf.file, len(lines))
	}
}

// stageRef: the classification the running code gives every code point vs the committed reference
func stageRef(dir string, sel map[string]bool) stageResult {
	s := stageResult{Name: "REF", Exhaustive: true, Domain: "all 1,114,112 code points: Grapheme_Cluster_Break(+Extended_Pictographic), Word_Break(+ExtPict), Sentence_Break, Line_Break with General_Category in {Mn,Mc,Cn,other}, East_Asian_Width, Emoji_Presentation as the running code classifies them vs the committed Unicode 15.0.0 reference (/verif/refdata)"}
	for _, rf := range refFns() {
		if !sel[rf.key] {
			continue
		}
		f, err := os.Open(dir + "/" + rf.file)
		if err != nil {
			fatal("reference data: %v", err)
		}
		var want []string
		sc := bufio.NewScanner(f)
		for sc.Scan() {
			if t := strings.TrimSpace(sc.Text()); t != "" && !strings.HasPrefix(t, "#") {
				want = append(want, t)
			}
		}
		f.Close()
		got := rle(rf.f)
		s.Evaluations += 0x110000
		if strings.Join(got, "\n") != strings.Join(want, "\n") {
			// first differing code point
			gi, wi := expand(got), expand(want)
			for r := 0; r <= 0x10FFFF; r++ {
				if gi(r) != wi(r) {
					var b []byte
					b = appendRune(b, rune(r))
					s.add("ref "+rf.key+" "+hx(b), gi(r), wi(r), fmt.Sprintf("U+%04X is classified %s, Unicode 15.0.0 says %s (%s)", r, gi(r), wi(r), rf.file))
					break
				}
			}
		}
		s.Samples = append(s.Samples, rf.file+": "+got[len(got)/3])
	}
	return s
}

func expand(lines []string) func(int) string {
	type rg struct {
		lo, hi int
		v      string
	}
	var rs []rg
	for _, l := range lines {
		var lo, hi int
		var v string
		fmt.Sscanf(l, "%X %X %s", &lo, &hi, &v)
		rs = append(rs, rg{lo, hi, v})
	}
	return func(r int) string {
		i := sort.Search(len(rs), func(i int) bool { return rs[i].hi >= r })
		if i < len(rs) && rs[i].lo <= r {
			return rs[i].v
		}
		return "(none)"
	}
}
