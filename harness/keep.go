package main

import u "github.com/rivo/uniseg"

// Function values force an out-of-line copy of every API function into the binary, so that the
// call graph extracted with `go tool objdump` (C17) has a node for each of them even when the
// compiler inlines them at the harness's own call sites.
var apiFuncs = []interface{}{
	u.FirstGraphemeCluster, u.FirstGraphemeClusterInString, u.FirstWord, u.FirstWordInString,
	u.FirstSentence, u.FirstSentenceInString, u.FirstLineSegment, u.FirstLineSegmentInString,
	u.Step, u.StepString, u.StringWidth, u.GraphemeClusterCount, u.ReverseString,
	u.HasTrailingLineBreak, u.HasTrailingLineBreakInString, u.NewGraphemes,
}
