module verif/harness

go 1.21

require github.com/rivo/uniseg v0.0.0

replace github.com/rivo/uniseg => /repo
