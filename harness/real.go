package main

import (
	"bufio"
	"encoding/hex"
	"fmt"
	"io"
	"os/exec"
	"strconv"
	"strings"
	"sync"

	u "github.com/rivo/uniseg"
)

func hx(b []byte) string {
	if len(b) == 0 {
		return "-"
	}
	return hex.EncodeToString(b)
}

func b2i(b bool) int {
	if b {
		return 1
	}
	return 0
}

// protect runs f and converts a panic into a result string, so that a crash in the library is
// reported for the input that caused it instead of killing the harness.
func protect(f func() string) (res string) {
	defer func() {
		if e := recover(); e != nil {
			res = fmt.Sprintf("PANIC:%v", e)
		}
	}()
	return f()
}

// The byte-slice entry points are called on a REUSED buffer: every input is copied to the end of one
// arena, so that inputs of the same length occupy the same memory one after the other, as a caller that
// refills a buffer would have it. Anything the package remembers about a slice by its address and length
// instead of its contents is then stale at once. (Sequential stages only; off in the stress run.)
var (
	useArena bool
	arena    = make([]byte, 1<<16)
)

func viaArena(b []byte) []byte {
	if !useArena || len(b) == 0 || len(b) > len(arena) {
		return b
	}
	dst := arena[len(arena)-len(b):]
	copy(dst, b)
	return dst[:len(b):len(b)]
}

// oneCall makes one First*/Step call on rest (byte form, or string form when str) and returns the segment
// length, the segment's entry in the canonical chain format and the new state.
func oneCall(kind string, str bool, rest []byte, st int) (int, string, int) {
	if !str {
		switch kind {
		case "fg":
			seg, _, w, ns := u.FirstGraphemeCluster(rest, st)
			return len(seg), fmt.Sprintf("%d:%d:%d", len(seg), w, ns), ns
		case "fw":
			seg, _, ns := u.FirstWord(rest, st)
			return len(seg), fmt.Sprintf("%d:%d", len(seg), ns), ns
		case "fs":
			seg, _, ns := u.FirstSentence(rest, st)
			return len(seg), fmt.Sprintf("%d:%d", len(seg), ns), ns
		case "fl":
			seg, _, mb, ns := u.FirstLineSegment(rest, st)
			return len(seg), fmt.Sprintf("%d:%d:%d", len(seg), b2i(mb), ns), ns
		default:
			seg, _, bd, ns := u.Step(rest, st)
			return len(seg), fmt.Sprintf("%d:%d:%d", len(seg), bd, ns), ns
		}
	}
	rs := string(rest)
	switch kind {
	case "fg":
		seg, _, w, ns := u.FirstGraphemeClusterInString(rs, st)
		return len(seg), fmt.Sprintf("%d:%d:%d", len(seg), w, ns), ns
	case "fw":
		seg, _, ns := u.FirstWordInString(rs, st)
		return len(seg), fmt.Sprintf("%d:%d", len(seg), ns), ns
	case "fs":
		seg, _, ns := u.FirstSentenceInString(rs, st)
		return len(seg), fmt.Sprintf("%d:%d", len(seg), ns), ns
	case "fl":
		seg, _, mb, ns := u.FirstLineSegmentInString(rs, st)
		return len(seg), fmt.Sprintf("%d:%d:%d", len(seg), b2i(mb), ns), ns
	default:
		seg, _, bd, ns := u.StepString(rs, st)
		return len(seg), fmt.Sprintf("%d:%d:%d", len(seg), bd, ns), ns
	}
}

// realChainInterleaved: the chain over b, with one call of the same entry point on another text (its own
// rest and state, starting over when it is used up) between any two calls: two texts "in flight" at once,
// as two iterators advanced alternately are. The result must be realChain(kind, b, str).
func realChainInterleaved(kind string, b, other []byte, str bool) string {
	enter(b, kindName[map[string]string{"fg": "fg", "fw": "fw", "fs": "fs", "fl": "fl", "st": "st", "sts": "st"}[kind]]+" chain, interleaved with another text")
	defer leave()
	return protect(func() string {
		var parts []string
		rest, st := b, -1
		orest, ost := other, -1
		for len(rest) > 0 {
			if len(parts) > len(b)+1 {
				return "LOOP"
			}
			if len(orest) == 0 {
				orest, ost = other, -1
			}
			if len(orest) > 0 {
				n, _, ns := oneCall(kind, str, orest, ost)
				if n <= 0 || n > len(orest) {
					orest = nil
				} else {
					orest, ost = orest[n:], ns
				}
			}
			n, part, ns := oneCall(kind, str, rest, st)
			parts = append(parts, part)
			if n <= 0 || n > len(rest) {
				parts = append(parts, "STUCK")
				break
			}
			rest, st = rest[n:], ns
		}
		return strings.Join(parts, " ")
	})
}

// realChain: all segments from state -1, in the protocol's canonical format. str selects the
// string-typed twin.
func realChain(kind string, b []byte, str bool) string {
	enter(b, kindName[map[string]string{"fg": "fg", "fw": "fw", "fs": "fs", "fl": "fl", "st": "st", "sts": "st"}[kind]]+" chain")
	defer leave()
	return protect(func() string {
		var parts []string
		st := -1
		if !str {
			rest := viaArena(b)
			for len(rest) > 0 {
				if len(parts) > len(b)+1 {
					return "LOOP"
				}
				var seg []byte
				switch kind {
				case "fg":
					var w int
					seg, rest, w, st = u.FirstGraphemeCluster(rest, st)
					parts = append(parts, fmt.Sprintf("%d:%d:%d", len(seg), w, st))
				case "fw":
					seg, rest, st = u.FirstWord(rest, st)
					parts = append(parts, fmt.Sprintf("%d:%d", len(seg), st))
				case "fs":
					seg, rest, st = u.FirstSentence(rest, st)
					parts = append(parts, fmt.Sprintf("%d:%d", len(seg), st))
				case "fl":
					var mb bool
					seg, rest, mb, st = u.FirstLineSegment(rest, st)
					parts = append(parts, fmt.Sprintf("%d:%d:%d", len(seg), b2i(mb), st))
				default:
					var bd int
					seg, rest, bd, st = u.Step(rest, st)
					parts = append(parts, fmt.Sprintf("%d:%d:%d", len(seg), bd, st))
				}
				if len(seg) == 0 {
					parts = append(parts, "STUCK")
					break
				}
			}
		} else {
			rest := string(b)
			for len(rest) > 0 {
				if len(parts) > len(b)+1 {
					return "LOOP"
				}
				var seg string
				switch kind {
				case "fg":
					var w int
					seg, rest, w, st = u.FirstGraphemeClusterInString(rest, st)
					parts = append(parts, fmt.Sprintf("%d:%d:%d", len(seg), w, st))
				case "fw":
					seg, rest, st = u.FirstWordInString(rest, st)
					parts = append(parts, fmt.Sprintf("%d:%d", len(seg), st))
				case "fs":
					seg, rest, st = u.FirstSentenceInString(rest, st)
					parts = append(parts, fmt.Sprintf("%d:%d", len(seg), st))
				case "fl":
					var mb bool
					seg, rest, mb, st = u.FirstLineSegmentInString(rest, st)
					parts = append(parts, fmt.Sprintf("%d:%d:%d", len(seg), b2i(mb), st))
				default:
					var bd int
					seg, rest, bd, st = u.StepString(rest, st)
					parts = append(parts, fmt.Sprintf("%d:%d:%d", len(seg), bd, st))
				}
				if len(seg) == 0 {
					parts = append(parts, "STUCK")
					break
				}
			}
		}
		return strings.Join(parts, " ")
	})
}

func realIter(b []byte, ops string) string {
	enter(b, "Graphemes iterator ops "+ops)
	defer leave()
	return protect(func() string {
		g := u.NewGraphemes(string(b))
		var out []string
		for _, op := range ops {
			switch op {
			case 'N':
				out = append(out, fmt.Sprintf("N%d", b2i(g.Next())))
			case 'R':
				g.Reset()
				out = append(out, "R")
			case 'S':
				out = append(out, "S"+hx([]byte(g.Str())))
			case 'U':
				rs := g.Runes()
				if rs == nil {
					out = append(out, "Unil")
				} else {
					var xs []string
					for _, r := range rs {
						xs = append(xs, strconv.Itoa(int(r)))
					}
					out = append(out, "U"+strings.Join(xs, ","))
				}
			case 'B':
				bs := g.Bytes()
				if bs == nil {
					out = append(out, "Bnil")
				} else {
					out = append(out, "B"+hx(bs))
				}
			case 'P':
				f, t := g.Positions()
				out = append(out, fmt.Sprintf("P%d,%d", f, t))
			case 'W':
				out = append(out, fmt.Sprintf("W%d", b2i(g.IsWordBoundary())))
			case 'E':
				out = append(out, fmt.Sprintf("E%d", b2i(g.IsSentenceBoundary())))
			case 'L':
				out = append(out, fmt.Sprintf("L%d", g.LineBreak()))
			case 'D':
				out = append(out, fmt.Sprintf("D%d", g.Width()))
			default:
				out = append(out, "?")
			}
		}
		return strings.Join(out, " ")
	})
}

// ---------------------------------------------------------------------------
// the Lean driver as a co-process

type driver struct {
	path string
	cmd  *exec.Cmd
	in   *bufio.Writer
	inc  io.WriteCloser
	out  *bufio.Reader
}

func startDriver(path string) *driver {
	d := &driver{path: path}
	d.cmd = exec.Command(path)
	var err error
	d.inc, err = d.cmd.StdinPipe()
	if err != nil {
		fatal("driver: %v", err)
	}
	so, err := d.cmd.StdoutPipe()
	if err != nil {
		fatal("driver: %v", err)
	}
	d.in = bufio.NewWriterSize(d.inc, 1<<20)
	d.out = bufio.NewReaderSize(so, 1<<20)
	if err := d.cmd.Start(); err != nil {
		fatal("driver: %v", err)
	}
	return d
}

func (d *driver) close() {
	d.in.Flush()
	d.inc.Close()
	d.cmd.Wait()
}

// run sends all lines (pipelined) and returns one output line per input line.
func (d *driver) run(lines []string) []string {
	res := make([]string, 0, len(lines))
	done := make(chan struct{})
	go func() {
		for _, l := range lines {
			d.in.WriteString(l)
			d.in.WriteByte('\n')
		}
		d.in.WriteString("sync\n")
		d.in.Flush()
		close(done)
	}()
	for range lines {
		s, err := d.out.ReadString('\n')
		if err != nil {
			fatal("driver died after %d of %d lines: %v", len(res), len(lines), err)
		}
		res = append(res, strings.TrimRight(s, "\n"))
	}
	if s, err := d.out.ReadString('\n'); err != nil || strings.TrimSpace(s) != "sync" {
		fatal("driver out of sync: %q %v", s, err)
	}
	<-done
	return res
}

// runParallel: like run, but large batches are split over several fresh driver processes
func (d *driver) runParallel(lines []string) []string {
	const procs = 12
	if len(lines) < 24000 {
		return d.run(lines)
	}
	res := make([]string, len(lines))
	chunk := (len(lines) + procs - 1) / procs
	var wg sync.WaitGroup
	for p := 0; p < procs; p++ {
		lo, hi := p*chunk, (p+1)*chunk
		if lo >= len(lines) {
			break
		}
		if hi > len(lines) {
			hi = len(lines)
		}
		wg.Add(1)
		go func(lo, hi int) {
			defer wg.Done()
			dd := startDriver(d.path)
			out := dd.run(lines[lo:hi])
			dd.close()
			copy(res[lo:hi], out)
		}(lo, hi)
	}
	wg.Wait()
	return res
}

func (d *driver) ask(line string) string { return d.run([]string{line})[0] }

// dump runs a fresh driver on one multi-line-output op and returns all output lines.
func driverDump(path, op string) []string {
	cmd := exec.Command(path)
	cmd.Stdin = strings.NewReader(op + "\n")
	out, err := cmd.Output()
	if err != nil {
		fatal("driver dump %q: %v", op, err)
	}
	s := strings.TrimRight(string(out), "\n")
	if s == "" {
		return nil
	}
	return strings.Split(s, "\n")
}
