package main

import (
	"encoding/hex"
	"encoding/json"
	"flag"
	"fmt"
	"os"
	"strings"
	"time"
	"unicode/utf8"

	u "github.com/rivo/uniseg"
)

type failure struct {
	Property string `json:"property"`
	Check    string `json:"check"`
	InputHex string `json:"input_hex"`
	Quoted   string `json:"input_go_quoted"`
	Ops      string `json:"ops,omitempty"`
	Detail   string `json:"detail"`
	Index    int    `json:"case_index"`
	Kind     string `json:"case_kind"`
}

type monitorResult struct {
	Property     string    `json:"property"`
	Evaluations  int       `json:"evaluations"`
	FailureCount int       `json:"failure_count"`
	Failures     []failure `json:"failures"`
	Samples      []string  `json:"samples"`
}

type result struct {
	Seed         uint64          `json:"seed"`
	Tier         string          `json:"tier"`
	Amb          int             `json:"amb"`
	Stages       []stageResult   `json:"stages"`
	Monitors     []monitorResult `json:"monitors"`
	Distribution *dist           `json:"distribution"`
	Signatures   int             `json:"class_signatures"`
	WallS        float64         `json:"wall_s"`
}

// shrink: greedily delete decoded runes while the predicate still fails
func shrink(b []byte, fails func([]byte) bool) []byte {
	cur := append([]byte(nil), b...)
	deadline := time.Now().Add(8 * time.Second)
	// delta debugging: remove chunks (cut at rune starts) of half the input, a quarter, ... down to a few
	// bytes; then single code points until nothing can be removed. Bounded in time: a failing input that
	// is long by necessity (an offset beyond 2^16) stays long.
	for chunk := len(cur) / 2; chunk >= 4; chunk /= 2 {
		for i := 0; i < len(cur); {
			if time.Now().After(deadline) {
				return cur
			}
			j := i + chunk
			if j > len(cur) {
				j = len(cur)
			}
			for j < len(cur) && !utf8.RuneStart(cur[j]) {
				j++
			}
			cand := append(append([]byte(nil), cur[:i]...), cur[j:]...)
			if len(cand) > 0 && fails(cand) {
				cur = cand
			} else {
				i = j
			}
		}
	}
	for changed := true; changed; {
		changed = false
		for i := 0; i < len(cur); {
			if time.Now().After(deadline) {
				return cur
			}
			_, n := utf8.DecodeRune(cur[i:])
			cand := append(append([]byte(nil), cur[:i]...), cur[i+n:]...)
			if len(cand) > 0 && fails(cand) {
				cur = cand
				changed = true
			} else {
				i += n
			}
		}
	}
	return cur
}

// warmUp runs every public entry point once over b
func warmUp(b []byte) {
	protect(func() string {
		s := string(b)
		u.StringWidth(s)
		u.GraphemeClusterCount(s)
		u.ReverseString(s)
		u.HasTrailingLineBreak(b)
		u.HasTrailingLineBreakInString(s)
		for _, k := range []string{"fg", "fw", "fs", "fl", "st"} {
			realChain(k, b, false)
			realChain(k, b, true)
		}
		g := u.NewGraphemes(s)
		for g.Next() {
			g.Width()
		}
		return ""
	})
}

// smallScope: the small-scope exhaustive streams are on (flag -small)
var smallScope = true

// monitors that also run on every byte string of length <= 5 (thorough: 6) over byteAlphabet
var byteExhaustive = map[string]bool{"C05": true, "C06": true, "C09": true, "C10": true, "C12": true, "C14": true}

func runMonitor(prop string, m monitor, cs *caseSource, thorough bool) monitorResult {
	res := monitorResult{Property: prop, Failures: []failure{}}
	seenFail := map[string]bool{}
	handle := func(i int, gc genCase) {
		if prop == "C11" && len(gc.input) > 700 {
			return // the monitor re-segments at every reported boundary: quadratic
		}
		res.Evaluations++
		if len(res.Samples) < 3 && len(gc.input) > 0 {
			res.Samples = append(res.Samples, fmt.Sprintf("%+q", string(gc.input)))
		}
		if msg := m(gc.input); msg != "" {
			res.FailureCount++
			if len(res.Failures) < 8 {
				small := shrink(gc.input, func(x []byte) bool { return m(x) != "" })
				if seenFail[string(small)] {
					return
				}
				seenFail[string(small)] = true
				res.Failures = append(res.Failures, failure{Property: prop, Check: "monitor", InputHex: hx(small), Quoted: fmt.Sprintf("%+q", string(small)), Detail: m(small), Index: i, Kind: gc.kind})
			}
		}
	}
	cs.each(handle)
	longMax := 6000
	if prop == "C11" {
		longMax = 600 // the monitor re-segments at every reported boundary: quadratic
	}
	cs.eachLong(cs.n/400, longMax, handle)
	if prop != "C11" && prop != "C15" {
		cs.eachHuge(thorough, handle)
	}
	if byteExhaustive[prop] {
		n := 5
		if thorough {
			n = 6
		}
		byteSequences(n, func(b []byte) { handle(-3, genCase{input: b, kind: "bytes", tplIdx: -1}) })
	}
	// small scope, exhaustive (see smallAlphabet): one symbol shorter than stage E5's in the quick tier
	for _, alg := range []byte("GWSL") {
		n, nFull := smallScopeLen(alg, thorough)
		if !thorough {
			n, nFull = n-1, nFull-1
		}
		shortSequences(alg, n, nFull, func(b []byte) { handle(-1, genCase{input: b, kind: "short", tplIdx: -1}) })
	}
	return res
}

func runMonitorC13(cs *caseSource) monitorResult {
	res := monitorResult{Property: "C13", Failures: []failure{}}
	// the empty string: Next is false at once, and the accessors go from the "before" to the "after" values
	for _, ops := range []string{"PLNPLSUBWEDNNPLRPLNPL", "NPL", "RNRNPLD"} {
		res.Evaluations++
		if msg := monC13ops(nil, ops); msg != "" {
			res.FailureCount++
			res.Failures = append(res.Failures, failure{Property: "C13", Check: "monitor", InputHex: "-", Quoted: `""`, Ops: ops, Detail: msg, Index: -1, Kind: "empty"})
		}
	}
	one := func(i int, gc genCase, ops string) {
		res.Evaluations++
		if len(res.Samples) < 3 {
			res.Samples = append(res.Samples, fmt.Sprintf("%+q %s", string(gc.input), ops))
		}
		if msg := monC13ops(gc.input, ops); msg != "" {
			res.FailureCount++
			if len(res.Failures) < 8 {
				small := shrink(gc.input, func(x []byte) bool { return monC13ops(x, ops) != "" })
				res.Failures = append(res.Failures, failure{Property: "C13", Check: "monitor", InputHex: hx(small), Quoted: fmt.Sprintf("%+q", string(small)), Ops: ops, Detail: monC13ops(small, ops), Index: i, Kind: gc.kind})
			}
		}
	}
	handle := func(i int, gc genCase) {
		r := newRng(cs.seed, "C13ops", uint64(i))
		one(i, gc, genIterOps(r))
		// a complete pass with every accessor after every Next, then past the end, Reset and one more cluster
		if n := utf8.RuneCount(gc.input); n > 0 && (i%3 == 0 || len(gc.input) > 200) {
			one(i, gc, strings.Repeat("N", n+2)+"RN")
		}
	}
	cs.each(handle)
	cs.eachLong(cs.n/400, 6000, handle)
	cs.eachHuge(false, func(i int, gc genCase) {
		// one complete pass, past the end, Reset, and a second pass over the first clusters
		n := utf8.RuneCount(gc.input)
		one(i, gc, strings.Repeat("N", n+2)+"R"+strings.Repeat("N", 50))
	})
	return res
}

func algSet(s string) map[string]bool {
	m := map[string]bool{}
	for _, a := range strings.Split(s, ",") {
		m[a] = true
	}
	return m
}

func loadCorpus(dir string) [][]byte {
	var res [][]byte
	ents, err := os.ReadDir(dir)
	if err != nil {
		return nil
	}
	for _, e := range ents {
		if !strings.HasSuffix(e.Name(), ".hex") {
			continue
		}
		res = append(res, loadHexFile(dir+"/"+e.Name())...)
	}
	return res
}

func loadHexFile(path string) [][]byte {
	var res [][]byte
	{
		data, err := os.ReadFile(path)
		if err != nil {
			return nil
		}
		for _, line := range strings.Split(string(data), "\n") {
			line = strings.TrimSpace(line)
			if line == "" || strings.HasPrefix(line, "#") {
				continue
			}
			f := strings.Fields(line)[0]
			if f == "-" {
				res = append(res, nil)
				continue
			}
			b, err := hex.DecodeString(f)
			if err == nil {
				res = append(res, b)
			}
		}
	}
	return res
}

func main() {
	factsPath := flag.String("facts", "/verif/build/facts.json", "")
	driverPath := flag.String("driver", "/verif/lean/.lake/build/bin/driver", "")
	seed := flag.Uint64("seed", 1, "")
	tier := flag.String("tier", "quick", "")
	stages := flag.String("stages", "", "comma-separated: E1,E2,E3,E3b,E4,E5,E6")
	monitors := flag.String("monitors", "", "comma-separated property ids")
	n := flag.Int("n", 20000, "number of generated cases for E5 / monitors")
	n6 := flag.Int("n6", 5000, "number of generated op sequences for E6")
	amb := flag.Int("amb", 1, "value of EastAsianAmbiguousWidth for this process")
	flag.BoolVar(&smallScope, "small", true, "run the small-scope exhaustive streams (stages E5, SPEC, monitors)")
	only := flag.String("only", "", "restrict E5 to these ops (fg,fw,fs,fl,st,sts,sw,gcc,rev,htlb)")
	corpus := flag.String("corpus", "/verif/corpus", "")
	outPath := flag.String("out", "", "result JSON path (default stdout)")
	replayHex := flag.String("replay", "", "run the listed monitors on this one input (hex) and exit 1 if any fails")
	replayOps := flag.String("replay-ops", "", "iterator op sequence for a C13 replay")
	stream := flag.String("stream", "E5", "PRNG stream name")
	dumpRef := flag.String("dump-ref", "", "write the classification of every code point, by constant NAME, run-length encoded, into this directory and exit")
	refDir := flag.String("ref", "/verif/refdata", "directory with the committed Unicode 15.0.0 reference classification")
	printReps := flag.Bool("print-reps", false, "print one code point per class signature (comma separated) and exit")
	specKinds := flag.String("spec-kinds", "fg,fw,fs,fl", "segmenters for the SPEC stage")
	specStep := flag.Bool("spec-step", true, "also compare the matching Step/StepString flags with the spec")
	algs := flag.String("algs", "gr,wb,sb,lb", "restrict E1/E3 to these rule sets")
	flag.BoolVar(&allocFirst, "alloc-first", false, "ALLOC: also measure single first calls on fresh code points (search only)")
	flag.StringVar(&allocFirstInput, "alloc-first-input", "", "ALLOC: replay single first calls on this input (hex)")
	repoPath := flag.String("repo", "/repo", "path of the library source (for the official vectors in its test files)")
	e2props := flag.String("props", "g,w,s,l,e,m,G,L,E", "restrict E2 to these lookups")
	inputsFile := flag.String("inputs-file", "", "file with one hex input per line; replaces the corpus and, with -n 0, the generated stream")
	stress := flag.Int("stress", 0, "concurrency stress with this many goroutines (no other stage runs); build with -race")
	stressRounds := flag.Int("stress-rounds", 20, "")
	flag.Parse()

	if len(apiFuncs) == 0 {
		return
	}
	if *stress > 0 {
		// no library call may happen before the concurrent phase (no class scan, no generators)
		runStress(*stress, *stressRounds, *corpus, *outPath)
		return
	}

	t0 := time.Now()
	useArena = true
	loadFacts(*factsPath)
	ci = scanClasses()
	if !strings.Contains(*stages, "ALLOC") {
		// warm-up under ANOTHER value of the configuration variable: whatever the package computes lazily and
		// keeps (a width table built on first use, a memo) is then stale for the value this process runs with,
		// and the comparisons with the model and the width specification expose it. (Not before the allocation
		// stage, whose search counts the allocations of first calls.)
		other := 2
		if *amb != 1 {
			other = 1
		}
		u.EastAsianAmbiguousWidth = other
		var wb []byte
		for _, r := range ci.oneRepPerSig() {
			wb = appendRune(wb, r)
			if len(wb) > 512 {
				warmUp(wb)
				wb = wb[:0]
			}
		}
		warmUp(wb)
		for r := rune(0); r < 0x3000; r++ {
			wb = appendRune(wb[:0], r)
			u.StringWidth(string(wb))
		}
	}
	u.EastAsianAmbiguousWidth = *amb
	initGen()
	thorough := *tier == "thorough"
	if *dumpRef != "" {
		dumpReference(*dumpRef)
		return
	}
	if *printReps {
		var xs []string
		for _, r := range ci.oneRepPerSig() {
			xs = append(xs, fmt.Sprint(int(r)))
		}
		fmt.Println(strings.Join(xs, ","))
		return
	}

	mons := map[string]monitor{"C01": monC01, "C05": monC05, "C06": monC06, "C08": monC08, "C09": monC09, "C10": monC10, "C11": monC11, "C12": monC12, "C14": monC14, "C15": monC15,
		"C02": monIter("word"), "C03": monIter("sentence"), "C04": monIter("line")}

	if *replayHex != "" {
		var b []byte
		if *replayHex != "-" {
			var err error
			b, err = hex.DecodeString(*replayHex)
			if err != nil {
				fatal("bad hex: %v", err)
			}
		}
		bad := false
		for _, p := range strings.Split(*monitors, ",") {
			var msg string
			if p == "C13" {
				msg = monC13ops(b, *replayOps)
			} else if m, ok := mons[p]; ok {
				msg = m(b)
			} else {
				continue
			}
			if msg != "" {
				fmt.Printf("FAIL %s %+q: %s\n", p, string(b), msg)
				bad = true
			} else {
				fmt.Printf("ok %s %+q\n", p, string(b))
			}
		}
		if bad {
			os.Exit(1)
		}
		return
	}

	startWatchdog(*outPath, 15*time.Second)
	res := result{Seed: *seed, Tier: *tier, Amb: *amb, Distribution: newDist(), Signatures: len(ci.sigs)}
	cs := &caseSource{seed: *seed, stream: *stream, n: *n, corpus: loadCorpus(*corpus), amb: *amb}
	if *inputsFile != "" {
		cs.corpus = loadHexFile(*inputsFile)
	}
	var d *driver
	needDriver := false
	for _, s := range strings.Split(*stages, ",") {
		if s == "E3" || s == "E4" || s == "E5" || s == "E6" || s == "SPEC" || s == "WIDTHSPEC" || s == "VEC" {
			needDriver = true
		}
	}
	if needDriver {
		d = startDriver(*driverPath)
		defer d.close()
	}
	var onlyMap map[string]bool
	if *only != "" {
		onlyMap = map[string]bool{}
		for _, o := range strings.Split(*only, ",") {
			onlyMap[o] = true
		}
	}
	for _, s := range strings.Split(*stages, ",") {
		switch s {
		case "E1":
			res.Stages = append(res.Stages, stageE1(*driverPath, algSet(*algs)))
		case "E2":
			res.Stages = append(res.Stages, stageE2(*driverPath, algSet(*e2props)))
		case "E3":
			res.Stages = append(res.Stages, stageE3(d, thorough, algSet(*algs)))
		case "VEC":
			res.Stages = append(res.Stages, stageVec(d, *repoPath))
		case "E3c":
			res.Stages = append(res.Stages, stageE3c())
		case "E3b":
			res.Stages = append(res.Stages, stageE3b(thorough))
		case "E4":
			res.Stages = append(res.Stages, stageE4(d, thorough, *seed))
		case "E5":
			res.Stages = append(res.Stages, stageE5(d, cs, res.Distribution, onlyMap, thorough))
		case "E6":
			res.Stages = append(res.Stages, stageE6(d, *seed, *n6, *amb))
		case "ALLOC":
			res.Stages = append(res.Stages, stageAlloc(cs, thorough))
		case "RW":
			res.Stages = append(res.Stages, stageRW(*driverPath, *amb))
		case "WIDTHSPEC":
			res.Stages = append(res.Stages, stageWidthSpec(d, cs, thorough))
		case "REF":
			res.Stages = append(res.Stages, stageRef(*refDir, algSet(*e2props)))
		case "SPEC":
			res.Stages = append(res.Stages, stageSpec(d, cs, strings.Split(*specKinds, ","), *specStep, thorough))
		case "":
		default:
			fatal("unknown stage %q", s)
		}
	}
	for _, p := range strings.Split(*monitors, ",") {
		if p == "" {
			continue
		}
		if p == "C13" {
			res.Monitors = append(res.Monitors, runMonitorC13(cs))
			continue
		}
		m, ok := mons[p]
		if !ok {
			fatal("unknown monitor %q", p)
		}
		mr := runMonitor(p, m, cs, thorough)
		if p == "C05" {
			mr.Evaluations++
			if msg := monEmpty(); msg != "" {
				mr.FailureCount++
				mr.Failures = append(mr.Failures, failure{Property: "C05", Check: "monitor", InputHex: "-", Quoted: `""`, Detail: msg})
			}
		}
		res.Monitors = append(res.Monitors, mr)
	}
	if res.Distribution.Distinct == 0 && len(res.Monitors) > 0 {
		// distribution of the monitor stream when E5 did not run
		seen := map[string]bool{}
		cs.each(func(i int, gc genCase) { recordDist(res.Distribution, seen, gc) })
	}
	res.WallS = time.Since(t0).Seconds()
	js, _ := json.MarshalIndent(res, "", " ")
	if *outPath == "" {
		fmt.Println(string(js))
	} else if err := os.WriteFile(*outPath, js, 0o644); err != nil {
		fatal("%v", err)
	}
}
