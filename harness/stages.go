package main

import (
	"fmt"
	"sort"
	"strings"
	"unicode/utf8"

	u "github.com/rivo/uniseg"
)

type mismatch struct {
	Op    string `json:"op"`
	Real  string `json:"real"`
	Model string `json:"model"`
	Note  string `json:"note,omitempty"`
}

type stageResult struct {
	Name          string     `json:"name"`
	Evaluations   int        `json:"evaluations"`
	MismatchCount int        `json:"mismatch_count"`
	Mismatches    []mismatch `json:"mismatches"`
	Exhaustive    bool       `json:"exhaustive"`
	Domain        string     `json:"domain"`
	Samples       []string   `json:"samples,omitempty"`
	seen          map[string]bool
}

func (s *stageResult) add(op, real, model, note string) {
	s.MismatchCount++
	if s.Name == "E3" {
		// keep one mismatch per (function, state, code point): the search turns each into whole strings
		f := strings.Fields(op)
		if len(f) >= 3 {
			key := f[0] + " " + f[1] + " " + f[2]
			if s.seen == nil {
				s.seen = map[string]bool{}
			}
			if s.seen[key] || len(s.Mismatches) >= 120 {
				return
			}
			s.seen[key] = true
			s.Mismatches = append(s.Mismatches, mismatch{op, real, model, note})
			return
		}
	}
	if len(s.Mismatches) < 25 {
		s.Mismatches = append(s.Mismatches, mismatch{op, real, model, note})
	}
}

// compare runs ops through the driver and compares with the real outputs
func compareOps(s *stageResult, d *driver, ops []string, real []string) {
	model := d.runParallel(ops)
	for i := range ops {
		s.Evaluations++
		if model[i] != real[i] {
			s.add(ops[i], real[i], model[i], "")
		}
	}
	if len(ops) > 0 && len(s.Samples) < 3 {
		s.Samples = append(s.Samples, ops[0]+" => "+real[0])
	}
}

// ---------------------------------------------------------------------------
// E1: rule tables

func stageE1(driverPath string, algs map[string]bool) stageResult {
	s := stageResult{Name: "E1", Exhaustive: true, Domain: "every (state<256, prop<128) cell of grTransitions/wbTransitions/sbTransitions/lbTransitions vs Gen/Rules"}
	for _, t := range []string{"gr", "wb", "sb", "lb"} {
		if !algs[t] {
			continue
		}
		var real []string
		for st := 0; st < 256; st++ {
			for p := 0; p < 128; p++ {
				var ns, v, rule int
				switch t {
				case "gr":
					ns, v, rule = u.VerifGrTransitions(st, p)
				case "wb":
					var b bool
					ns, b, rule = u.VerifWbTransitions(st, p)
					v = b2i(b)
				case "sb":
					var b bool
					ns, b, rule = u.VerifSbTransitions(st, p)
					v = b2i(b)
				case "lb":
					ns, v, rule = u.VerifLbTransitions(st, p)
				}
				s.Evaluations++
				if ns >= 0 {
					real = append(real, fmt.Sprintf("%d %d %d %d %d", st, p, ns, v, rule))
				}
			}
		}
		model := driverDump(driverPath, "dumprules "+t)
		diffSets(&s, "dumprules "+t, real, model)
		if len(real) > 0 {
			s.Samples = append(s.Samples, t+": "+real[0])
		}
	}
	return s
}

func diffSets(s *stageResult, op string, real, model []string) {
	rm := map[string]bool{}
	for _, x := range real {
		rm[x] = true
	}
	mm := map[string]bool{}
	for _, x := range model {
		mm[x] = true
		if !rm[x] {
			s.add(op, "(absent)", x, "row only in the model")
		}
	}
	for _, x := range real {
		if !mm[x] {
			s.add(op, x, "(absent)", "row only in the code")
		}
	}
}

// ---------------------------------------------------------------------------
// E2: every code point through every lookup

func stageE2(driverPath string, sel map[string]bool) stageResult {
	s := stageResult{Name: "E2", Exhaustive: true, Domain: "all 1,114,112 code points through propertyGraphemes, property(word), property(sentence), propertyLineBreak, propertyEastAsianWidth, property(emoji) and the raw searches, run-length encoded, vs Lookup on Gen/Tables"}
	fns := map[string]func(r rune) int{
		"g": func(r rune) int { return u.VerifPropertyGraphemes(r) },
		"w": func(r rune) int { p, _ := u.VerifProperty(1, r); return p },
		"s": func(r rune) int { p, _ := u.VerifProperty(2, r); return p },
		"l": func(r rune) int { p, g := u.VerifPropertyLineBreak(r); return p*256 + g },
		"e": func(r rune) int { return u.VerifPropertyEastAsianWidth(r) },
		"m": func(r rune) int { p, _ := u.VerifProperty(5, r); return p },
		"G": func(r rune) int { p, _ := u.VerifProperty(0, r); return p },
		"L": func(r rune) int { p, g := u.VerifProperty(3, r); return p*256 + g },
		"E": func(r rune) int { p, _ := u.VerifProperty(4, r); return p },
	}
	names := []string{"g", "w", "s", "l", "e", "m", "G", "L", "E"}
	for _, n := range names {
		if !sel[n] {
			continue
		}
		f := fns[n]
		var real []string
		lo, cur := 0, f(0)
		for r := rune(1); r <= 0x10FFFF; r++ {
			v := f(r)
			if v != cur {
				real = append(real, fmt.Sprintf("%d %d %d", lo, r-1, cur))
				lo, cur = int(r), v
			}
		}
		real = append(real, fmt.Sprintf("%d %d %d", lo, 0x10FFFF, cur))
		s.Evaluations += 0x110000
		model := driverDump(driverPath, "dumpprop "+n)
		if strings.Join(real, "\n") != strings.Join(model, "\n") {
			// find first differing code point
			first := firstDiffRange(real, model)
			s.add("dumpprop "+n, first[0], first[1], "first differing range")
		}
		s.Samples = append(s.Samples, n+": "+real[len(real)/2])
		// history: the value for r must not depend on which code point was looked up just before. The sweep
		// above is ascending; here every code point at which any class changes (and its neighbours, one member
		// per signature, the named ones) is looked up right after an "aggressor": the same low 16 bits in
		// every other plane, single flipped high bits, its neighbours, a code point no table lists, the
		// extremes - what a memo keyed on a truncated or badly packed code point, or remembering a table row
		// without the table, confuses with r. Expected value: the one the ascending sweep gave.
		truth := make(map[rune]int)
		var sample []rune
		add := func(r rune) {
			if r >= 0 && r <= 0x10FFFF {
				if _, ok := truth[r]; !ok {
					truth[r] = 0
					sample = append(sample, r)
				}
			}
		}
		for _, r := range ci.bounds {
			add(r)
		}
		for _, r := range ci.allReps() {
			add(r)
		}
		for _, r := range sample {
			truth[r] = f(r)
		}
		// re-establish the ascending-sweep values for the sample from the run-length list
		{
			i := 0
			sorted := append([]rune(nil), sample...)
			sort.Slice(sorted, func(a, b int) bool { return sorted[a] < sorted[b] })
			for _, r := range sorted {
				for {
					var lo2, hi2, v2 int
					fmt.Sscanf(real[i], "%d %d %d", &lo2, &hi2, &v2)
					if int(r) <= hi2 {
						truth[r] = v2
						break
					}
					i++
				}
			}
		}
		bad := 0
		badR := map[rune]bool{}
		var hist []histMismatch
		for _, r := range sample {
			aggr := []rune{r ^ 0x100000, r ^ 0x80000, r ^ 0x40000, r ^ 0x20000, r ^ 0x10000, r ^ 0x8000, r + 1, r - 1, 0, 0x378, 0x10FFFF, r & 0xFFFF, r & 0xFFF, r & 0xFF, r | 0x100000}
			for pl := rune(0); pl <= 0x10; pl++ {
				aggr = append(aggr, pl<<16|r&0xFFFF)
			}
			for _, a := range aggr {
				if a < 0 || a > 0x10FFFF || a == r {
					continue
				}
				f(a)
				s.Evaluations++
				if v := f(r); v != truth[r] && bad < 20000 && !badR[r] {
					bad++
					badR[r] = true
					hist = append(hist, histMismatch{fmt.Sprintf("lookup %s %d after %d", n, r, a), fmt.Sprint(v), fmt.Sprint(truth[r]), fmt.Sprintf("the lookup of U+%04X depends on the previous lookup (U+%04X)", r, a)})
				}
			}
		}
		addThinned(&s, hist, 24)
	}
	return s
}

type histMismatch struct{ op, real, model, note string }

// addThinned reports at most max of the history mismatches, evenly spread over the code space (the search
// builds texts from them, and the ones that matter for a given property may be anywhere)
func addThinned(s *stageResult, hist []histMismatch, max int) {
	step := 1
	if len(hist) > max {
		step = len(hist) / max
	}
	for i := 0; i < len(hist); i += step {
		h := hist[i]
		s.add(h.op, h.real, h.model, h.note)
	}
	if n := len(hist); n > 0 {
		s.MismatchCount += n - (n+step-1)/step
	}
}

func firstDiffRange(a, b []string) [2]string {
	for i := 0; i < len(a) && i < len(b); i++ {
		if a[i] != b[i] {
			return [2]string{a[i], b[i]}
		}
	}
	if len(a) > len(b) {
		return [2]string{a[len(b)], "(end)"}
	}
	if len(b) > len(a) {
		return [2]string{"(end)", b[len(a)]}
	}
	return [2]string{"", ""}
}

// ---------------------------------------------------------------------------
// E3: one-step transitions, every state x class signature x look-ahead family

func enc(rs ...rune) []byte {
	var b []byte
	for _, r := range rs {
		b = appendRune(b, r)
	}
	return b
}

type lbSig struct {
	l, gc int
	fwh, epcn bool
}

func algReps(alg byte) []rune {
	seen := map[interface{}]bool{}
	var res []rune
	for _, sg := range ci.sigs {
		var key interface{}
		switch alg {
		case 'G':
			key = sg.g
		case 'W':
			key = [2]interface{}{sg.w, sg.g == c("prExtendedPictographic")}
		case 'S':
			key = sg.s
		case 'L':
			key = lbSig{sg.l, sg.gc, sg.ea == c("prF") || sg.ea == c("prW") || sg.ea == c("prH"), sg.g == c("prExtendedPictographic")}
		}
		if !seen[key] {
			seen[key] = true
			res = append(res, ci.reps[sg][0])
		}
	}
	res = append(res, 0xFFFD)
	return res
}

// otherSigReps: the first code point of every full class signature that algReps(alg) does not already
// contain. The key algReps uses is the model's own abstraction (e.g. "East_Asian_Width is F, W or H"
// as one bit); that the code abstracts in the same way is part of what E3 has to check, so every full
// signature gets a (smaller) share of the domain too.
func otherSigReps(alg byte) []rune {
	have := map[rune]bool{}
	for _, r := range algReps(alg) {
		have[r] = true
	}
	var res []rune
	for _, sg := range ci.sigs {
		if r := ci.reps[sg][0]; !have[r] {
			have[r] = true
			res = append(res, r)
		}
	}
	return res
}

// smallRestFamily: the rests used for otherSigReps
func smallRestFamily(alg byte) [][]byte {
	switch alg {
	case 'W':
		return [][]byte{nil, enc(firstRep('W', c("prALetter"))), enc(firstRep('W', c("prNumeric"))), enc(firstRep('W', c("prHebrewLetter")))}
	case 'S':
		return [][]byte{nil, enc(firstRep('S', c("prLower"))), enc(firstRep('S', c("prXX")), firstRep('S', c("prLower"))), enc(firstRep('S', c("prUpper")))}
	}
	return [][]byte{nil, enc(firstRep('L', c("prNU"))), enc(firstRep('L', c("prCM")), firstRep('L', c("prNU"))), enc(firstRep('L', c("prAL")))}
}

func firstRep(alg byte, class int) rune {
	rs := repsFor(alg, class)
	if len(rs) == 0 {
		fatal("no code point of class %d for %c", class, alg)
	}
	return rs[0]
}

func restFamily(alg byte, thorough bool) [][]byte {
	bad := [][]byte{{0x80}, {0xc2}, {0xe2, 0x82}, {0xff}, {0xed, 0xa0, 0x80}}
	var res [][]byte
	res = append(res, nil)
	add := func(chunks ...[]byte) {
		var b []byte
		for _, ch := range chunks {
			b = append(b, ch...)
		}
		res = append(res, b)
	}
	switch alg {
	case 'W':
		reps := algReps('W')
		ign := []rune{firstRep('W', c("prExtend")), firstRep('W', c("prFormat")), firstRep('W', c("prZWJ"))}
		key := []rune{firstRep('W', c("prALetter")), firstRep('W', c("prHebrewLetter")), firstRep('W', c("prNumeric")), firstRep('W', c("prXX")), firstRep('W', c("prKatakana"))}
		for _, r := range reps {
			add(enc(r))
		}
		for _, i := range ign {
			for _, k := range key {
				add(enc(i, k))
				add(enc(i, i, k))
				add(enc(i, ign[0], ign[1], k))
				add(enc(i), []byte{0xEF, 0xBF, 0xBD}, enc(k))
				add(enc(i), bad[0], enc(k))
			}
			add(enc(i))
			add(enc(i, i))
		}
		for _, k := range key {
			add([]byte{0xEF, 0xBF, 0xBD}, enc(k))
			for _, bd := range bad {
				add(bd, enc(k))
			}
			// long runs of ignorable code points before the deciding one (look-ahead distance is unbounded)
			for _, n := range []int{7, 8, 9, 16, 33, 64, 257} {
				var run []rune
				for i := 0; i < n; i++ {
					run = append(run, ign[i%3])
				}
				add(enc(run...), enc(k))
			}
		}
	case 'S':
		reps := algReps('S')
		skip := []rune{firstRep('S', c("prXX")), firstRep('S', c("prNumeric")), firstRep('S', c("prClose")), firstRep('S', c("prSp")),
			firstRep('S', c("prSContinue")), firstRep('S', c("prExtend")), firstRep('S', c("prFormat"))}
		for _, r := range reps {
			add(enc(r))
			for _, o := range skip {
				add(enc(o, r))
			}
			add(enc(skip[0], skip[0], r))
			add(enc(skip[3], skip[2], r))
			add(enc(skip[5], skip[0], skip[6], r))
			add([]byte{0xEF, 0xBF, 0xBD}, enc(r))
			add(enc(skip[0]), []byte{0xEF, 0xBF, 0xBD}, enc(r))
			for _, bd := range bad[:3] {
				add(bd, enc(r))
				add(enc(skip[3]), bd, enc(r))
			}
			for _, n := range []int{7, 8, 9, 16, 33, 64, 257} {
				var run []rune
				for i := 0; i < n; i++ {
					run = append(run, skip[i%len(skip)])
				}
				add(enc(run...), enc(r))
			}
		}
	case 'L':
		nu := firstRep('L', c("prNU"))
		al := firstRep('L', c("prAL"))
		cm := firstRep('L', c("prCM"))
		zwj := firstRep('L', c("prZWJ"))
		op := firstRep('L', c("prOP"))
		add(enc(nu))
		add(enc('7'))
		add(enc(al))
		add(enc(op))
		add(enc(cm, nu))
		add(enc(zwj, nu))
		add(enc(cm, cm, nu))
		add(enc(cm, zwj, nu))
		add(enc(cm, al))
		add(enc(0x0E31, nu)) // SA with gc Mn, resolved to CM
		add(enc(0x0E01, nu)) // SA resolved to AL
		add([]byte{0xEF, 0xBF, 0xBD}, enc(nu))
		add([]byte{0xEF, 0xBF, 0xBD})
		for _, bd := range bad {
			add(bd, enc(nu))
		}
		add(enc(cm), bad[0], enc(nu))
		for _, n := range []int{7, 8, 9, 16, 33, 64, 257} {
			var run []rune
			for i := 0; i < n; i++ {
				if i%3 == 2 {
					run = append(run, zwj)
				} else {
					run = append(run, cm)
				}
			}
			add(enc(run...), enc(nu))
			add(enc(run...), enc(al))
		}
		// what the LB25 look-ahead skips is decided by (Line_Break, General_Category): one code point of every
		// such pair of the current tables in the skipped position, a digit behind it
		seenLG := map[[2]int]bool{}
		for _, sg := range ci.sigs {
			k := [2]int{sg.l, sg.gc}
			if !seenLG[k] {
				seenLG[k] = true
				add(enc(ci.reps[sg][0], nu))
			}
		}
		if thorough {
			for _, r := range algReps('L') {
				add(enc(r))
				add(enc(cm, r))
			}
		}
	}
	return res
}

func stageE3(d *driver, thorough bool, algSel map[string]bool) stageResult {
	s := stageResult{Name: "E3", Exhaustive: true, Domain: "transition*State: every state value the packing allows (-1, 0..15 / 0..31 / 0..15 / 0..255) x one code point per letter of the model x a family of rests covering every look-ahead outcome (empty, each class, ignorable runs of 1-3 and 7-257 code points, U+FFFD, ill-formed bytes), and x one code point per FULL class signature x a small family of rests; byte and string form, vs Impl.transition*"}
	var ops, real []string
	flush := func() {
		if len(ops) > 0 {
			compareOps(&s, d, ops, real)
			ops, real = ops[:0], real[:0]
		}
	}
	emit := func(op, r string) {
		ops = append(ops, op)
		real = append(real, r)
		if len(ops) >= 50000 {
			flush()
		}
	}
	// graphemes
	for st := -1; st <= 15 && algSel["gr"]; st++ {
		for _, r := range append(algReps('G'), otherSigReps('G')...) {
			ns, p, b := u.VerifTransitionGrapheme(st, r)
			emit(fmt.Sprintf("tg %d %d", st, r), fmt.Sprintf("%d %d %d", ns, p, b2i(b)))
		}
	}
	type trf func(st int, r rune, b []byte, str string) string
	algs := []struct {
		alg    byte
		op     string
		maxSt  int
		f      trf
	}{
		{'W', "tw", 31, func(st int, r rune, b []byte, str string) string {
			ns, br := u.VerifTransitionWord(st, r, b, str)
			return fmt.Sprintf("%d %d", ns, b2i(br))
		}},
		{'S', "ts", 15, func(st int, r rune, b []byte, str string) string {
			ns, br := u.VerifTransitionSentence(st, r, b, str)
			return fmt.Sprintf("%d %d", ns, b2i(br))
		}},
		{'L', "tl", 255, func(st int, r rune, b []byte, str string) string {
			ns, br := u.VerifTransitionLine(st, r, b, str)
			return fmt.Sprintf("%d %d", ns, br)
		}},
	}
	for _, a := range algs {
		if !algSel[map[byte]string{'W': "wb", 'S': "sb", 'L': "lb"}[a.alg]] {
			continue
		}
		rests := restFamily(a.alg, thorough)
		reps := algReps(a.alg)
		nMain := len(reps)
		reps = append(reps, otherSigReps(a.alg)...)
		small := smallRestFamily(a.alg)
		for st := -1; st <= a.maxSt; st++ {
			for ri, r := range reps {
				rs := rests
				if ri >= nMain {
					rs = small
				}
				for _, rest := range rs {
					op := fmt.Sprintf("%s %d %d %s", a.op, st, r, hx(rest))
					// byte form: a non-nil (possibly empty) slice, as the loops pass it
					rb := rest
					if rb == nil {
						rb = []byte{}
					}
					enter(append(enc(r), rest...), "transition function "+a.op+fmt.Sprintf(" from state %d", st))
					resB := protect(func() string { return a.f(st, r, rb, "") })
					resS := protect(func() string { return a.f(st, r, nil, string(rest)) })
					leave()
					emit(op, resB)
					if resS != resB {
						s.add(op, resB, resS, "byte form vs string form of the real transition differ")
					}
				}
			}
		}
	}
	flush()
	return s
}

// ---------------------------------------------------------------------------
// E3b: signature independence (Go vs Go): the real transition / width on r equals the one on
// the representative of sig(r)

func stageE3b(thorough bool) stageResult {
	// the full sweep takes about 4 s on 16 cores, so both tiers run it on all code points
	thorough = true
	s := stageResult{Name: "E3b", Exhaustive: thorough, Domain: "real transition*State (every state value) and runeWidth on every code point vs on the first code point with the same class signature"}
	var cps []rune
	if thorough {
		for r := rune(0); r <= 0x10FFFF; r++ {
			if !isSurrogate(r) {
				cps = append(cps, r)
			}
		}
	} else {
		cps = append(cps, ci.bounds...)
		cps = append(cps, ci.named...)
	}
	nu := enc(firstRep('L', c("prNU")))
	lower := enc(firstRep('S', c("prXX")), firstRep('S', c("prLower")))
	letter := enc(firstRep('W', c("prALetter")))
	lbStates := []int{-1}
	for st := 0; st < 64; st++ {
		lbStates = append(lbStates, st)
	}
	lbStates = append(lbStates, c("lbCP")|c("lbCPeaFWHBit"), c("lbNUCP")|c("lbCPeaFWHBit"), c("lbAL")|c("lbZWJBit"), c("lbEB")|c("lbZWJBit"))
	type job struct{ lo, hi int }
	nw := 16
	results := make([]stageResult, nw)
	done := make(chan int)
	for w := 0; w < nw; w++ {
		go func(w int) {
			res := &results[w]
			for i := w; i < len(cps); i += nw {
				r := cps[i]
				rs := ci.reps[sigOf(r)]
				if len(rs) == 0 {
					// the lookups give r a class signature no code point had during the class scan: they depend on history
					res.add(fmt.Sprintf("sig %d", r), "a class signature unknown to the class scan", "the signature found by the class scan", fmt.Sprintf("the lookups of U+%04X changed since the class scan (they depend on earlier calls)", r))
					continue
				}
				rep := rs[0]
				if rep == r {
					continue
				}
				for st := -1; st <= 15; st++ {
					a1, a2, a3 := u.VerifTransitionGrapheme(st, r)
					b1, b2, b3 := u.VerifTransitionGrapheme(st, rep)
					res.Evaluations++
					if a1 != b1 || a2 != b2 || a3 != b3 {
						res.add(fmt.Sprintf("tg %d %d", st, r), fmt.Sprint(a1, a2, a3), fmt.Sprint(b1, b2, b3), fmt.Sprintf("representative %d", rep))
					}
					if st >= 0 {
						if x, y := u.VerifRuneWidth(r, st), u.VerifRuneWidth(rep, st); x != y {
							res.add(fmt.Sprintf("rw 1 %d %d", r, st), fmt.Sprint(x), fmt.Sprint(y), fmt.Sprintf("representative %d", rep))
						}
					}
				}
				for st := -1; st <= 31; st++ {
					for _, rest := range [][]byte{{}, letter} {
						a1, a2 := u.VerifTransitionWord(st, r, rest, "")
						b1, b2 := u.VerifTransitionWord(st, rep, rest, "")
						res.Evaluations++
						if a1 != b1 || a2 != b2 {
							res.add(fmt.Sprintf("tw %d %d %s", st, r, hx(rest)), fmt.Sprint(a1, a2), fmt.Sprint(b1, b2), fmt.Sprintf("representative %d", rep))
						}
					}
				}
				for st := -1; st <= 15; st++ {
					for _, rest := range [][]byte{{}, lower} {
						a1, a2 := u.VerifTransitionSentence(st, r, rest, "")
						b1, b2 := u.VerifTransitionSentence(st, rep, rest, "")
						res.Evaluations++
						if a1 != b1 || a2 != b2 {
							res.add(fmt.Sprintf("ts %d %d %s", st, r, hx(rest)), fmt.Sprint(a1, a2), fmt.Sprint(b1, b2), fmt.Sprintf("representative %d", rep))
						}
					}
				}
				for _, st := range lbStates {
					for _, rest := range [][]byte{{}, nu} {
						a1, a2 := u.VerifTransitionLine(st, r, rest, "")
						b1, b2 := u.VerifTransitionLine(st, rep, rest, "")
						res.Evaluations++
						if a1 != b1 || a2 != b2 {
							res.add(fmt.Sprintf("tl %d %d %s", st, r, hx(rest)), fmt.Sprint(a1, a2), fmt.Sprint(b1, b2), fmt.Sprintf("representative %d", rep))
						}
					}
				}
			}
			done <- w
		}(w)
	}
	for w := 0; w < nw; w++ {
		<-done
	}
	for _, r := range results {
		s.Evaluations += r.Evaluations
		s.MismatchCount += r.MismatchCount
		for _, m := range r.Mismatches {
			if len(s.Mismatches) < 25 {
				s.Mismatches = append(s.Mismatches, m)
			}
		}
	}
	s.Samples = []string{fmt.Sprintf("%d code points, %d signatures", len(cps), len(ci.sigs))}
	return s
}

// ---------------------------------------------------------------------------
// E4: utf8 decoding model vs Go's unicode/utf8

func stageE4(d *driver, thorough bool, seed uint64) stageResult {
	s := stageResult{Name: "E4", Exhaustive: true, Domain: "utf8.DecodeRune / DecodeLastRune vs Utf8.decodeRune / decodeLastRune: all inputs of 1 and 2 bytes; 3- and 4-byte inputs over all lead bytes x boundary values of the continuation bytes (thorough: all 3-byte inputs); with prefixes for DecodeLastRune"}
	var ops, real []string
	flush := func() {
		if len(ops) > 0 {
			compareOps(&s, d, ops, real)
			ops, real = ops[:0], real[:0]
		}
	}
	emit := func(b []byte) {
		r, n := utf8.DecodeRune(b)
		ops = append(ops, "dec "+hx(b))
		real = append(real, fmt.Sprintf("%d %d", r, n))
		r, n = utf8.DecodeLastRune(b)
		ops = append(ops, "declast "+hx(b))
		real = append(real, fmt.Sprintf("%d %d", r, n))
		if len(ops) >= 50000 {
			flush()
		}
	}
	emit(nil)
	for a := 0; a < 256; a++ {
		emit([]byte{byte(a)})
		for b := 0; b < 256; b++ {
			emit([]byte{byte(a), byte(b)})
		}
	}
	bnd := []int{0x00, 0x7f, 0x80, 0x8f, 0x90, 0x9f, 0xa0, 0xbf, 0xc0, 0xc2, 0xe0, 0xed, 0xf0, 0xf4, 0xff}
	if thorough {
		for a := 0xc0; a < 256; a++ {
			for b := 0; b < 256; b++ {
				for cc := 0; cc < 256; cc++ {
					emit([]byte{byte(a), byte(b), byte(cc)})
				}
			}
		}
	}
	for a := 0; a < 256; a++ {
		for _, b := range bnd {
			for _, cc := range bnd {
				emit([]byte{byte(a), byte(b), byte(cc)})
				if a >= 0xe0 || a == 0x61 || a == 0x80 {
					for _, dd := range bnd {
						emit([]byte{byte(a), byte(b), byte(cc), byte(dd)})
						if a >= 0xf0 && (dd == 0x80 || dd == 0xbf) {
							emit([]byte{0x61, byte(a), byte(b), byte(cc), byte(dd)})
							emit([]byte{0xf0, byte(a), byte(b), byte(cc), byte(dd)})
							emit([]byte{0x80, 0x80, byte(a), byte(b), byte(cc), byte(dd)})
						}
					}
				}
			}
		}
	}
	// every scalar value boundary, encoded, with and without a prefix
	for _, r := range []rune{0, 0x7f, 0x80, 0x7ff, 0x800, 0xfff, 0x1000, 0xd7ff, 0xe000, 0xfffd, 0xffff, 0x10000, 0x3ffff, 0x40000, 0xfffff, 0x100000, 0x10ffff} {
		e := enc(r)
		emit(e)
		emit(append([]byte{0xe2, 0x82}, e...))
		emit(append(e, 0x80))
	}
	flush()
	return s
}

// ---------------------------------------------------------------------------
// E5: the whole public API on generated strings, chained from -1, exact states compared

type dist struct {
	Kinds     map[string]int `json:"kinds"`
	Lengths   map[string]int `json:"length_histogram_runes"`
	Templates map[string]int `json:"templates_hit"`
	IllFormed int            `json:"inputs_with_ill_formed_bytes"`
	States    map[string]int `json:"implementation_states_seen"`
	Distinct  int            `json:"distinct_inputs"`
	Nontrivial int           `json:"distinct_nontrivial"`
}

func newDist() *dist {
	return &dist{Kinds: map[string]int{}, Lengths: map[string]int{}, Templates: map[string]int{}, States: map[string]int{}}
}

func lenBucket(n int) string {
	switch {
	case n <= 1:
		return "1"
	case n <= 3:
		return "2-3"
	case n <= 6:
		return "4-6"
	case n <= 12:
		return "7-12"
	case n <= 24:
		return "13-24"
	}
	return "25+"
}

// nontrivial: at least one position where a segmenter does something other than its default
// (graphemes/words/lines: two code points kept together; sentences: a break inside the text)
func nontrivial(b []byte) bool {
	n := utf8.RuneCount(b)
	if n < 2 {
		return false
	}
	cnt := func(kind string) int { return len(strings.Fields(realChain(kind, b, false))) }
	return cnt("fg") < n || cnt("fw") < n || cnt("fl") < n || cnt("fs") > 1
}

type caseSource struct {
	seed    uint64
	stream  string
	n       int
	corpus  [][]byte
	amb     int
}

func (cs *caseSource) each(f func(i int, gc genCase)) {
	for i, b := range cs.corpus {
		f(i, genCase{input: b, kind: "corpus", tplIdx: -1})
	}
	for i := 0; i < cs.n; i++ {
		r := newRng(cs.seed, cs.stream, uint64(i))
		f(len(cs.corpus)+i, genAny(r))
	}
}

// eachLong: long inputs (several generated cases concatenated), because a defect may need an offset, a
// segment count or a cluster length far beyond what one rule template produces; lengths are drawn
// between 200 bytes and maxLen
func (cs *caseSource) eachLong(count, maxLen int, f func(i int, gc genCase)) {
	for i := 0; i < count; i++ {
		r := newRng(cs.seed, cs.stream+"/long", uint64(i))
		target := 200 + r.intn(maxLen-199)
		if r.chance(1, 4) {
			// powers of two and their neighbours
			p := 256 << uint(r.intn(6))
			if p > maxLen {
				p = maxLen
			}
			target = p - 2 + r.intn(5)
		}
		var b []byte
		k := 0
		for len(b) < target {
			rr := newRng(cs.seed, cs.stream+"/longpart", uint64(i)*1000+uint64(k))
			k++
			gc := genAny(rr)
			if r.chance(1, 3) {
				// the same piece several times: long runs of one shape
				for n := 1 + r.intn(6); n > 0 && len(b) < target; n-- {
					b = append(b, gc.input...)
				}
			} else {
				b = append(b, gc.input...)
			}
			if k > 5000 {
				break
			}
		}
		f(-2-i, genCase{input: b, kind: "long", tplIdx: -1})
	}
}

// eachHuge: a few inputs around 2^16 and 2^17 bytes (thorough: also 2^20): offsets, counters and fields
// narrower than int wrap there, and only there. For the linear monitors only.
func (cs *caseSource) eachHuge(thorough bool, f func(i int, gc genCase)) {
	targets := []int{1<<16 + 37, 1<<17 + 4099}
	if thorough {
		targets = append(targets, 1<<20+11)
	}
	for i, target := range targets {
		r := newRng(cs.seed, cs.stream+"/huge", uint64(i))
		var b []byte
		k := 0
		for len(b) < target {
			rr := newRng(cs.seed, cs.stream+"/hugepart", uint64(i)*100000+uint64(k))
			k++
			gc := genAny(rr)
			if len(gc.input) > 400 {
				continue
			}
			for n := 1 + r.intn(3); n > 0; n-- {
				b = append(b, gc.input...)
			}
		}
		f(-1000-i, genCase{input: b, kind: "huge", tplIdx: -1})
	}
	// one cluster of more than 2^16 bytes (and of more than 2^15 code points) between two others
	one := []byte("xa")
	for i := 0; i < 33000; i++ {
		one = appendRune(one, 0x0301)
	}
	one = append(one, 'y')
	f(-1100, genCase{input: one, kind: "huge", tplIdx: -1})
}

func recordDist(dd *dist, seen map[string]bool, gc genCase) {
	dd.Kinds[gc.kind]++
	dd.Lengths[lenBucket(utf8.RuneCount(gc.input))]++
	if gc.tplIdx >= 0 {
		dd.Templates[compiled[gc.tplIdx].src]++
	}
	if !utf8.Valid(gc.input) {
		dd.IllFormed++
	}
	k := string(gc.input)
	if !seen[k] {
		seen[k] = true
		dd.Distinct++
		if nontrivial(gc.input) {
			dd.Nontrivial++
		}
	}
}

func e5Ops(amb int, b []byte) (ops, real []string, realStr []string) {
	return e5OpsWant(amb, b, nil)
}

// e5OpsWant: only the entry points want() accepts are run (nil: all)
func e5OpsWant(amb int, b []byte, want func(string) bool) (ops, real []string, realStr []string) {
	h := hx(b)
	add := func(op, r, rs string) {
		ops = append(ops, op)
		real = append(real, r)
		realStr = append(realStr, rs)
	}
	w := func(k string) bool { return want == nil || want(k) }
	for _, k := range []string{"fg", "fw", "fs", "fl"} {
		if w(k) {
			add(fmt.Sprintf("chain %s %d %s", k, amb, h), realChain(k, b, false), realChain(k, b, true))
		}
	}
	if w("st") {
		add(fmt.Sprintf("chain st %d %s", amb, h), realChain("st", b, false), "")
	}
	if w("sts") {
		add(fmt.Sprintf("chain sts %d %s", amb, h), realChain("st", b, true), "")
	}
	enter(b, "StringWidth/GraphemeClusterCount/ReverseString/HasTrailingLineBreak")
	defer leave()
	if w("sw") {
		add(fmt.Sprintf("sw %d %s", amb, h), protect(func() string { return fmt.Sprint(u.StringWidth(string(b))) }), "")
	}
	if w("gcc") {
		add("gcc "+h, protect(func() string { return fmt.Sprint(u.GraphemeClusterCount(string(b))) }), "")
	}
	if w("rev") {
		add("rev "+h, protect(func() string { return hx([]byte(u.ReverseString(string(b)))) }), "")
	}
	if w("htlb") {
		add("htlb "+h, protect(func() string { return fmt.Sprint(b2i(u.HasTrailingLineBreak(b))) }),
			protect(func() string { return fmt.Sprint(b2i(u.HasTrailingLineBreakInString(string(b)))) }))
	}
	return
}

func stageE5(d *driver, cs *caseSource, dd *dist, only map[string]bool, thorough bool) stageResult {
	s := stageResult{Name: "E5", Domain: "First*/Step* (byte and string forms), StringWidth, GraphemeClusterCount, ReverseString, HasTrailingLineBreak(InString) on generated strings (corpus, rule templates, random class sequences, malformed stream), chained from -1 with exact segment lengths, widths/flags and newState compared, vs Impl.Loops"}
	seen := map[string]bool{}
	var ops, real []string
	flush := func() {
		if len(ops) > 0 {
			compareOps(&s, d, ops, real)
			ops, real = ops[:0], real[:0]
		}
	}
	flushAt := 20000
	var algOnly map[string]bool // small-scope streams: only the entry points of the alphabet's algorithm
	handle := func(b []byte) {
		o, r, rs := e5OpsWant(cs.amb, b, func(k string) bool {
			return (only == nil || only[k]) && (algOnly == nil || algOnly[k])
		})
		for i := range o {
			ops = append(ops, o[i])
			real = append(real, r[i])
			if rs[i] != "" && rs[i] != r[i] {
				// the string twin must agree except for the final state when rest is empty
				if !sameButLastState(r[i], rs[i]) {
					s.add(o[i], r[i], rs[i], "byte form vs string form of the real function differ")
				}
			}
			for _, seg := range strings.Fields(r[i]) {
				parts := strings.Split(seg, ":")
				if len(parts) >= 2 && strings.HasPrefix(o[i], "chain") {
					dd.States[strings.Fields(o[i])[1]+":"+parts[len(parts)-1]]++
				}
			}
		}
		if len(ops) >= flushAt {
			flush()
		}
	}
	// two texts in flight: the chain over an input with one call on the previous input between any two of
	// its calls gives what the chain alone gives (a memo keyed on "how much is left" or the like does not)
	var prev []byte
	interleaved := func(b []byte) {
		if len(prev) > 0 && len(b) > 0 {
			for _, k := range []string{"fg", "fw", "fs", "fl", "st"} {
				kk := k
				if only != nil && !only[kk] && !(kk == "st" && only["sts"]) {
					continue
				}
				for _, str := range []bool{false, true} {
					s.Evaluations++
					if a, c := realChainInterleaved(kk, b, prev, str), realChain(kk, b, str); a != c {
						s.add(fmt.Sprintf("interleaved %s %v %s %s", kk, str, hx(prev), hx(b)), a, c, "the chain over the last input, with one call on the other text between any two calls, differs from the chain alone")
					}
				}
			}
		}
		prev = b
	}
	cs.each(func(i int, gc genCase) {
		recordDist(dd, seen, gc)
		if modelSized(gc.input) {
			handle(gc.input)
			if i%2 == 0 || i < 400 {
				interleaved(gc.input)
			}
		}
	})
	cs.eachLong(cs.n/800, 600, func(i int, gc genCase) {
		recordDist(dd, seen, gc)
		handle(gc.input)
		interleaved(gc.input)
	})
	flush()
	// small scope, exhaustive: every sequence of up to 3-5 symbols over an alphabet with an ASCII and a
	// non-ASCII member of every class of the algorithm, U+FFFD and an ill-formed byte, through the entry
	// points of that algorithm (and, one symbol shorter, through Step/StepString)
	flushAt = 400000
	anyWanted := func(m map[string]bool) bool {
		for k := range m {
			if only == nil || only[k] {
				return true
			}
		}
		return false
	}
	for _, alg := range []byte("GWSL") {
		n, nFull := smallScopeLen(alg, thorough)
		algOnly = map[byte]map[string]bool{
			'G': {"fg": true, "gcc": true, "rev": true, "sw": true},
			'W': {"fw": true}, 'S': {"fs": true}, 'L': {"fl": true, "htlb": true}}[alg]
		if anyWanted(algOnly) {
			shortSequences(alg, n, nFull, func(b []byte) {
				dd.Kinds["short"]++
				handle(b)
			})
		}
		algOnly = map[string]bool{"st": true, "sts": true}
		if anyWanted(algOnly) {
			shortSequences(alg, n-1, nFull-1, func(b []byte) {
				dd.Kinds["short"]++
				handle(b)
			})
		}
	}
	algOnly = nil
	flush()
	// collapse the state histogram to counts of distinct states per entry point
	agg := map[string]int{}
	for k := range dd.States {
		agg[strings.Split(k, ":")[0]]++
	}
	dd.States = agg
	return s
}

func sameButLastState(a, b string) bool {
	fa, fb := strings.Fields(a), strings.Fields(b)
	if len(fa) != len(fb) {
		return false
	}
	for i := range fa {
		if fa[i] == fb[i] {
			continue
		}
		if i != len(fa)-1 {
			return false
		}
		pa, pb := strings.Split(fa[i], ":"), strings.Split(fb[i], ":")
		if len(pa) != len(pb) {
			return false
		}
		for j := 0; j < len(pa)-1; j++ {
			if pa[j] != pb[j] {
				return false
			}
		}
	}
	return true
}

// ---------------------------------------------------------------------------
// E6: the iterator under random call sequences

func genIterOps(r *rng) string {
	n := 1 + r.intn(24)
	var sb strings.Builder
	acc := "SUBPWELD"
	for i := 0; i < n; i++ {
		switch x := r.intn(10); {
		case x < 5:
			sb.WriteByte('N')
		case x < 6:
			sb.WriteByte('R')
		default:
			sb.WriteByte(acc[r.intn(len(acc))])
		}
		if r.chance(1, 3) {
			sb.WriteString("SPWELD")
		}
	}
	if r.chance(1, 4) {
		sb.WriteString("NNNNSPWELDUBRPSN")
	}
	return sb.String()
}

func stageE6(d *driver, seed uint64, n int, amb int) stageResult {
	s := stageResult{Name: "E6", Domain: "Graphemes: random sequences of Next/Reset/Str/Runes/Bytes/Positions/IsWordBoundary/IsSentenceBoundary/LineBreak/Width on generated strings vs Impl.Graphemes"}
	var ops, real []string
	for i := 0; i < n; i++ {
		r := newRng(seed, "E6", uint64(i))
		gc := genAny(r)
		for k := 0; !modelSized(gc.input) && k < 20; k++ {
			gc = genAny(r) // the model's iterator is quadratic; long inputs go to the C13 monitor
		}
		if r.chance(1, 30) || !modelSized(gc.input) {
			gc.input = nil
		}
		seq := genIterOps(r)
		ops = append(ops, fmt.Sprintf("it %d %s %s", amb, hx(gc.input), seq))
		real = append(real, realIter(gc.input, seq))
		if len(ops) >= 20000 {
			compareOps(&s, d, ops, real)
			ops, real = ops[:0], real[:0]
		}
	}
	if len(ops) > 0 {
		compareOps(&s, d, ops, real)
	}
	return s
}

// ---------------------------------------------------------------------------
// SPEC: the real segmenters against the Lean reading of the annexes (monitor for C01-C04)

// realVerdicts: one digit per interior code-point position: 0 no boundary, 1 boundary
// (lines: 1 = may break, 2 = must break)
func realVerdicts(kind string, b []byte, str bool) string {
	segs, err := chainSegs(kind, b, str)
	if err != "" {
		return "ERR:" + err
	}
	ends := endSet(segs)
	var sb strings.Builder
	for i := 0; i < len(b); {
		_, n := utf8.DecodeRune(b[i:])
		i += n
		if i >= len(b) {
			break
		}
		if s, ok := ends[i]; ok {
			if kind == "fl" && s.extra == 1 {
				sb.WriteByte('2')
			} else {
				sb.WriteByte('1')
			}
		} else {
			sb.WriteByte('0')
		}
	}
	if sb.Len() == 0 {
		return "-"
	}
	return sb.String()
}

var specAlg = map[string]string{"fg": "g", "fw": "w", "fs": "s", "fl": "l"}

// stepVerdicts: what Step/StepString say about algorithm alg at each interior position: the
// grapheme projection marks cluster ends; the others give the flag at cluster ends and '.'
// strictly inside a cluster (where Step is silent)
func stepVerdicts(alg string, b []byte, str bool) string {
	segs, err := chainSegs("st", b, str)
	if err != "" {
		return "ERR:" + err
	}
	ends := endSet(segs)
	var sb strings.Builder
	for i := 0; i < len(b); {
		_, n := utf8.DecodeRune(b[i:])
		i += n
		if i >= len(b) {
			break
		}
		s, ok := ends[i]
		switch {
		case alg == "g" && ok:
			sb.WriteByte('1')
		case alg == "g":
			sb.WriteByte('0')
		case !ok:
			sb.WriteByte('.')
		case alg == "w":
			sb.WriteByte(byte('0' + b2i(s.extra&u.MaskWord != 0)))
		case alg == "s":
			sb.WriteByte(byte('0' + b2i(s.extra&u.MaskSentence != 0)))
		default:
			sb.WriteByte(byte('0' + s.extra&u.MaskLine))
		}
	}
	if sb.Len() == 0 {
		return "-"
	}
	return sb.String()
}

func matchesSpec(got, spec string) bool {
	if len(got) != len(spec) {
		return false
	}
	for i := range got {
		if got[i] != '.' && got[i] != spec[i] {
			return false
		}
	}
	return true
}

// stageSpec: kindsWanted are First* kinds (fg, fw, fs, fl); withStep adds the projections of
// Step and StepString for the same algorithms.
func stageSpec(d *driver, cs *caseSource, kindsWanted []string, withStep bool, thorough bool) stageResult {
	s := stageResult{Name: "SPEC", Domain: "FirstGraphemeCluster/FirstWord/FirstSentence/FirstLineSegment (byte and string forms) and the matching flags of Step/StepString, chained from -1 on generated strings, vs the declarative Lean readings of UAX #29 / UAX #14 (Spec/*.lean), position by position"}
	type item struct {
		b    []byte
		kind string
	}
	var ops []string
	var items []item
	type pend struct {
		it   item
		str  bool
		step bool
	}
	var pending []pend
	flush := func() {
		if len(ops) == 0 {
			return
		}
		specs := d.run(ops)
		for i, it := range items {
			sp := specs[i]
			alg := specAlg[it.kind]
			for _, str := range []bool{false, true} {
				s.Evaluations++
				if rv := realVerdicts(it.kind, it.b, str); rv != sp {
					pending = append(pending, pend{it, str, false})
				}
				if withStep {
					s.Evaluations++
					if sv := stepVerdicts(alg, it.b, str); !matchesSpec(sv, sp) {
						pending = append(pending, pend{it, str, true})
					}
				}
			}
		}
		if len(s.Samples) < 3 {
			s.Samples = append(s.Samples, ops[0]+" => "+specs[0])
		}
		ops, items = ops[:0], items[:0]
		// report (and, for the first few, shrink) the disagreements with the spec
		for _, p := range pending {
			alg := specAlg[p.it.kind]
			fails := func(x []byte) bool {
				sp := d.ask("spec " + alg + " " + hx(x))
				if p.step {
					return !matchesSpec(stepVerdicts(alg, x, p.str), sp)
				}
				return realVerdicts(p.it.kind, x, p.str) != sp
			}
			b := p.it.b
			if s.MismatchCount < 12 {
				b = shrink(b, fails)
			}
			sp := d.ask("spec " + alg + " " + hx(b))
			who := kindName[p.it.kind]
			got := realVerdicts(p.it.kind, b, p.str)
			if p.step {
				who = "Step (projection " + alg + ")"
				got = stepVerdicts(alg, b, p.str)
			}
			s.add("spec "+alg+" "+hx(b), got, sp, fmt.Sprintf("%s string-form=%v input %+q", who, p.str, string(b)))
		}
		pending = pending[:0]
	}
	handle := func(b []byte, ks []string) {
		if len(b) == 0 {
			return
		}
		for _, k := range ks {
			ops = append(ops, "spec "+specAlg[k]+" "+hx(b))
			items = append(items, item{b, k})
		}
		if len(ops) >= 20000 {
			flush()
		}
	}
	cs.each(func(i int, gc genCase) {
		if modelSized(gc.input) {
			handle(gc.input, kindsWanted)
		}
	})
	cs.eachLong(cs.n/400, 800, func(i int, gc genCase) { handle(gc.input, kindsWanted) })
	// small scope, exhaustive (see smallAlphabet): one symbol shorter than stage E5's in the quick tier
	for _, k := range kindsWanted {
		alg := map[string]byte{"fg": 'G', "fw": 'W', "fs": 'S', "fl": 'L'}[k]
		n, nFull := smallScopeLen(alg, thorough)
		if !thorough {
			n, nFull = n-1, nFull-1
		}
		kk := k
		shortSequences(alg, n, nFull, func(b []byte) { handle(b, []string{kk}) })
	}
	flush()
	return s
}

// ---------------------------------------------------------------------------
// RW: runeWidth on every code point x every grapheme class value vs the model

func stageRW(driverPath string, amb int) stageResult {
	s := stageResult{Name: "RW", Exhaustive: true, Domain: "runeWidth(r, prop) for all 1,114,112 code points x all 16 grapheme class values, run-length encoded, vs Impl.runeWidth"}
	for p := 0; p < 16; p++ {
		var real []string
		lo, cur := 0, u.VerifRuneWidth(0, p)
		for r := rune(1); r <= 0x10FFFF; r++ {
			v := u.VerifRuneWidth(r, p)
			if v != cur {
				real = append(real, fmt.Sprintf("%d %d %d", lo, r-1, cur))
				lo, cur = int(r), v
			}
		}
		real = append(real, fmt.Sprintf("%d %d %d", lo, 0x10FFFF, cur))
		s.Evaluations += 0x110000
		model := driverDump(driverPath, fmt.Sprintf("dumprw %d %d", amb, p))
		if strings.Join(real, "\n") != strings.Join(model, "\n") {
			first := firstDiffRange(real, model)
			s.add(fmt.Sprintf("dumprw %d %d", amb, p), first[0], first[1], "first differing range")
		}
	}
	// history: runeWidth(r, class of r) right after runeWidth of an "aggressor" (neighbours, the same code point
	// under another class - another table is consulted -, the same low bits in other planes, flipped high
	// bits, an unlisted code point) must be what it is right after itself; for every code point at which a
	// class changes, its neighbours and one member per signature. Also through StringWidth on the pair.
	var sample []rune
	seenS := map[rune]bool{}
	for _, rs := range [][]rune{ci.bounds, ci.allReps()} {
		for _, r := range rs {
			if !seenS[r] {
				seenS[r] = true
				sample = append(sample, r)
			}
		}
	}
	bad := 0
	badR := map[rune]bool{}
	var hist []histMismatch
	otherClass := []int{c("prExtendedPictographic"), c("prAny"), c("prExtend")}
	for _, r := range sample {
		p := u.VerifPropertyGraphemes(r)
		u.VerifRuneWidth(r, p)
		want := u.VerifRuneWidth(r, p)
		type ag struct {
			r rune
			p int
		}
		var aggr []ag
		for _, a := range []rune{r + 1, r - 1, r + 2, r - 2, r ^ 0x100000, r ^ 0x10000, r ^ 0x20000, r & 0xFFFF, r | 0x100000, 0x378, 0, 0x10FFFF} {
			if a >= 0 && a <= 0x10FFFF && a != r {
				aggr = append(aggr, ag{a, u.VerifPropertyGraphemes(a)})
			}
		}
		for _, q := range otherClass {
			if q != p {
				aggr = append(aggr, ag{r, q})
				if r+1 <= 0x10FFFF {
					aggr = append(aggr, ag{r + 1, q})
				}
				if r > 0 {
					aggr = append(aggr, ag{r - 1, q})
				}
			}
		}
		for _, a := range aggr {
			u.VerifRuneWidth(a.r, a.p)
			s.Evaluations++
			if v := u.VerifRuneWidth(r, p); v != want && bad < 20000 && !badR[r] {
				bad++
				badR[r] = true
				hist = append(hist, histMismatch{fmt.Sprintf("rw-after %d %d %d %d", r, p, a.r, a.p), fmt.Sprint(v), fmt.Sprint(want), fmt.Sprintf("runeWidth(U+%04X) depends on the previous call (U+%04X, class %d)", r, a.r, a.p)})
			}
		}
	}
	addThinned(&s, hist, 24)
	s.Samples = []string{"runeWidth(U+4E16, prAny) = " + fmt.Sprint(u.VerifRuneWidth(0x4E16, 1))}
	return s
}

// ---------------------------------------------------------------------------
// WIDTHSPEC: real cluster widths (all four width-carrying loops, chained and stand-alone) and
// StringWidth vs the documented width model in Lean (Spec/Width.lean on the spec's clusters)

func realWidths(kind string, b []byte, str bool) string {
	segs, err := chainSegs(kind, b, str)
	if err != "" {
		return "ERR:" + err
	}
	ends := runeEnds(b, segs)
	var parts []string
	prev := 0
	for i, s := range segs {
		w := s.extra
		if kind == "st" {
			w = s.extra >> u.ShiftWidth
		}
		parts = append(parts, fmt.Sprintf("%d:%d", ends[i]-prev, w))
		prev = ends[i]
	}
	if len(parts) == 0 {
		return "-"
	}
	return strings.Join(parts, " ")
}

func stageWidthSpec(d *driver, cs *caseSource, thorough bool) stageResult {
	s := stageResult{Name: "WIDTHSPEC", Domain: "widths reported by FirstGraphemeCluster(InString), Step, StepString for every cluster (chained from -1, and each cluster again on its own from -1), Graphemes.Width and StringWidth, on generated strings, vs Spec.clusterWidth over the spec's clusters"}
	var ops []string
	var inputs [][]byte
	flush := func() {
		if len(ops) == 0 {
			return
		}
		specs := d.run(ops)
		for i, b := range inputs {
			sp := specs[i]
			for _, k := range []string{"fg", "st"} {
				for _, str := range []bool{false, true} {
					s.Evaluations++
					if rw := realWidths(k, b, str); rw != sp {
						small := b
						if s.MismatchCount < 10 {
							kk, ss := k, str
							small = shrink(b, func(x []byte) bool { return realWidths(kk, x, ss) != d.ask(fmt.Sprintf("specwidth %d %s", cs.amb, hx(x))) })
						}
						s.add(fmt.Sprintf("specwidth %d %s", cs.amb, hx(small)), realWidths(k, small, str), d.ask(fmt.Sprintf("specwidth %d %s", cs.amb, hx(small))),
							fmt.Sprintf("%s string-form=%v input %+q", kindName[k], str, string(small)))
					}
				}
			}
			// each cluster on its own, from -1, and StringWidth = sum
			total := 0
			off := 0
			segs, _ := chainSegs("fg", b, false)
			for _, sg := range segs {
				cl := b[off:sg.end]
				_, _, w, _ := u.FirstGraphemeCluster(cl, -1)
				_, _, bd, _ := u.Step(cl, -1)
				s.Evaluations++
				if w != sg.extra || bd>>u.ShiftWidth != sg.extra {
					s.add(fmt.Sprintf("specwidth %d %s", cs.amb, hx(cl)), fmt.Sprintf("alone: FirstGraphemeCluster %d, Step %d", w, bd>>u.ShiftWidth), fmt.Sprintf("chained: %d", sg.extra),
						fmt.Sprintf("cluster %+q of %+q has a different width on its own", string(cl), string(b)))
				}
				total += sg.extra
				off = sg.end
			}
			if sw := u.StringWidth(string(b)); sw != total {
				s.add(fmt.Sprintf("specwidth %d %s", cs.amb, hx(b)), fmt.Sprint("StringWidth ", sw), fmt.Sprint("sum of cluster widths ", total), fmt.Sprintf("input %+q", string(b)))
			}
			g := u.NewGraphemes(string(b))
			i := 0
			for g.Next() {
				if i < len(segs) && g.Width() != segs[i].extra {
					s.add(fmt.Sprintf("specwidth %d %s", cs.amb, hx(b)), fmt.Sprint("Graphemes.Width ", g.Width()), fmt.Sprint(segs[i].extra), fmt.Sprintf("cluster %d of %+q", i, string(b)))
				}
				i++
			}
		}
		if len(s.Samples) < 3 {
			s.Samples = append(s.Samples, ops[0]+" => "+specs[0])
		}
		ops, inputs = ops[:0], inputs[:0]
	}
	cs.each(func(i int, gc genCase) {
		if len(gc.input) == 0 || !modelSized(gc.input) {
			return
		}
		ops = append(ops, fmt.Sprintf("specwidth %d %s", cs.amb, hx(gc.input)))
		inputs = append(inputs, gc.input)
		if len(ops) >= 10000 {
			flush()
		}
	})
	cs.eachLong(cs.n/400, 1000, func(i int, gc genCase) {
		ops = append(ops, fmt.Sprintf("specwidth %d %s", cs.amb, hx(gc.input)))
		inputs = append(inputs, gc.input)
	})
	// every code point on its own and after a few first code points that change the composition rule
	if thorough {
		for _, r := range ci.allReps() {
			for _, pre := range [][]rune{{}, {0x1F600}, {0x1F1E6}, {0x1100}, {'a'}, {0x0600}} {
				b := enc(append(append([]rune{}, pre...), r)...)
				ops = append(ops, fmt.Sprintf("specwidth %d %s", cs.amb, hx(b)))
				inputs = append(inputs, b)
			}
		}
	} else {
		for _, r := range ci.oneRepPerSig() {
			for _, pre := range [][]rune{{}, {0x1F600}, {0x1100}} {
				b := enc(append(append([]rune{}, pre...), r)...)
				ops = append(ops, fmt.Sprintf("specwidth %d %s", cs.amb, hx(b)))
				inputs = append(inputs, b)
			}
		}
	}
	flush()
	// small scope, exhaustive, over the grapheme alphabet (one symbol shorter than stage E5's in the quick tier)
	{
		n, nFull := smallScopeLen('G', thorough)
		if !thorough {
			n, nFull = n-1, nFull-1
		}
		shortSequences('G', n, nFull, func(b []byte) {
			ops = append(ops, fmt.Sprintf("specwidth %d %s", cs.amb, hx(b)))
			inputs = append(inputs, b)
			if len(ops) >= 10000 {
				flush()
			}
		})
		flush()
	}
	return s
}

func sortedKeys(m map[string]int) []string {
	var ks []string
	for k := range m {
		ks = append(ks, k)
	}
	sort.Strings(ks)
	return ks
}
