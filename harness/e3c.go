package main

import (
	"fmt"
	"unicode/utf8"

	u "github.com/rivo/uniseg"
)

// E3c (C07, Go vs Go): for EVERY code point r, short probe strings containing r, run through the public
// API (all First* chains in both forms, Step, StringWidth, GraphemeClusterCount, HasTrailingLineBreak),
// must give the same results - segment lengths counted in code points, widths, flags, mustBreak, and the
// returned state integers - as the same probes with r replaced by the representative of r's class
// signature. This is C07's own observation ("replacing a code point by another with the same values
// never changes any result"), and it reaches code-point-specific behaviour in the loops, which the
// transition-level stage E3b cannot see.

type apiSummary struct{ h uint64 }

func (a *apiSummary) add(vs ...int) {
	for _, v := range vs {
		a.h ^= uint64(int64(v)) + 0x9e3779b97f4a7c15 + (a.h << 6) + (a.h >> 2)
	}
}

// summarize runs the public API on b; lengths are measured in code points so that two strings that
// differ only in the UTF-8 length of one code point are comparable
func summarize(b []byte, special rune, verbose *[]string) uint64 {
	_ = special
	var a apiSummary
	note := func(name string, vs ...int) {
		a.add(vs...)
		if verbose != nil {
			*verbose = append(*verbose, fmt.Sprint(name, vs))
		}
	}
	s := string(b)
	// graphemes
	rest, st := b, -1
	for len(rest) > 0 {
		var seg []byte
		var w int
		seg, rest, w, st = u.FirstGraphemeCluster(rest, st)
		note("fg", utf8.RuneCount(seg), w, st)
		if len(seg) == 0 {
			break
		}
	}
	rs, st2 := s, -1
	for len(rs) > 0 {
		var seg string
		var w int
		seg, rs, w, st2 = u.FirstGraphemeClusterInString(rs, st2)
		note("fgs", utf8.RuneCountInString(seg), w, st2)
		if len(seg) == 0 {
			break
		}
	}
	rest, st = b, -1
	for len(rest) > 0 {
		var seg []byte
		seg, rest, st = u.FirstWord(rest, st)
		note("fw", utf8.RuneCount(seg), st)
		if len(seg) == 0 {
			break
		}
	}
	rs, st2 = s, -1
	for len(rs) > 0 {
		var seg string
		seg, rs, st2 = u.FirstWordInString(rs, st2)
		note("fws", utf8.RuneCountInString(seg), st2)
		if len(seg) == 0 {
			break
		}
	}
	rest, st = b, -1
	for len(rest) > 0 {
		var seg []byte
		seg, rest, st = u.FirstSentence(rest, st)
		note("fs", utf8.RuneCount(seg), st)
		if len(seg) == 0 {
			break
		}
	}
	rs, st2 = s, -1
	for len(rs) > 0 {
		var seg string
		seg, rs, st2 = u.FirstSentenceInString(rs, st2)
		note("fss", utf8.RuneCountInString(seg), st2)
		if len(seg) == 0 {
			break
		}
	}
	rest, st = b, -1
	for len(rest) > 0 {
		var seg []byte
		var mb bool
		seg, rest, mb, st = u.FirstLineSegment(rest, st)
		note("fl", utf8.RuneCount(seg), b2i(mb), st, b2i(u.HasTrailingLineBreak(seg)))
		if len(seg) == 0 {
			break
		}
	}
	rs, st2 = s, -1
	for len(rs) > 0 {
		var seg string
		var mb bool
		seg, rs, mb, st2 = u.FirstLineSegmentInString(rs, st2)
		note("fls", utf8.RuneCountInString(seg), b2i(mb), st2, b2i(u.HasTrailingLineBreakInString(seg)))
		if len(seg) == 0 {
			break
		}
	}
	rest, st = b, -1
	for len(rest) > 0 {
		var seg []byte
		var bd int
		seg, rest, bd, st = u.Step(rest, st)
		note("st", utf8.RuneCount(seg), bd, st)
		if len(seg) == 0 {
			break
		}
	}
	rs, st2 = s, -1
	for len(rs) > 0 {
		var seg string
		var bd int
		seg, rs, bd, st2 = u.StepString(rs, st2)
		note("sts", utf8.RuneCountInString(seg), bd, st2)
		if len(seg) == 0 {
			break
		}
	}
	note("sw", u.StringWidth(s), u.GraphemeClusterCount(s))
	// the iterator: every accessor after every Next, and after the end
	g := u.NewGraphemes(s)
	for g.Next() {
		f, t := g.Positions()
		note("it", utf8.RuneCountInString(s[:f]), utf8.RuneCountInString(s[:t]), g.Width(), b2i(g.IsWordBoundary()), b2i(g.IsSentenceBoundary()), g.LineBreak(), utf8.RuneCountInString(g.Str()), len(g.Runes()))
	}
	f, t := g.Positions()
	note("itend", f, t, g.Width(), g.LineBreak())
	// ReverseString = the clusters in reverse order (compared as a verdict, so that r and its representative compare)
	var cl []string
	rs, st2 = s, -1
	for len(rs) > 0 {
		var seg string
		seg, rs, _, st2 = u.FirstGraphemeClusterInString(rs, st2)
		if len(seg) == 0 {
			break
		}
		cl = append(cl, seg)
	}
	want := ""
	for i := len(cl) - 1; i >= 0; i-- {
		want += cl[i]
	}
	rev := u.ReverseString(s)
	note("rev", b2i(rev == want), utf8.RuneCountInString(rev))
	return a.h
}

func stageE3c() stageResult {
	s := stageResult{Name: "E3c", Exhaustive: true, Domain: "every code point r in short probe strings (alone, before and after each of 11 context code points, in the look-ahead position of WB6/WB7, WB12, SB8 and LB25, and as the third code point after VS16, an emoji ZWJ, a flag and a quote) through the whole public API (all First* chains in both forms, Step, StepString, StringWidth, GraphemeClusterCount, HasTrailingLineBreak on every line segment): results (lengths in code points, widths, flags, mustBreak, state integers) = results of the same probes with r replaced by the representative of its class signature (Go vs Go)"}
	ctx := []rune{'a', ' ', '1', '.', '(', 0x0301, 0x200D, 0x1F600, 0x0600, 0x1F1E6, 0x3042}
	var cps []rune
	for r := rune(0); r <= 0x10FFFF; r++ {
		if !isSurrogate(r) {
			cps = append(cps, r)
		}
	}
	probes := func(r rune) [][]byte {
		var out [][]byte
		out = append(out, enc(r))
		for _, x := range ctx {
			out = append(out, enc(x, r), enc(r, x))
		}
		// r where the look-ahead loops meet it: WB6/WB7 (skipped or deciding), WB12, SB8 (scanned over or stopping), LB25
		out = append(out, enc('a', '\'', r, 'b'), enc('1', ',', r, '2'), enc('A', '.', ' ', r, ' ', 'a'), enc('$', '(', r, '1'))
		// r as the third code point of a cluster or word: after a variation selector, an emoji ZWJ, a flag, a quote
		out = append(out, enc('1', 0xFE0F, r), enc(0x1F600, 0x200D, r), enc(0x1F1E6, 0x1F1E6, r), enc('a', '\'', r))
		return out
	}
	nw := 16
	results := make([]stageResult, nw)
	done := make(chan int)
	for w := 0; w < nw; w++ {
		go func(w int) {
			res := &results[w]
			cache := map[rune][]uint64{}
			for i := w; i < len(cps); i += nw {
				r := cps[i]
				if len(ci.reps[sigOf(r)]) == 0 {
					// the lookups give r a class signature no code point had during the class scan: they depend on history
					res.add("probe "+hx(enc(r)), "a class signature unknown to the class scan", "the signature found by the class scan", fmt.Sprintf("the lookups of U+%04X changed since the class scan (they depend on earlier calls)", r))
					continue
				}
				rep := ci.reps[sigOf(r)][0]
				if rep == r {
					// the representative itself is compared with the next member of its signature, if there is one
					if all := ci.reps[sigOf(r)]; len(all) > 1 {
						rep = all[1]
					} else {
						continue
					}
				}
				want, ok := cache[rep]
				if !ok {
					for _, p := range probes(rep) {
						want = append(want, summarize(p, rep, nil))
					}
					cache[rep] = want
				}
				for k, p := range probes(r) {
					res.Evaluations++
					if summarize(p, r, nil) != want[k] {
						var va, vb []string
						summarize(p, r, &va)
						summarize(probes(rep)[k], rep, &vb)
						res.add("probe "+hx(p), fmt.Sprint(va), fmt.Sprint(vb), fmt.Sprintf("code point U+%04X vs representative U+%04X of the same class signature, probe %+q vs %+q", r, rep, string(p), string(probes(rep)[k])))
						break
					}
				}
			}
			done <- w
		}(w)
	}
	for w := 0; w < nw; w++ {
		<-done
	}
	for _, r := range results {
		s.Evaluations += r.Evaluations
		s.MismatchCount += r.MismatchCount
		for _, m := range r.Mismatches {
			if len(s.Mismatches) < 25 {
				s.Mismatches = append(s.Mismatches, m)
			}
		}
	}
	s.Samples = []string{fmt.Sprintf("%d code points x %d probes", len(cps), 9+2*len(ctx))}
	return s
}
