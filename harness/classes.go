package main

import (
	"encoding/json"
	"fmt"
	"os"
	"sort"

	u "github.com/rivo/uniseg"
)

// consts holds the package's constants by name, read from facts.json (regenerated from /repo).
var consts map[string]int64

type factsFile struct {
	Consts map[string]int64 `json:"consts"`
}

func loadFacts(path string) {
	data, err := os.ReadFile(path)
	if err != nil {
		fatal("facts: %v", err)
	}
	var f factsFile
	if err := json.Unmarshal(data, &f); err != nil {
		fatal("facts: %v", err)
	}
	consts = f.Consts
}

func c(name string) int {
	v, ok := consts[name]
	if !ok {
		fatal("constant %s not found in facts.json (renamed in /repo?)", name)
	}
	return int(v)
}

// sig is the class signature of a code point: everything any lookup of the package returns for it.
type sig struct {
	g, w, s, l, gc, ea, emoji, named int
}

// gcBucket keeps the general category only as far as the code looks at it (Mn, Mc, Cn, other).
func gcBucket(gc int) int {
	switch gc {
	case c("gcMn"), c("gcMc"), c("gcCn"):
		return gc
	}
	return 0
}

func sigOf(r rune) sig {
	l, gc := u.VerifPropertyLineBreak(r)
	w, _ := u.VerifProperty(1, r)
	s, _ := u.VerifProperty(2, r)
	m, _ := u.VerifProperty(5, r)
	named := 0
	switch r {
	case 0xFE0E, 0xFE0F, 0x2E3A, 0x2E3B, 0xFFFD:
		named = int(r)
	}
	return sig{g: u.VerifPropertyGraphemes(r), w: w, s: s, l: l, gc: gcBucket(gc), ea: u.VerifPropertyEastAsianWidth(r), emoji: m, named: named}
}

type classInfo struct {
	sigs     []sig            // distinct signatures in order of first appearance
	reps     map[sig][]rune   // up to 3 representatives per signature (first, a middle one, last)
	count    map[sig]int      // number of code points
	byG      map[int][]rune   // representatives by grapheme class
	byW      map[int][]rune
	byS      map[int][]rune
	byL      map[int][]rune   // by raw line class
	bounds   []rune           // every code point at which the signature changes, and its predecessor
	named    []rune           // individually named code points
}

var ci *classInfo

func isSurrogate(r rune) bool { return r >= 0xD800 && r <= 0xDFFF }

func scanClasses() *classInfo {
	x := &classInfo{reps: map[sig][]rune{}, count: map[sig]int{}, byG: map[int][]rune{}, byW: map[int][]rune{}, byS: map[int][]rune{}, byL: map[int][]rune{}}
	var prev sig
	last := map[sig]rune{}
	for r := rune(0); r <= 0x10FFFF; r++ {
		if isSurrogate(r) {
			continue
		}
		s := sigOf(r)
		if r == 0 || s != prev {
			x.bounds = append(x.bounds, r)
			if r > 0 && !isSurrogate(r-1) {
				x.bounds = append(x.bounds, r-1)
			}
		}
		prev = s
		if x.count[s] == 0 {
			x.sigs = append(x.sigs, s)
			x.reps[s] = []rune{r}
		} else if x.count[s] == 7 {
			x.reps[s] = append(x.reps[s], r)
		}
		x.count[s]++
		last[s] = r
	}
	for s, r := range last {
		if r != x.reps[s][len(x.reps[s])-1] {
			x.reps[s] = append(x.reps[s], r)
		}
	}
	add := func(m map[int][]rune, k int, rs []rune) {
		if len(m[k]) < 12 {
			m[k] = append(m[k], rs...)
		}
	}
	for _, s := range x.sigs {
		add(x.byG, s.g, x.reps[s])
		add(x.byW, s.w, x.reps[s])
		add(x.byS, s.s, x.reps[s])
		add(x.byL, s.l, x.reps[s])
	}
	x.named = []rune{0xFE0E, 0xFE0F, 0x2E3A, 0x2E3B, 0xFFFD, 0x0A, 0x0B, 0x0C, 0x0D, 0x85, 0x2028, 0x2029, 0x20, 0x7E, 0x7F, 0x1F, 0x80,
		'a', 'z', 'A', 'Z', '0', '9', 0x2F, 0x3A, 0x40, 0x5B, 0x60, 0x7B, 0xD7FF, 0xE000, 0x10FFFF, 0xFFFF, 0x10000}
	sort.Slice(x.bounds, func(i, j int) bool { return x.bounds[i] < x.bounds[j] })
	return x
}

func (x *classInfo) allReps() []rune {
	var res []rune
	seen := map[rune]bool{}
	for _, s := range x.sigs {
		for _, r := range x.reps[s] {
			if !seen[r] {
				seen[r] = true
				res = append(res, r)
			}
		}
	}
	for _, r := range x.named {
		if !seen[r] {
			seen[r] = true
			res = append(res, r)
		}
	}
	return res
}

// oneRepPerSig: the first representative of every signature (plus the named code points)
func (x *classInfo) oneRepPerSig() []rune {
	var res []rune
	seen := map[rune]bool{}
	for _, s := range x.sigs {
		r := x.reps[s][0]
		seen[r] = true
		res = append(res, r)
	}
	for _, r := range x.named {
		if !seen[r] {
			seen[r] = true
			res = append(res, r)
		}
	}
	return res
}

func fatal(format string, a ...interface{}) {
	fmt.Fprintf(os.Stderr, "harness: "+format+"\n", a...)
	os.Exit(3)
}
