import CertData
open LB
theorem shard0_closed : Cert.shard0.all (closedAt Cert.top) = true := by decide +kernel
