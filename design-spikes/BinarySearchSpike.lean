/-! Spike: model of propertySearch and "sorted table ⇒ binary search = interval lookup". -/
namespace BS

structure E where
  lo : Nat
  hi : Nat
  v : Nat
deriving Repr, DecidableEq

def E.has (e : E) (r : Nat) : Bool := e.lo ≤ r && r ≤ e.hi

/-- propertySearch: `for to > from { middle := (from+to)/2 … }`; `none` = the zero entry -/
def search (t : Array E) (r : Nat) (fr to : Nat) (hto : to ≤ t.size) : Option E :=
  if h : fr < to then
    let m := (fr + to) / 2
    have hm : m < t.size := by omega
    let e := t[m]
    if r < e.lo then search t r fr m (by omega)
    else if e.hi < r then search t r (m + 1) to hto
    else some e
  else none
termination_by to - fr

/-- interval semantics: the first entry whose range contains r -/
def lookup (t : Array E) (r : Nat) : Option E := t.toList.find? (·.has r)

/-- sortedness as used by the generator: ranges well-formed and strictly increasing, pairwise -/
structure Sorted (t : Array E) : Prop where
  wf : ∀ i (h : i < t.size), t[i].lo ≤ t[i].hi
  lt : ∀ i j (hi : i < t.size) (hj : j < t.size), i < j → t[i].hi < t[j].lo

theorem search_spec (t : Array E) (hs : Sorted t) (r fr to : Nat) (hto : to ≤ t.size)
    (hlo : ∀ i (h : i < t.size), i < fr → t[i].hi < r)
    (hhi : ∀ i (h : i < t.size), to ≤ i → r < t[i].lo) :
    (∀ e, search t r fr to hto = some e → ∃ i, ∃ h : i < t.size, t[i] = e ∧ e.has r = true ∧
        ∀ j (hj : j < t.size), j < i → t[j].has r = false) ∧
    (search t r fr to hto = none → ∀ i (h : i < t.size), t[i].has r = false) := by
  fun_induction search t r fr to hto with
  | case1 fr to hto h m hm e hlt ih =>
    apply ih hlo
    intro i hi hmi
    by_cases hmi' : i = m
    · subst hmi'; exact hlt
    · have := hs.lt m i hm hi (by omega)
      have := hs.wf m hm
      show r < t[i].lo
      have hlt' : r < t[m].lo := hlt
      omega
  | case2 fr to hto h m hm e hlt hgt ih =>
    apply ih _ hhi
    intro i hi him
    by_cases hmi' : i = m
    · subst hmi'; exact hgt
    · have := hs.lt i m hi hm (by omega)
      have := hs.wf m hm
      have hgt' : t[m].hi < r := hgt
      show t[i].hi < r
      omega
  | case3 fr to hto h m hm e hlt hgt =>
    refine ⟨?_, by intro hc; cases hc⟩
    intro e' he'
    cases he'
    refine ⟨m, hm, rfl, ?_, ?_⟩
    · simp [E.has]; constructor <;> (first | exact Nat.le_of_not_lt hlt | exact Nat.le_of_not_lt hgt)
    · intro j hj hjm
      have := hs.lt j m hj hm hjm
      have h1 : t[m].lo ≤ r := Nat.le_of_not_lt hlt
      simp [E.has]
      intro _
      omega
  | case4 fr to hto h =>
    refine ⟨(by intro e hc; cases hc), ?_⟩
    intro _ i hi
    simp [E.has]
    intro hlo'
    by_cases hif : i < fr
    · have := hlo i hi hif; omega
    · have := hhi i hi (by omega); omega
#print axioms search_spec
end BS
