import re,ast,bisect
def loadgo(f):
    rows=[]
    for l in open(f):
        m=re.match(r'\s*\{0x([0-9A-F]+),\s*0x([0-9A-F]+),\s*(\w+)(?:,\s*(\w+))?\}',l)
        if m: rows.append((int(m[1],16),int(m[2],16),m[3][2:],(m[4] or '')[2:]))
    return rows
class Tab:
    def __init__(s,rows): s.rows=rows; s.starts=[r[0] for r in rows]
    def get(s,c):
        i=bisect.bisect_right(s.starts,c)-1
        if i>=0 and s.rows[i][0]<=c<=s.rows[i][1]: return s.rows[i]
        return None
LB=Tab(loadgo('/repo/lineproperties.go')); EA=Tab(loadgo('/repo/eastasianwidth.go')); GR=Tab(loadgo('/repo/graphemeproperties.go'))
def lbchar(c):
    r=LB.get(c); cls,gc=(r[2],r[3]) if r else ('XX','')
    if cls in('AI','SG','XX'): cls='AL'
    elif cls=='SA': cls='CM' if gc in('Mn','Mc') else 'AL'
    elif cls=='CJ': cls='NS'
    e=EA.get(c); ea=e[2] if e else 'N'
    g=GR.get(c); ep=(g is not None and g[2]=='ExtendedPictographic')
    return (cls, ea in('F','W','H'), ep and gc=='Cn')
def vectors(f,var):
    out=[]
    for l in open(f):
        m=re.match(r'\s*\{original: "((?:[^"\\]|\\.)*)", expected: \[\]\[\]rune\{(.*)\}\},',l)
        if not m: continue
        s=ast.literal_eval('"'+m[1]+'"')
        groups=re.findall(r'\{([^{}]*)\}',m[2])
        exp=[[int(x,16) for x in g.split(',') if x.strip()] for g in groups]
        out.append((s,exp,l.split('//')[-1].strip()))
    return out
