# Executable reading of UAX #14 (Unicode 15.0.0) with the Example-7 numeric tailoring.
# classes are *resolved* (LB1 applied): no AI/SG/XX/SA/CJ.
# each char: (cls, eaFWH: bool, epcn: bool)   epcn = Extended_Pictographic & gc=Cn
HARD = ('BK','CR','LF','NL')
def verdicts(chars):
    """returns list v[1..n-1] (index i = position before chars[i]) with '!', '÷' or '×' ; v[0]=None"""
    n=len(chars); cls=[c[0] for c in chars]
    # LB9/LB10: effective units
    unit=[]      # list of dicts: cls, eaFWH, epcn, start index
    unit_of=[None]*n; attached=[False]*n
    for i in range(n):
        c=cls[i]
        if c in ('CM','ZWJ'):
            if i>0 and unit and cls[i-1] not in HARD+('SP','ZW') :
                # attach to previous unit (previous char is either a base not in the excluded set, or an attached CM, or an LB10-AL)
                attached[i]=True; unit_of[i]=len(unit)-1; continue
            unit.append(dict(cls='AL',ea=False,epcn=False,i=i)); unit_of[i]=len(unit)-1
        else:
            unit.append(dict(cls=c,ea=chars[i][1],epcn=chars[i][2],i=i)); unit_of[i]=len(unit)-1
    out=[None]*n
    for i in range(1,n):
        l=cls[i-1]; r=cls[i]
        # LB4, LB5
        if l=='BK': out[i]='!'; continue
        if l=='CR' and r=='LF': out[i]='×'; continue
        if l in ('CR','LF','NL'): out[i]='!'; continue
        # LB6
        if r in HARD: out[i]='×'; continue
        # LB7
        if r in ('SP','ZW'): out[i]='×'; continue
        # LB8: ZW SP* ÷
        j=i-1
        while j>=0 and cls[j]=='SP': j-=1
        if j>=0 and cls[j]=='ZW': out[i]='÷'; continue
        # LB8a
        if l=='ZWJ': out[i]='×'; continue
        # LB9
        if attached[i]: out[i]='×'; continue
        out[i]=unit_rule(unit, unit_of[i])
    return out

def unit_rule(U,k):
    """break verdict between unit k-1 and unit k (k>=1), rules LB11.."""
    L=U[k-1]['cls']; R=U[k]['cls']
    def before_spaces(k):   # index of last non-SP unit before unit k, or None
        j=k-1
        while j>=0 and U[j]['cls']=='SP': j-=1
        return j if j>=0 else None
    # LB11
    if R=='WJ' or L=='WJ': return '×'
    # LB12
    if L=='GL': return '×'
    # LB12a
    if R=='GL' and L not in ('SP','BA','HY'): return '×'
    # LB13 (tailored)
    if R=='EX': return '×'
    if R in ('CL','CP','IS','SY') and L!='NU': return '×'
    # LB14
    j=before_spaces(k)
    if j is not None and U[j]['cls']=='OP': return '×'
    # LB15
    if R=='OP' and j is not None and U[j]['cls']=='QU': return '×'
    # LB16
    if R=='NS' and j is not None and U[j]['cls'] in ('CL','CP'): return '×'
    # LB17
    if R=='B2' and j is not None and U[j]['cls']=='B2': return '×'
    # LB18
    if L=='SP': return '÷'
    # LB19
    if R=='QU' or L=='QU': return '×'
    # LB20
    if R=='CB' or L=='CB': return '÷'
    # LB21
    if R in ('BA','HY','NS') or L=='BB': return '×'
    # LB21a
    if k>=2 and U[k-2]['cls']=='HL' and L in ('HY','BA'): return '×'
    # LB21b
    if L=='SY' and R=='HL': return '×'
    # LB22
    if R=='IN': return '×'
    # LB23
    if L in ('AL','HL') and R=='NU': return '×'
    if L=='NU' and R in ('AL','HL'): return '×'
    # LB23a
    if L=='PR' and R in ('ID','EB','EM'): return '×'
    if L in ('ID','EB','EM') and R=='PO': return '×'
    # LB24
    if L in ('PR','PO') and R in ('AL','HL'): return '×'
    if L in ('AL','HL') and R in ('PR','PO'): return '×'
    # LB25 (Example 7 tailoring)
    nxt = U[k+1]['cls'] if k+1<len(U) else None
    if L in ('PR','PO') and (R=='NU' or (R in ('OP','HY') and nxt=='NU')): return '×'
    if L in ('OP','HY') and R=='NU': return '×'
    # NU (NU|SY|IS)* context
    def numrun(end):
        j=end; seen=False
        while j>=0 and U[j]['cls'] in ('NU','SY','IS'):
            if U[j]['cls']=='NU': seen=True
            j-=1
        # need the run (maximal suffix of NU|SY|IS) to contain a NU such that everything after it is NU|SY|IS: any NU in the run works
        return seen
    if numrun(k-1) and R in ('NU','SY','IS','CL','CP'): return '×'
    if R in ('PO','PR'):
        if numrun(k-1): return '×'
        if L in ('CL','CP') and numrun(k-2): return '×'
    # LB26
    if L=='JL' and R in ('JL','JV','H2','H3'): return '×'
    if L in ('JV','H2') and R in ('JV','JT'): return '×'
    if L in ('JT','H3') and R=='JT': return '×'
    # LB27
    if L in ('JL','JV','JT','H2','H3') and R=='PO': return '×'
    if L=='PR' and R in ('JL','JV','JT','H2','H3'): return '×'
    # LB28
    if L in ('AL','HL') and R in ('AL','HL'): return '×'
    # LB29
    if L=='IS' and R in ('AL','HL'): return '×'
    # LB30
    if L in ('AL','HL','NU') and R=='OP' and not U[k]['ea']: return '×'
    if L=='CP' and not U[k-1]['ea'] and R in ('AL','HL','NU'): return '×'
    # LB30a
    if L=='RI' and R=='RI':
        j=k-1; cnt=0
        while j>=0 and U[j]['cls']=='RI': cnt+=1; j-=1
        if cnt%2==1: return '×'
    # LB30b
    if L=='EB' and R=='EM': return '×'
    if U[k-1]['epcn'] and R=='EM': return '×'
    # LB31
    return '÷'
