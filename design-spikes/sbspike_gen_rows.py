import re
src=open('/repo/sentencerules.go').read()
m=re.search(r'const \(\n\tsbAny = iota(.*?)\n\)',src,re.S)
st=['sbAny']+[l.strip().split()[0] for l in m.group(1).strip().split('\n')]
S={n:i for i,n in enumerate(st)}
C={'prAny':0,'prCR':1,'prLF':2,'prExtend':3,'prSep':4,'prFormat':5,'prSp':6,'prLower':7,'prUpper':8,'prOLetter':9,'prNumeric':10,'prATerm':11,'prSContinue':12,'prSTerm':13,'prClose':14}
rows=re.findall(r'case (\w+) \| (\w+)<<32:\n\t\treturn (\w+), (\w+), (\d+)',src)
print(len(rows),st)
with open('Rows.lean','w') as f:
    f.write("namespace SB\n/-- sbTransitions, transcribed mechanically from sentencerules.go (class codes are the spike's own) -/\n")
    f.write('def sbT (state prop : Nat) : Option (Nat × Bool × Nat) :=\n  match state, prop with\n')
    for s,p,ns,b,r in rows:
        f.write(f'  | {S[s]}, {C[p]} => some ({S[ns]}, {b}, {r})\n')
    f.write('  | _, _ => none\nend SB\n')
