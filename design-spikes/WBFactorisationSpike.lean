/-! Spike: declarative WB1–WB999 reading (UAX #29, Unicode 15.0.0) and its factorisation through a finite summary. -/
namespace WBF

inductive C | other | cr | lf | newline | extend | zwj | ri | format | katakana | hebrew | aletter
  | singlequote | doublequote | midnumlet | midletter | midnum | numeric | extendnumlet | wsegspace | extpict
deriving DecidableEq, Repr
open C

def isIgn : C → Bool | extend | format | zwj => true | _ => false
def isNL : C → Bool | cr | lf | newline => true | _ => false
def isAHL : C → Bool | aletter | hebrew => true | _ => false
def isMidL : C → Bool | midletter | midnumlet | singlequote => true | _ => false   -- MidLetter | MidNumLetQ
def isMidN : C → Bool | midnum | midnumlet | singlequote => true | _ => false      -- MidNum | MidNumLetQ
def isWord13a : C → Bool | aletter | hebrew | numeric | katakana | extendnumlet => true | _ => false
def isWord13b : C → Bool | aletter | hebrew | numeric | katakana => true | _ => false
def opt (p : C → Bool) : Option C → Bool | some c => p c | none => false

/-! ## declarative reading; `left` is the reversed text before the position -/
/-- WB4: Extend/Format/ZWJ are absorbed by what precedes them, unless that is sot, CR, LF or Newline -/
def strip : List C → List C
  | [] => []
  | x :: xs => if isIgn x && (match xs with | [] => false | y :: _ => !isNL y) then strip xs else x :: strip xs
/-- the first code point after `r` that WB4 does not ignore (WB6, WB7b, WB12) -/
def nextNonIgn : List C → Option C
  | [] => none
  | x :: xs => if isIgn x then nextNonIgn xs else some x
def riRun : List C → Nat
  | ri :: xs => riRun xs + 1
  | _ => 0

def wbBreak (left right : List C) : Bool :=
  match left, right with
  | [], _ => true                                        -- WB1
  | _, [] => true                                        -- WB2
  | l :: ls, r :: rs =>
    if l == cr && r == lf then false                     -- WB3
    else if isNL l then true                             -- WB3a
    else if isNL r then true                             -- WB3b
    else if l == zwj && r == extpict then false          -- WB3c
    else if l == wsegspace && r == wsegspace then false  -- WB3d
    else if isIgn r then false                           -- WB4
    else
      let L := strip (l :: ls)
      let l0 := L.head?
      let l1 := L.tail.head?
      let nx := nextNonIgn rs
      if opt isAHL l0 && isAHL r then false                                   -- WB5
      else if opt isAHL l0 && isMidL r && opt isAHL nx then false             -- WB6
      else if opt isAHL l1 && opt isMidL l0 && isAHL r then false             -- WB7
      else if l0 == some hebrew && r == singlequote then false                -- WB7a
      else if l0 == some hebrew && r == doublequote && nx == some hebrew then false   -- WB7b
      else if l1 == some hebrew && l0 == some doublequote && r == hebrew then false   -- WB7c
      else if l0 == some numeric && r == numeric then false                   -- WB8
      else if opt isAHL l0 && r == numeric then false                         -- WB9
      else if l0 == some numeric && isAHL r then false                        -- WB10
      else if l1 == some numeric && opt isMidN l0 && r == numeric then false  -- WB11
      else if l0 == some numeric && isMidN r && nx == some numeric then false -- WB12
      else if l0 == some katakana && r == katakana then false                 -- WB13
      else if opt isWord13a l0 && r == extendnumlet then false                -- WB13a
      else if l0 == some extendnumlet && isWord13b r then false               -- WB13b
      else if l0 == some ri && r == ri && riRun L % 2 == 1 then false         -- WB15, WB16
      else true                                                               -- WB999

/-! ## summary automaton -/
structure Q where
  lastRaw : Option C
  l0 : Option C
  l1 : Option C
  riOdd : Bool
deriving DecidableEq, Repr
def q0 : Q := ⟨none, none, none, false⟩
def absorbed (q : Q) (c : C) : Bool := isIgn c && (match q.lastRaw with | none => false | some l => !isNL l)
def qstep (q : Q) (c : C) : Q :=
  if absorbed q c then { q with lastRaw := some c }
  else ⟨some c, some c, q.l0, if c == ri then !q.riOdd else false⟩
def summ : List C → Q
  | [] => q0
  | c :: cs => qstep (summ cs) c
def qout (q : Q) (r : C) (nx : Option C) : Bool :=
  match q.lastRaw with
  | none => true
  | some l =>
    if l == cr && r == lf then false
    else if isNL l then true
    else if isNL r then true
    else if l == zwj && r == extpict then false
    else if l == wsegspace && r == wsegspace then false
    else if isIgn r then false
    else
      let l0 := q.l0
      let l1 := q.l1
      if opt isAHL l0 && isAHL r then false
      else if opt isAHL l0 && isMidL r && opt isAHL nx then false
      else if opt isAHL l1 && opt isMidL l0 && isAHL r then false
      else if l0 == some hebrew && r == singlequote then false
      else if l0 == some hebrew && r == doublequote && nx == some hebrew then false
      else if l1 == some hebrew && l0 == some doublequote && r == hebrew then false
      else if l0 == some numeric && r == numeric then false
      else if opt isAHL l0 && r == numeric then false
      else if l0 == some numeric && isAHL r then false
      else if l1 == some numeric && opt isMidN l0 && r == numeric then false
      else if l0 == some numeric && isMidN r && nx == some numeric then false
      else if l0 == some katakana && r == katakana then false
      else if opt isWord13a l0 && r == extendnumlet then false
      else if l0 == some extendnumlet && isWord13b r then false
      else if l0 == some ri && r == ri && q.riOdd then false
      else true

theorem strip_cons (x : C) (xs : List C) :
    strip (x :: xs) = if isIgn x && (match xs.head? with | none => false | some y => !isNL y) then strip xs else x :: strip xs := by
  cases xs <;> simp [strip]

theorem parity (n : Nat) : (!(n % 2 == 1)) = ((n + 1) % 2 == 1) := by
  rcases Nat.mod_two_eq_zero_or_one n with h | h <;> simp [h, Nat.add_mod]

structure Inv (left : List C) : Prop where
  lastRaw : (summ left).lastRaw = left.head?
  l0 : (summ left).l0 = (strip left).head?
  l1 : (summ left).l1 = (strip left).tail.head?
  odd : (summ left).riOdd = (riRun (strip left) % 2 == 1)

theorem inv_all (left : List C) : Inv left := by
  induction left with
  | nil => constructor <;> rfl
  | cons x xs ih =>
    obtain ⟨h1, h2, h3, h4⟩ := ih
    have hs : summ (x :: xs) = qstep (summ xs) x := rfl
    by_cases hab : absorbed (summ xs) x = true
    · have hst : strip (x :: xs) = strip xs := by
        rw [strip_cons]; simp only [absorbed, h1] at hab; simp [hab]
      have hq : summ (x :: xs) = { summ xs with lastRaw := some x } := by rw [hs, qstep]; simp [hab]
      constructor
      · rw [hq]; rfl
      · rw [hq, hst]; exact h2
      · rw [hq, hst]; exact h3
      · rw [hq, hst]; exact h4
    · have hab' : absorbed (summ xs) x = false := by simpa using hab
      have hst : strip (x :: xs) = x :: strip xs := by
        rw [strip_cons]; simp only [absorbed, h1] at hab'; simp [hab']
      have hq : summ (x :: xs) = ⟨some x, some x, (summ xs).l0, if x == ri then !(summ xs).riOdd else false⟩ := by
        rw [hs, qstep]; simp [hab']
      constructor
      · rw [hq]; rfl
      · rw [hq, hst]; rfl
      · rw [hq, hst, h2]; rfl
      · rw [hq, hst, h4]
        cases x <;> simp [riRun, parity]

theorem wbBreak_factor (left : List C) (r : C) (rs : List C) :
    wbBreak left (r :: rs) = qout (summ left) r (nextNonIgn rs) := by
  cases left with
  | nil => rfl
  | cons l ls =>
    obtain ⟨h1, h2, h3, h4⟩ := inv_all (l :: ls)
    simp only [wbBreak, qout, h1, h2, h3, h4, List.head?_cons]
#print axioms wbBreak_factor
end WBF
