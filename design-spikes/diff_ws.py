import itertools,random,subprocess,collections,sys
from data import *; from wsspec import *
WB=Tab(loadgo('/repo/wordproperties.go')); SB=Tab(loadgo('/repo/sentenceproperties.go'))
def reps(tab,extra):
    r={}
    for a,b,cls,_ in tab.rows:
        if 0xD800<=a<=0xDFFF: continue
        r.setdefault(cls,a)
    r.update(extra)
    return r
def run(mode,seqs):
    inp='\n'.join(' '.join('%x'%c for c in s) for s in seqs)+'\n'
    return subprocess.run(['./seg',mode],input=inp.encode(),capture_output=True).stdout.decode().split('\n')
random.seed(2)
for mode,tab,brk,extra in (('sentence',SB,sb_break,{'XX':0x24,'FFFD':0xFFFD}),('word',WB,wb_break,{'XX':0x24,'ExtendedPictographic':0x231A,'ALetter':0x61})):
    R=reps(tab,extra); names=sorted(R)
    cl=lambda n: {'ExtendedPictographic':'ExtPict','FFFD':'XX'}.get(n,n)
    seqs=[list(t) for n in (2,3,4) for t in itertools.product(names,repeat=n)]
    seqs+=[[random.choice(names) for _ in range(random.randint(5,9))] for _ in range(200000)]
    out=run(mode,[[R[n] for n in s] for s in seqs])
    agg=collections.Counter(); ex={}
    for s,o in zip(seqs,out):
        c=[cl(n) for n in s]
        e=''.join('/' if brk(c[:i][::-1],c[i:]) else 'x' for i in range(1,len(c)))
        if e!=o:
            i=next(k for k in range(len(e)) if e[k]!=o[k])
            key=(e[i],o[i],tuple(s[max(0,i-2):i+2]))
            agg[key]+=1
            if key not in ex or len(s)<len(ex[key]): ex[key]=s
    print(mode,'classes',len(names),'seqs',len(seqs),'bad',sum(agg.values()),'families',len(agg))
    mins=collections.Counter()
    for k,s in ex.items(): mins[(k[0],k[1],tuple(s))]+=1
    shown=0
    for k in sorted(mins,key=lambda k:(len(k[2]),k[2])):
        if shown<45: print('   spec',k[0],'impl',k[1],' '.join(k[2])); shown+=1
