import LBRows
import Std.Data.HashSet
/-! Spike: UAX #14 product exploration (implementation automaton × spec summary automaton × look-ahead promise). -/
namespace LB
abbrev Letter := Nat × Bool × Bool     -- resolved class (Go pr* code), ea ∈ {F,W,H}, ExtPict ∧ Cn
def isCMZ (c : Nat) : Bool := c == prCM || c == prZWJ

/-! ### look-ahead summaries -/
structure Rho where
  i : Bool      -- Go: the rune right after r is NU
  s : Bool      -- spec: first unit after r's combining sequence is NU  ((CM|ZWJ)* NU)
deriving DecidableEq, Repr, BEq, Hashable
def rhoStep (x : Letter) (r : Rho) : Rho := ⟨x.1 == prNU, if isCMZ x.1 then r.s else x.1 == prNU⟩

/-! ### implementation model: transitionLineBreakState after LB1 (state none = -1) -/
def look (s : Option Nat) (p : Nat) : Option (Nat × Nat × Nat) := match s with | none => none | some s => lbT s p
def stIs (s : Option Nat) (v : Nat) : Bool := s == some v
def trans (state0 : Option Nat) (x : Letter) (nextNU : Bool) : Nat × Nat :=
  let p := x.1
  let isCPea := match state0 with | some s => s &&& 128 != 0 | none => false
  let state1 := state0.map (· &&& (255 - 128))
  let force := match state1 with | some s => s &&& 64 != 0 | none => false
  let state := state1.map (· &&& (255 - 64))
  let fin (r : Nat × Nat) : Nat × Nat :=
    let base := r.1 &&& (255 - 64)
    let ns := if base == lbCP || base == lbNUCP then
                (if p == prCP then (if !x.2.1 then r.1 ||| 128 else r.1) else if isCPea then r.1 ||| 128 else r.1)
              else r.1
    (ns, if force then 0 else r.2)
  if isCMZ p then
    let bit := if p == prZWJ then 64 else 0
    let must := state.isNone || stIs state lbBK || stIs state lbCR || stIs state lbLF || stIs state lbNL
    if !must && !stIs state lbSP && !stIs state lbZW && !stIs state lbOPSP && !stIs state lbQUSP && !stIs state lbCLCPSP && !stIs state lbB2SP then
      fin ((state.getD 0) ||| bit, 0)
    else if must then fin (lbAL ||| bit, 2) else if stIs state lbOPSP then fin (lbAL ||| bit, 0) else fin (lbAL ||| bit, 1)
  else
    let (ns, lb, rule) : Nat × Nat × Nat :=
      match look state p with
      | some t => t
      | none =>
        match look state prAny, lbT lbAny p with
        | some (_, ab, ar), some (ss, sb, sr) => if ar < sr then (ss, ab, ar) else (ss, sb, sr)
        | some t, none => t
        | none, some t => t
        | none, none => (lbAny, 1, 310)
    if rule > 121 && p == prGL && !stIs state lbSP && !stIs state lbBA && !stIs state lbHY && !stIs state lbLB21a && !stIs state lbQUSP && !stIs state lbCLCPSP && !stIs state lbB2SP then fin (lbGL, 0)
    else if rule > 130 && !stIs state lbNU && !stIs state lbNUNU && !stIs state lbNUSY && !stIs state lbNUIS && (p == prCL || p == prCP || p == prIS || p == prSY) then
      fin (if p == prCL then lbCL else if p == prCP then lbCP else if p == prIS then lbIS else lbSY, 0)
    else if (rule > 250 && (stIs state lbPR || stIs state lbPO) && (p == prOP || p == prHY)) && nextNU then fin (lbNU, 0)
    else if rule > 300 && (stIs state lbAL || stIs state lbHL || stIs state lbNU || stIs state lbNUNU) && p == prOP && !x.2.1 then fin (lbOP, 0)
    else if rule > 300 && !((stIs state lbAL || stIs state lbHL || stIs state lbNU || stIs state lbNUNU) && p == prOP) && isCPea && (p == prAL || p == prHL || p == prNU) then
      fin (if p == prAL then lbAL else if p == prHL then lbHL else lbNU, 0)
    else if ns == lbAny && p == prRI then
      if !stIs state lbOddRI && !stIs state lbEvenRI then fin (lbOddRI, lb)
      else if stIs state lbOddRI then fin (lbEvenRI, 0) else fin (lbOddRI, lb)
    else if rule > 302 && p == prEM && (stIs state lbEB || stIs state lbExtPicCn) then fin (lbIDEM, 0)
    else fin (if ns == lbIDEM && x.2.2 then lbExtPicCn else ns, lb)

/-! ### spec summary automaton (UAX #14 rules LB4–LB31, Example 7 tailoring) -/
inductive Num | none | run | closed
deriving DecidableEq, Repr, BEq, Hashable
structure Q where
  lastRaw : Option Nat     -- class of the previous code point (raw, i.e. CM/ZWJ visible)
  zwsp : Bool              -- raw left context matches ZW SP*
  u0 : Nat                 -- class of the last unit after LB9/LB10 (meaningful iff lastRaw ≠ none)
  u0ea : Bool
  u0ep : Bool
  u1hl : Bool              -- the unit before the last one is HL
  nsp : Nat                -- class of the last non-SP unit (0 = none)
  num : Num                -- units end with NU (NU|SY|IS)*  /  … (CL|CP)
  odd : Bool               -- odd number of RI units at the end
deriving DecidableEq, Repr, BEq, Hashable
def q0 : Q := ⟨none, false, 0, false, false, false, 0, .none, false⟩
def hard (c : Nat) : Bool := c == prBK || c == prCR || c == prLF || c == prNL
def attaches (q : Q) : Bool := match q.lastRaw with | none => false | some l => !(hard l || l == prSP || l == prZW)
def qstep (q : Q) (x : Letter) : Q :=
  let c := x.1
  if isCMZ c && attaches q then { q with lastRaw := some c }
  else
    let c' := if isCMZ c then prAL else c
    let ea := if isCMZ c then false else x.2.1
    let ep := if isCMZ c then false else x.2.2
    { lastRaw := some c
      zwsp := c == prZW || (c == prSP && q.zwsp)
      u0 := c', u0ea := ea, u0ep := ep
      u1hl := q.lastRaw.isSome && q.u0 == prHL
      nsp := if c' == prSP then q.nsp else c'
      num := if c' == prNU then .run
             else if c' == prSY || c' == prIS then (if q.num == .run then .run else .none)
             else if c' == prCL || c' == prCP then (if q.num == .run then .closed else .none)
             else .none
      odd := if c' == prRI then !q.odd else false }
/-- 0 = ×, 1 = ÷, 2 = ! ; position before letter x, `nextNU` = spec look-ahead summary of the text after x -/
def qout (q : Q) (x : Letter) (nextNU : Bool) : Nat :=
  match q.lastRaw with
  | none => 0
  | some l =>
    let r := x.1
    if l == prBK then 2
    else if l == prCR && r == prLF then 0
    else if l == prCR || l == prLF || l == prNL then 2
    else if hard r then 0
    else if r == prSP || r == prZW then 0
    else if q.zwsp then 1
    else if l == prZWJ then 0
    else if isCMZ r && attaches q then 0
    else
      let L := q.u0
      let R := if isCMZ r then prAL else r
      let Rea := if isCMZ r then false else x.2.1
      let bs := q.nsp   -- last non-SP unit
      if R == prWJ || L == prWJ then 0
      else if L == prGL then 0
      else if R == prGL && !(L == prSP || L == prBA || L == prHY) then 0
      else if R == prEX then 0
      else if (R == prCL || R == prCP || R == prIS || R == prSY) && L != prNU then 0
      else if bs == prOP then 0
      else if R == prOP && bs == prQU then 0
      else if R == prNS && (bs == prCL || bs == prCP) then 0
      else if R == prB2 && bs == prB2 then 0
      else if L == prSP then 1
      else if R == prQU || L == prQU then 0
      else if R == prCB || L == prCB then 1
      else if R == prBA || R == prHY || R == prNS || L == prBB then 0
      else if q.u1hl && (L == prHY || L == prBA) then 0
      else if L == prSY && R == prHL then 0
      else if R == prIN then 0
      else if (L == prAL || L == prHL) && R == prNU then 0
      else if L == prNU && (R == prAL || R == prHL) then 0
      else if L == prPR && (R == prID || R == prEB || R == prEM) then 0
      else if (L == prID || L == prEB || L == prEM) && R == prPO then 0
      else if (L == prPR || L == prPO) && (R == prAL || R == prHL) then 0
      else if (L == prAL || L == prHL) && (R == prPR || R == prPO) then 0
      else if (L == prPR || L == prPO) && (R == prNU || ((R == prOP || R == prHY) && nextNU)) then 0
      else if (L == prOP || L == prHY) && R == prNU then 0
      else if q.num == .run && (R == prNU || R == prSY || R == prIS || R == prCL || R == prCP) then 0
      else if (q.num == .run || q.num == .closed) && (R == prPO || R == prPR) then 0
      else if L == prJL && (R == prJL || R == prJV || R == prH2 || R == prH3) then 0
      else if (L == prJV || L == prH2) && (R == prJV || R == prJT) then 0
      else if (L == prJT || L == prH3) && R == prJT then 0
      else if (L == prJL || L == prJV || L == prJT || L == prH2 || L == prH3) && R == prPO then 0
      else if L == prPR && (R == prJL || R == prJV || R == prJT || R == prH2 || R == prH3) then 0
      else if (L == prAL || L == prHL) && (R == prAL || R == prHL) then 0
      else if L == prIS && (R == prAL || R == prHL) then 0
      else if (L == prAL || L == prHL || L == prNU) && R == prOP && !Rea then 0
      else if L == prCP && !q.u0ea && (R == prAL || R == prHL || R == prNU) then 0
      else if L == prRI && R == prRI && q.odd then 0
      else if L == prEB && R == prEM then 0
      else if q.u0ep && R == prEM then 0
      else 1

/-! ### product exploration -/
structure P where
  s : Option Nat
  q : Q
  rho : Rho
deriving DecidableEq, Repr, BEq, Hashable
def rhos : List Rho := [⟨false,false⟩,⟨false,true⟩,⟨true,true⟩]   -- i ⇒ s
structure Bad where
  p : P
  x : Letter
  r' : Rho
  impl : Nat
  spec : Nat
deriving Repr
def succs (p : P) : List (Letter × Rho × P × Nat × Nat) :=
  letters.flatMap fun x => rhos.filterMap fun r' =>
    if rhoStep x r' == p.rho then
      let t := trans p.s x r'.s
      some (x, r', ⟨some t.1, qstep p.q x, r'⟩, t.2, qout p.q x r'.s)
    else none
partial def bfs (todo : List P) (seen : Std.HashSet P) (bad : List Bad) (n : Nat) : Std.HashSet P × List Bad × Nat :=
  match todo with
  | [] => (seen, bad, n)
  | p :: rest =>
    let ss := succs p
    let bad' := ss.foldl (fun b (x, r', _, oi, os) => if p.q.lastRaw.isSome && oi != os then ⟨p, x, r', oi, os⟩ :: b else b) bad
    let (seen', new) := ss.foldl (fun (acc : Std.HashSet P × List P) (_, _, p', _, _) =>
      if acc.1.contains p' then acc else (acc.1.insert p', p' :: acc.2)) (seen, [])
    bfs (new ++ rest) seen' bad' (n + ss.length)
def start : List P := rhos.map fun r => ⟨none, q0, r⟩
def explore := bfs start (Std.HashSet.ofList start) [] 0

def Num.toNat : Num → Nat | .none => 0 | .run => 1 | .closed => 2
def keyOf (p : P) : Nat :=
  let a := match p.s with | none => 256 | some v => v
  let b := match p.q.lastRaw with | none => 85 | some v => v
  let f (x : Bool) : Nat := if x then 1 else 0
  (((((((((((a * 86 + b) * 2 + f p.q.zwsp) * 85 + p.q.u0) * 2 + f p.q.u0ea) * 2 + f p.q.u0ep) * 2 + f p.q.u1hl) * 85 + p.q.nsp) * 3
    + p.q.num.toNat) * 2 + f p.q.odd) * 2 + f p.rho.i) * 2 + f p.rho.s)

/-- certificate: search tree keyed by `keyOf`, nodes carry the triple itself -/
inductive T | leaf | node (l : T) (k : Nat) (p : P) (r : T)

noncomputable def T.lookup (t : T) : Nat → Option P :=
  T.rec (motive := fun _ => Nat → Option P) (fun _ => none)
    (fun _ k p _ ihl ihr key => cond (Nat.blt key k) (ihl key) (cond (Nat.blt k key) (ihr key) (some p))) t
noncomputable def T.all (t : T) (f : P → Bool) : Bool :=
  T.rec (motive := fun _ => Bool) true (fun _ _ p _ ihl ihr => f p && ihl && ihr) t
noncomputable def allL {α} (l : List α) (f : α → Bool) : Bool := List.rec (motive := fun _ => Bool) true (fun a _ ih => f a && ih) l

/-- closure of the certificate at one triple -/
noncomputable def closedAt (top : T) (p : P) : Bool :=
  allL letters fun x => allL rhos fun r' =>
    !(rhoStep x r' == p.rho) ||
      (let t := trans p.s x r'.s
       let succ : P := ⟨some t.1, qstep p.q x, r'⟩
       (top.lookup (keyOf succ) == some succ) && (p.q.lastRaw.isNone || t.2 == qout p.q x r'.s))
end LB
