import sys
sys.path.insert(0,'/verif/design-spikes')
from data import *
vs=vectors('/repo/linebreak_test.go',None)
with open('lbvec.txt','w') as f:
    for s,exp,cm in vs:
        cps=[ord(ch) for ch in s]
        # expected verdict per position: break positions from groups (cannot distinguish ÷ from ! in the repo's vectors; mark 'b')
        ends=set(); n=0
        for g in exp[:-1]:
            n+=len(g); ends.add(n)
        exps=''.join('b' if i in ends else 'x' for i in range(1,len(cps)))
        f.write(' '.join('%s,%d,%d'%(c,int(e),int(p)) for c,e,p in map(lbchar,cps))+'|'+exps+'\n')
print(len(vs))
