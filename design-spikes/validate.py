from data import *; from lbspec import verdicts
vs=vectors('/repo/linebreak_test.go','lineBreakTestCases')
bad=0
for s,exp,cm in vs:
    cps=[ord(ch) for ch in s]
    v=verdicts([lbchar(c) for c in cps])
    got=[]; cur=[cps[0]]
    for i in range(1,len(cps)):
        if v[i]!='×': got.append(cur); cur=[]
        cur.append(cps[i])
    got.append(cur)
    if got!=exp:
        bad+=1
        if bad<=15: print('MISMATCH',[hex(c) for c in cps],'got',got,'exp',exp,'\n   ',cm[:300])
print('vectors',len(vs),'mismatches',bad)
