from data import *; from wsspec import *
WB=Tab(loadgo('/repo/wordproperties.go')); SB=Tab(loadgo('/repo/sentenceproperties.go'))
import re
def cls_from_comment(cm):
    return re.findall(r'\(([A-Za-z_]+)\)',cm)
def norm(c):
    return {'ExtPict':'ExtPict','Other':'XX','ZWJ_FE':'ZWJ','Extend_FE':'Extend','Format_FE':'Format','Double_Quote':'DoubleQuote','Single_Quote':'SingleQuote','Hebrew_Letter':'HebrewLetter','RI':'RegionalIndicator'}.get(c,c)
for name,f,brk in (('word','/repo/wordbreak_test.go',wb_break),('sentence','/repo/sentencebreak_test.go',sb_break)):
    vs=vectors(f,None); bad=0
    for s,exp,cm in vs:
        cps=[ord(ch) for ch in s]
        cl=[norm(c) for c in cls_from_comment(cm)]
        # comments may contain names with parens like <CARRIAGE RETURN (CR)> (CR): filter by count
        if len(cl)!=len(cps):
            cl=[norm(c) for c in re.findall(r'\(([A-Za-z_]+)\) [÷×]',cm)]
        assert len(cl)==len(cps),(cm,cl)
        got=[]; cur=[cps[0]]
        for i in range(1,len(cps)):
            if brk(cl[:i][::-1],cl[i:]): got.append(cur); cur=[]
            cur.append(cps[i])
        got.append(cur)
        if got!=exp:
            bad+=1
            if bad<=10: print('MISMATCH',name,cl,'got',got,'exp',exp)
    print(name,'vectors',len(vs),'mismatches',bad)
