namespace LB
abbrev lbAny : Nat := 0
abbrev lbBK : Nat := 1
abbrev lbCR : Nat := 2
abbrev lbLF : Nat := 3
abbrev lbNL : Nat := 4
abbrev lbSP : Nat := 5
abbrev lbZW : Nat := 6
abbrev lbWJ : Nat := 7
abbrev lbGL : Nat := 8
abbrev lbBA : Nat := 9
abbrev lbHY : Nat := 10
abbrev lbCL : Nat := 11
abbrev lbCP : Nat := 12
abbrev lbEX : Nat := 13
abbrev lbIS : Nat := 14
abbrev lbSY : Nat := 15
abbrev lbOP : Nat := 16
abbrev lbOPSP : Nat := 17
abbrev lbQU : Nat := 18
abbrev lbQUSP : Nat := 19
abbrev lbNS : Nat := 20
abbrev lbCLCPSP : Nat := 21
abbrev lbB2 : Nat := 22
abbrev lbB2SP : Nat := 23
abbrev lbCB : Nat := 24
abbrev lbBB : Nat := 25
abbrev lbLB21a : Nat := 26
abbrev lbHL : Nat := 27
abbrev lbAL : Nat := 28
abbrev lbNU : Nat := 29
abbrev lbPR : Nat := 30
abbrev lbEB : Nat := 31
abbrev lbIDEM : Nat := 32
abbrev lbNUNU : Nat := 33
abbrev lbNUSY : Nat := 34
abbrev lbNUIS : Nat := 35
abbrev lbNUCL : Nat := 36
abbrev lbNUCP : Nat := 37
abbrev lbPO : Nat := 38
abbrev lbJL : Nat := 39
abbrev lbJV : Nat := 40
abbrev lbJT : Nat := 41
abbrev lbH2 : Nat := 42
abbrev lbH3 : Nat := 43
abbrev lbOddRI : Nat := 44
abbrev lbEvenRI : Nat := 45
abbrev lbExtPicCn : Nat := 46
abbrev prAny : Nat := 1
abbrev prCM : Nat := 38
abbrev prBA : Nat := 39
abbrev prBK : Nat := 40
abbrev prSP : Nat := 41
abbrev prEX : Nat := 42
abbrev prQU : Nat := 43
abbrev prAL : Nat := 44
abbrev prPR : Nat := 45
abbrev prPO : Nat := 46
abbrev prOP : Nat := 47
abbrev prCP : Nat := 48
abbrev prIS : Nat := 49
abbrev prHY : Nat := 50
abbrev prSY : Nat := 51
abbrev prNU : Nat := 52
abbrev prCL : Nat := 53
abbrev prNL : Nat := 54
abbrev prGL : Nat := 55
abbrev prBB : Nat := 57
abbrev prHL : Nat := 58
abbrev prJL : Nat := 60
abbrev prJV : Nat := 61
abbrev prJT : Nat := 62
abbrev prNS : Nat := 63
abbrev prZW : Nat := 64
abbrev prB2 : Nat := 65
abbrev prIN : Nat := 66
abbrev prWJ : Nat := 67
abbrev prID : Nat := 68
abbrev prEB : Nat := 69
abbrev prH2 : Nat := 71
abbrev prH3 : Nat := 72
abbrev prCB : Nat := 74
abbrev prRI : Nat := 75
abbrev prEM : Nat := 76
abbrev prCR : Nat := 3
abbrev prLF : Nat := 4
abbrev prZWJ : Nat := 14
def lbT (state prop : Nat) : Option (Nat × Nat × Nat) :=
  match state with
  | 1 => (match prop with
      | 1 => some (0, 2, 40)
      | _ => none)
  | 2 => (match prop with
      | 4 => some (3, 0, 50)
      | 1 => some (0, 2, 50)
      | _ => none)
  | 3 => (match prop with
      | 1 => some (0, 2, 50)
      | _ => none)
  | 4 => (match prop with
      | 1 => some (0, 2, 50)
      | _ => none)
  | 0 => (match prop with
      | 40 => some (1, 0, 60)
      | 3 => some (2, 0, 60)
      | 4 => some (3, 0, 60)
      | 54 => some (4, 0, 60)
      | 41 => some (5, 0, 70)
      | 64 => some (6, 0, 70)
      | 67 => some (7, 0, 110)
      | 55 => some (8, 1, 310)
      | 53 => some (11, 1, 310)
      | 48 => some (12, 1, 310)
      | 42 => some (13, 0, 130)
      | 49 => some (14, 1, 310)
      | 51 => some (15, 1, 310)
      | 47 => some (16, 1, 310)
      | 65 => some (22, 1, 310)
      | 43 => some (18, 0, 190)
      | 74 => some (24, 1, 200)
      | 39 => some (9, 0, 210)
      | 50 => some (10, 0, 210)
      | 63 => some (20, 0, 210)
      | 57 => some (25, 1, 310)
      | 58 => some (27, 1, 310)
      | 66 => some (0, 0, 220)
      | 44 => some (28, 1, 310)
      | 52 => some (29, 1, 310)
      | 45 => some (30, 1, 310)
      | 68 => some (32, 1, 310)
      | 69 => some (31, 1, 310)
      | 76 => some (32, 1, 310)
      | 46 => some (38, 1, 310)
      | 60 => some (39, 1, 310)
      | 61 => some (40, 1, 310)
      | 62 => some (41, 1, 310)
      | 71 => some (42, 1, 310)
      | 72 => some (43, 1, 310)
      | _ => none)
  | 6 => (match prop with
      | 41 => some (6, 0, 70)
      | 1 => some (0, 1, 80)
      | _ => none)
  | 7 => (match prop with
      | 1 => some (0, 0, 110)
      | _ => none)
  | 8 => (match prop with
      | 1 => some (0, 0, 120)
      | _ => none)
  | 16 => (match prop with
      | 41 => some (17, 0, 70)
      | 1 => some (0, 0, 140)
      | 52 => some (29, 0, 250)
      | _ => none)
  | 17 => (match prop with
      | 41 => some (17, 0, 70)
      | 1 => some (0, 0, 140)
      | _ => none)
  | 18 => (match prop with
      | 41 => some (19, 0, 70)
      | 47 => some (16, 0, 150)
      | 1 => some (0, 0, 190)
      | _ => none)
  | 19 => (match prop with
      | 41 => some (19, 0, 70)
      | 47 => some (16, 0, 150)
      | 1 => some (0, 1, 180)
      | _ => none)
  | 11 => (match prop with
      | 41 => some (21, 0, 70)
      | 63 => some (20, 0, 160)
      | _ => none)
  | 36 => (match prop with
      | 41 => some (21, 0, 70)
      | 63 => some (20, 0, 160)
      | 46 => some (38, 0, 250)
      | 45 => some (30, 0, 250)
      | _ => none)
  | 12 => (match prop with
      | 41 => some (21, 0, 70)
      | 63 => some (20, 0, 160)
      | _ => none)
  | 37 => (match prop with
      | 41 => some (21, 0, 70)
      | 63 => some (20, 0, 160)
      | 46 => some (38, 0, 250)
      | 45 => some (30, 0, 250)
      | _ => none)
  | 21 => (match prop with
      | 41 => some (21, 0, 70)
      | 63 => some (20, 0, 160)
      | 1 => some (0, 1, 180)
      | _ => none)
  | 22 => (match prop with
      | 41 => some (23, 0, 70)
      | 65 => some (22, 0, 170)
      | _ => none)
  | 23 => (match prop with
      | 41 => some (23, 0, 70)
      | 65 => some (22, 0, 170)
      | 1 => some (0, 1, 180)
      | _ => none)
  | 5 => (match prop with
      | 1 => some (0, 1, 180)
      | _ => none)
  | 24 => (match prop with
      | 1 => some (0, 1, 200)
      | _ => none)
  | 25 => (match prop with
      | 1 => some (0, 0, 210)
      | _ => none)
  | 27 => (match prop with
      | 50 => some (26, 0, 210)
      | 39 => some (26, 0, 210)
      | 52 => some (29, 0, 230)
      | 45 => some (30, 0, 240)
      | 46 => some (38, 0, 240)
      | 44 => some (28, 0, 280)
      | 58 => some (27, 0, 280)
      | _ => none)
  | 26 => (match prop with
      | 1 => some (0, 0, 211)
      | _ => none)
  | 15 => (match prop with
      | 58 => some (27, 0, 212)
      | _ => none)
  | 34 => (match prop with
      | 58 => some (27, 0, 212)
      | 52 => some (33, 0, 250)
      | 51 => some (34, 0, 250)
      | 49 => some (35, 0, 250)
      | 53 => some (36, 0, 250)
      | 48 => some (37, 0, 250)
      | 46 => some (38, 0, 250)
      | 45 => some (30, 0, 250)
      | _ => none)
  | 28 => (match prop with
      | 52 => some (29, 0, 230)
      | 45 => some (30, 0, 240)
      | 46 => some (38, 0, 240)
      | 44 => some (28, 0, 280)
      | 58 => some (27, 0, 280)
      | _ => none)
  | 29 => (match prop with
      | 44 => some (28, 0, 230)
      | 58 => some (27, 0, 230)
      | 52 => some (33, 0, 250)
      | 51 => some (34, 0, 250)
      | 49 => some (35, 0, 250)
      | 53 => some (36, 0, 250)
      | 48 => some (37, 0, 250)
      | 46 => some (38, 0, 250)
      | 45 => some (30, 0, 250)
      | _ => none)
  | 33 => (match prop with
      | 44 => some (28, 0, 230)
      | 58 => some (27, 0, 230)
      | 52 => some (33, 0, 250)
      | 51 => some (34, 0, 250)
      | 49 => some (35, 0, 250)
      | 53 => some (36, 0, 250)
      | 48 => some (37, 0, 250)
      | 46 => some (38, 0, 250)
      | 45 => some (30, 0, 250)
      | _ => none)
  | 30 => (match prop with
      | 68 => some (32, 0, 231)
      | 69 => some (31, 0, 231)
      | 76 => some (32, 0, 231)
      | 44 => some (28, 0, 240)
      | 58 => some (27, 0, 240)
      | 52 => some (29, 0, 250)
      | 60 => some (39, 0, 270)
      | 61 => some (40, 0, 270)
      | 62 => some (41, 0, 270)
      | 71 => some (42, 0, 270)
      | 72 => some (43, 0, 270)
      | _ => none)
  | 32 => (match prop with
      | 46 => some (38, 0, 231)
      | _ => none)
  | 31 => (match prop with
      | 46 => some (38, 0, 231)
      | _ => none)
  | 46 => (match prop with
      | 46 => some (38, 0, 231)
      | _ => none)
  | 38 => (match prop with
      | 44 => some (28, 0, 240)
      | 58 => some (27, 0, 240)
      | 52 => some (29, 0, 250)
      | _ => none)
  | 10 => (match prop with
      | 52 => some (29, 0, 250)
      | _ => none)
  | 35 => (match prop with
      | 52 => some (33, 0, 250)
      | 51 => some (34, 0, 250)
      | 49 => some (35, 0, 250)
      | 53 => some (36, 0, 250)
      | 48 => some (37, 0, 250)
      | 46 => some (38, 0, 250)
      | 45 => some (30, 0, 250)
      | 44 => some (28, 0, 290)
      | 58 => some (27, 0, 290)
      | _ => none)
  | 39 => (match prop with
      | 60 => some (39, 0, 260)
      | 61 => some (40, 0, 260)
      | 71 => some (42, 0, 260)
      | 72 => some (43, 0, 260)
      | 46 => some (38, 0, 270)
      | _ => none)
  | 40 => (match prop with
      | 61 => some (40, 0, 260)
      | 62 => some (41, 0, 260)
      | 46 => some (38, 0, 270)
      | _ => none)
  | 42 => (match prop with
      | 61 => some (40, 0, 260)
      | 62 => some (41, 0, 260)
      | 46 => some (38, 0, 270)
      | _ => none)
  | 41 => (match prop with
      | 62 => some (41, 0, 260)
      | 46 => some (38, 0, 270)
      | _ => none)
  | 43 => (match prop with
      | 62 => some (41, 0, 260)
      | 46 => some (38, 0, 270)
      | _ => none)
  | 14 => (match prop with
      | 44 => some (28, 0, 290)
      | 58 => some (27, 0, 290)
      | _ => none)
  | _ => none

/-- (resolved class, ea in {F,W,H}, Extended_Pictographic ∧ Cn): every combination that exists among the 1,112,064 scalar values -/
def letters : List (Nat × Bool × Bool) := [
  (44, false, false),
  (44, true, false),
  (65, false, false),
  (39, false, false),
  (39, true, false),
  (57, false, false),
  (40, false, false),
  (74, false, false),
  (53, false, false),
  (53, true, false),
  (38, false, false),
  (38, true, false),
  (48, false, false),
  (3, false, false),
  (69, false, false),
  (69, true, false),
  (76, true, false),
  (42, false, false),
  (42, true, false),
  (55, false, false),
  (55, true, false),
  (71, true, false),
  (72, true, false),
  (58, false, false),
  (50, false, false),
  (68, false, false),
  (68, false, true),
  (68, true, false),
  (66, false, false),
  (66, true, false),
  (49, false, false),
  (49, true, false),
  (60, true, false),
  (62, false, false),
  (61, false, false),
  (4, false, false),
  (54, false, false),
  (63, false, false),
  (63, true, false),
  (52, false, false),
  (47, false, false),
  (47, true, false),
  (46, false, false),
  (46, true, false),
  (45, false, false),
  (45, true, false),
  (43, false, false),
  (75, false, false),
  (41, false, false),
  (51, false, false),
  (67, false, false),
  (64, false, false),
  (14, false, false)]
end LB
