import re,sys
sys.path.insert(0,'/verif/design-spikes')
from data import *
src=open('/repo/linerules.go').read()
m=re.search(r'const \(\n\tlbAny = iota(.*?)\n\)',src,re.S)
names=['lbAny']+[l.strip().split()[0] for l in m.group(1).strip().split('\n')]
consts={n:i for i,n in enumerate(names)}
consts['lbZWJBit']=64; consts['lbCPeaFWHBit']=128
consts.update({'LineDontBreak':0,'LineCanBreak':1,'LineMustBreak':2})
psrc=open('/repo/properties.go').read()
m=re.search(r'const \(\n\tprXX      = 0.*?\n(.*?)\n\)',psrc,re.S)
pn=['prXX','prAny']+[l.strip().split()[0] for l in m.group(1).strip().split('\n')[1:]]
for i,n in enumerate(pn): consts[n]=i
rows=re.findall(r'case (\w+) \| (\w+)<<32:\n\t\treturn (\w+), (\w+), (\d+)',src)
by={}
for s,p,ns,lb,rule in rows: by.setdefault(consts[s],[]).append((consts[p],consts[ns],consts[lb],int(rule)))
with open('LBRows.lean','w') as f:
    f.write('namespace LB\n')
    for n in names:
        if n.startswith('lb') and 'Bit' not in n: f.write(f'abbrev {n} : Nat := {consts[n]}\n')
    used=['prAny','prCM','prBA','prBK','prSP','prEX','prQU','prAL','prPR','prPO','prOP','prCP','prIS','prHY','prSY','prNU','prCL','prNL','prGL','prBB','prHL','prJL','prJV','prJT','prNS','prZW','prB2','prIN','prWJ','prID','prEB','prH2','prH3','prCB','prRI','prEM','prCR','prLF','prZWJ']
    for n in used: f.write(f'abbrev {n} : Nat := {consts[n]}\n')
    f.write('def lbT (state prop : Nat) : Option (Nat × Nat × Nat) :=\n  match state with\n')
    for s,lst in by.items():
        f.write(f'  | {s} => (match prop with\n')
        for p,ns,lb,rule in lst: f.write(f'      | {p} => some ({ns}, {lb}, {rule})\n')
        f.write('      | _ => none)\n')
    f.write('  | _ => none\n\n')
    # letters: (resolved class code, eaFWH, epcn) signatures present in the tables
    sig=set()
    for a,b,cls,gc in LB.rows:
        # sample: range ends plus every EA/GR boundary inside would be exact; ends suffice for a spike
        for c in (a,b):
            if 0xD800<=c<=0xDFFF: continue
            sig.add(lbchar(c))
    # exact: walk all code points (slow but exact)
    sig=set()
    for c in range(0x110000):
        if 0xD800<=c<=0xDFFF: continue
        sig.add(lbchar(c))
    sig=sorted(sig)
    f.write('/-- (resolved class, ea in {F,W,H}, Extended_Pictographic ∧ Cn): every combination that exists among the 1,112,064 scalar values -/\n')
    f.write('def letters : List (Nat × Bool × Bool) := [\n'+',\n'.join(f'  ({consts["pr"+c]}, {str(e).lower()}, {str(p).lower()})' for c,e,p in sig)+']\n')
    f.write('end LB\n')
    print(len(sig),'signatures',len(rows),'rows')
