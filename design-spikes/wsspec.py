# Executable readings of UAX #29 word and sentence rules (Unicode 15.0.0).
def strip_wb(left):
    """left: reversed list of classes before the position. Returns effective units (nearest first) after WB4."""
    IGN=('Extend','Format','ZWJ'); NLS=('CR','LF','Newline')
    out=[]
    i=0
    while i<len(left):
        x=left[i]
        if x in IGN and i+1<len(left) and left[i+1] not in NLS:
            i+=1; continue      # absorbed by whatever precedes it
        out.append(x); i+=1
    return out
def wb_break(left,right):
    """left reversed (nearest first), right in text order; both non-empty. True = boundary"""
    IGN=('Extend','Format','ZWJ'); NLS=('CR','LF','Newline')
    l=left[0]; r=right[0]
    if l=='CR' and r=='LF': return False                  # WB3
    if l in NLS: return True                              # WB3a
    if r in NLS: return True                              # WB3b
    if l=='ZWJ' and r=='ExtPict': return False            # WB3c
    if l=='WSegSpace' and r=='WSegSpace': return False    # WB3d
    if r in IGN: return False                             # WB4
    L=strip_wb(left)
    R=[r]+[x for x in right[1:] ]
    # next non-ignorable after r
    nxt=None
    for x in right[1:]:
        if x in IGN: continue
        nxt=x; break
    l0=L[0]; l1=L[1] if len(L)>1 else None
    AHL=('ALetter','HebrewLetter'); MidL=('MidLetter','MidNumLet','SingleQuote'); MidN=('MidNum','MidNumLet','SingleQuote')
    if l0 in AHL and r in AHL: return False                               # WB5
    if l0 in AHL and r in MidL and nxt in AHL: return False               # WB6
    if l1 in AHL and l0 in MidL and r in AHL: return False                # WB7
    if l0=='HebrewLetter' and r=='SingleQuote': return False              # WB7a
    if l0=='HebrewLetter' and r=='DoubleQuote' and nxt=='HebrewLetter': return False  # WB7b
    if l1=='HebrewLetter' and l0=='DoubleQuote' and r=='HebrewLetter': return False   # WB7c
    if l0=='Numeric' and r=='Numeric': return False                       # WB8
    if l0 in AHL and r=='Numeric': return False                           # WB9
    if l0=='Numeric' and r in AHL: return False                           # WB10
    if l1=='Numeric' and l0 in MidN and r=='Numeric': return False        # WB11
    if l0=='Numeric' and r in MidN and nxt=='Numeric': return False       # WB12
    if l0=='Katakana' and r=='Katakana': return False                     # WB13
    if l0 in AHL+('Numeric','Katakana','ExtendNumLet') and r=='ExtendNumLet': return False  # WB13a
    if l0=='ExtendNumLet' and r in AHL+('Numeric','Katakana'): return False  # WB13b
    if l0=='RegionalIndicator' and r=='RegionalIndicator':               # WB15/16
        n=0
        for x in L:
            if x=='RegionalIndicator': n+=1
            else: break
        if n%2==1: return False
    return True

def strip_sb(left):
    IGN=('Extend','Format'); PS=('Sep','CR','LF')
    out=[]; i=0
    while i<len(left):
        x=left[i]
        if x in IGN and i+1<len(left) and left[i+1] not in PS:
            i+=1; continue
        out.append(x); i+=1
    return out
def sb_break(left,right):
    IGN=('Extend','Format'); PS=('Sep','CR','LF'); SAT=('STerm','ATerm')
    l=left[0]; r=right[0]
    if l=='CR' and r=='LF': return False          # SB3
    if l in PS: return True                       # SB4
    if r in IGN: return False                     # SB5
    L=strip_sb(left)
    Rr=[x for x in right if x not in IGN]  # right side with ignorables removed (r itself is not ignorable)
    l0=L[0]; l1=L[1] if len(L)>1 else None
    if l0=='ATerm' and r=='Numeric': return False                 # SB6
    if l1 in ('Upper','Lower') and l0=='ATerm' and r=='Upper': return False   # SB7
    # parse left: SATerm Close* Sp* (ParaSep)?
    def match_left(L, allow_sp=True, allow_close=True, allow_ps=False):
        i=0
        if allow_ps and i<len(L) and L[i] in PS: i+=1
        if allow_sp:
            while i<len(L) and L[i]=='Sp': i+=1
        if allow_close:
            while i<len(L) and L[i]=='Close': i+=1
        return L[i] if i<len(L) else None
    t=match_left(L)           # terminator behind Close* Sp*
    # SB8
    if t=='ATerm':
        for x in Rr:
            if x=='Lower': return False
            if x in ('OLetter','Upper','Lower','Sep','CR','LF','STerm','ATerm'): break
    # SB8a
    if t in SAT and r in ('SContinue','STerm','ATerm'): return False
    # SB9
    t9=match_left(L,allow_sp=False)
    if t9 in SAT and r in ('Close','Sp','Sep','CR','LF'): return False
    # SB10
    if t in SAT and r in ('Sp','Sep','CR','LF'): return False
    # SB11
    if t in SAT: return True
    tp=match_left(L,allow_ps=True)
    if tp in SAT: return True
    return False                                   # SB998
