import sys
sys.path.insert(0,'/verif/design-spikes')
from data import *
WB=Tab(loadgo('/repo/wordproperties.go')); SB=Tab(loadgo('/repo/sentenceproperties.go')); GRT=Tab(loadgo('/repo/graphemeproperties.go'))
wbmap={'XX':'other','CR':'cr','LF':'lf','Newline':'newline','Extend':'extend','ZWJ':'zwj','RegionalIndicator':'ri','Format':'format','Katakana':'katakana','HebrewLetter':'hebrew','ALetter':'aletter','SingleQuote':'singlequote','DoubleQuote':'doublequote','MidNumLet':'midnumlet','MidLetter':'midletter','MidNum':'midnum','Numeric':'numeric','ExtendNumLet':'extendnumlet','WSegSpace':'wsegspace','ExtendedPictographic':'extpict'}
sbmap={'XX':'other','CR':'cr','LF':'lf','Extend':'extend','Sep':'sep','Format':'format','Sp':'sp','Lower':'lower','Upper':'upper','OLetter':'oletter','Numeric':'numeric','ATerm':'aterm','SContinue':'scontinue','STerm':'sterm','Close':'close'}
for name,f,tab,mp in (('wb','/repo/wordbreak_test.go',WB,wbmap),('sb','/repo/sentencebreak_test.go',SB,sbmap)):
    vs=vectors(f,None)
    with open(name+'vec.txt','w') as out:
        for s,exp,cm in vs:
            cps=[ord(ch) for ch in s]
            ends=set(); n=0
            for g in exp[:-1]:
                n+=len(g); ends.add(n)
            exps=''.join('b' if i in ends else 'x' for i in range(1,len(cps)))
            cl=[]
            for c in cps:
                r=tab.get(c); cl.append(mp[r[2] if r else 'XX'])
            out.write(' '.join(cl)+'|'+exps+'\n')
    print(name,len(vs))
