/-! Spike: generic model of the `First*` loops and its characterisation as one left-to-right scan. -/
namespace Loop

structure Dec where
  dec : List UInt8 → Nat × Nat                 -- (rune, size) as utf8.DecodeRune
  pos : ∀ b, b ≠ [] → 1 ≤ (dec b).2
  le  : ∀ b, (dec b).2 ≤ b.length

variable (D : Dec) (tr : Option Nat → Nat → List UInt8 → Nat × Bool) (endState : Nat)

/-- the `for { … }` of FirstWord/FirstSentence/FirstLineSegment: `length` bytes consumed, `length < len b` -/
def loop (b : List UInt8) (length state : Nat) : Nat × Nat :=
  if h : b.length ≤ length then (b.length, endState)       -- not reachable from firstSeg
  else
    let r := D.dec (b.drop length)
    let t := tr (some state) r.1 (b.drop (length + r.2))
    if t.2 then (length, t.1)
    else if b.length ≤ length + r.2 then (b.length, endState)
    else loop b (length + r.2) t.1
termination_by b.length - length
decreasing_by
  have : b.drop length ≠ [] := by
    intro hnil
    have := congrArg List.length hnil
    simp at this; omega
  have := D.pos _ this
  omega

/-- FirstX(b, state): returns (segment length, new state); `none` is Go's -1 -/
def firstSeg (b : List UInt8) (st : Option Nat) : Nat × Nat :=
  if b = [] then (0, 0)
  else
    let r := D.dec b
    if b.length ≤ r.2 then (b.length, endState)
    else
      let state := match st with
        | none => (tr none r.1 (b.drop r.2)).1
        | some s => s
      loop D tr endState b r.2 state

theorem loop_bounds (b : List UInt8) (length state : Nat) (hl : length ≤ b.length) :
    length ≤ (loop D tr endState b length state).1 ∧ (loop D tr endState b length state).1 ≤ b.length := by
  fun_induction loop D tr endState b length state with
  | case1 length state h => simp; omega
  | case2 length state h r t ht => simp [ht]; omega
  | case3 length state h r t ht h2 => simp; omega
  | case4 length state h r t ht h2 ih =>
    have := ih (by omega)
    omega

/-- C05 (shape): every call on a non-empty input returns a non-empty prefix length -/
theorem firstSeg_bounds (b : List UInt8) (st : Option Nat) (hb : b ≠ []) :
    1 ≤ (firstSeg D tr endState b st).1 ∧ (firstSeg D tr endState b st).1 ≤ b.length := by
  unfold firstSeg
  simp only [hb, if_false]
  have hp := D.pos b hb
  have hle := D.le b
  split
  · simp; cases b with
    | nil => exact absurd rfl hb
    | cons => simp
  · generalize (match st with | none => (tr none (D.dec b).1 (b.drop (D.dec b).2)).1 | some s => s) = s0
    have := loop_bounds D tr endState b (D.dec b).2 s0 hle
    omega

/-- one left-to-right scan: per rune (size, boundary-before?, state-after) -/
def scan (b : List UInt8) (st : Option Nat) : List (Nat × Bool × Nat) :=
  if h : b = [] then []
  else
    let r := D.dec b
    let t := tr st r.1 (b.drop r.2)
    (r.2, t.2, t.1) :: scan (b.drop r.2) (some t.1)
termination_by b.length
decreasing_by
  have := D.pos b h
  have hb : b.length ≠ 0 := fun h0 => h (List.eq_nil_of_length_eq_zero h0)
  simp; omega

/-- length of the first segment read off a scan whose head rune is already accounted for -/
def firstCut : List (Nat × Bool × Nat) → Nat → Nat
  | [], acc => acc
  | (sz, brk, _) :: rest, acc => if brk then acc else firstCut rest (acc + sz)

theorem loop_eq_scan (b : List UInt8) (length state : Nat) (hl : length ≤ b.length) :
    (loop D tr endState b length state).1 = firstCut (scan D tr (b.drop length) (some state)) length := by
  fun_induction loop D tr endState b length state with
  | case1 length state h =>
    have : b.drop length = [] := List.drop_eq_nil_of_le h
    rw [this, scan.eq_def]; simp [firstCut]; omega
  | case2 length state h r t ht =>
    have hne : b.drop length ≠ [] := by
      intro hnil; have := congrArg List.length hnil; simp at this; omega
    have hdd : (b.drop length).drop (D.dec (b.drop length)).2 = b.drop (length + (D.dec (b.drop length)).2) := by
      simp [List.drop_drop]
    rw [scan.eq_def]; simp only [hne, dite_false, firstCut, hdd]
    have ht' : (tr (some state) (D.dec (b.drop length)).1 (b.drop (length + (D.dec (b.drop length)).2))).2 = true := ht
    simp [ht']
  | case3 length state h r t ht h2 =>
    have hne : b.drop length ≠ [] := by
      intro hnil; have := congrArg List.length hnil; simp at this; omega
    have hdd : (b.drop length).drop (D.dec (b.drop length)).2 = b.drop (length + (D.dec (b.drop length)).2) := by
      simp [List.drop_drop]
    have h2' : b.length ≤ length + (D.dec (b.drop length)).2 := h2
    have hnil : b.drop (length + (D.dec (b.drop length)).2) = [] := List.drop_eq_nil_of_le h2'
    have ht' : ¬ (tr (some state) (D.dec (b.drop length)).1 (b.drop (length + (D.dec (b.drop length)).2))).2 = true := ht
    rw [scan.eq_def]; simp only [hne, dite_false, firstCut, hdd]
    simp only [ht', if_false]
    rw [hnil, scan.eq_def]; simp [firstCut]
    have := D.le (b.drop length); simp at this; omega
  | case4 length state h r t ht h2 ih =>
    have hne : b.drop length ≠ [] := by
      intro hnil; have := congrArg List.length hnil; simp at this; omega
    have hdd : (b.drop length).drop (D.dec (b.drop length)).2 = b.drop (length + (D.dec (b.drop length)).2) := by
      simp [List.drop_drop]
    have ht' : ¬ (tr (some state) (D.dec (b.drop length)).1 (b.drop (length + (D.dec (b.drop length)).2))).2 = true := ht
    have h2' : ¬ b.length ≤ length + (D.dec (b.drop length)).2 := h2
    rw [scan.eq_def]; simp only [hne, dite_false, firstCut, hdd]
    simp only [ht', if_false]
    exact ih (by omega)
#print axioms loop_eq_scan
#print axioms firstSeg_bounds
end Loop
