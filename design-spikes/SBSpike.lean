import SBSpikeRows
import Std.Data.HashSet
/-! Spike: sentence rules with unbounded look-ahead (SB8) and ignorables (SB5):
    product of implementation automaton and spec summary automaton with a "promise" component ρ. -/
namespace SB
-- class codes (spike-local): 0 Other 1 CR 2 LF 3 Extend 4 Sep 5 Format 6 Sp 7 Lower 8 Upper 9 OLetter 10 Numeric
-- 11 ATerm 12 SContinue 13 STerm 14 Close ; letter 15 = U+FFFD / ill-formed byte: class Other, but stops the Go look-ahead
abbrev cCR := 1
abbrev cLF := 2
abbrev cExtend := 3
abbrev cSep := 4
abbrev cFormat := 5
abbrev cSp := 6
abbrev cLower := 7
abbrev cUpper := 8
abbrev cOLetter := 9
abbrev cNumeric := 10
abbrev cATerm := 11
abbrev cSContinue := 12
abbrev cSTerm := 13
abbrev cClose := 14
abbrev lErr := 15
def clsOf (letter : Nat) : Nat := if letter == lErr then 0 else letter

def isStop (c : Nat) : Bool := c == cOLetter || c == cUpper || c == cLower || c == cSep || c == cCR || c == cLF || c == cATerm || c == cSTerm
def isPS (c : Nat) : Bool := c == cSep || c == cCR || c == cLF
def isIgn (c : Nat) : Bool := c == cExtend || c == cFormat

/-! ### right-context summaries, computed by a backward fold over the rest of the text -/
/-- Go look-ahead loop of transitionSentenceBreakState over the letters after `r`: stops at RuneError -/
def implLa : List Nat → Bool
  | [] => false
  | x :: rest => if x == lErr then false else if isStop x then x == cLower else implLa rest
/-- SB8 right-hand side `(¬(OLetter|Upper|Lower|ParaSep|SATerm))* Lower` over the classes after `r` -/
def specLa : List Nat → Bool
  | [] => false
  | x :: rest => if isStop (clsOf x) then clsOf x == cLower else specLa rest
structure Rho where
  i : Bool
  s : Bool
deriving DecidableEq, Repr, BEq, Hashable
def rhoOf (rest : List Nat) : Rho := ⟨implLa rest, specLa rest⟩
def rhoStep (x : Nat) (r : Rho) : Rho :=
  ⟨if x == lErr then false else if isStop x then x == cLower else r.i,
   if isStop (clsOf x) then clsOf x == cLower else r.s⟩
theorem rhoOf_cons (x : Nat) (rest : List Nat) : rhoOf (x :: rest) = rhoStep x (rhoOf rest) := rfl

/-! ### implementation model: transitionSentenceBreakState (state none = Go's -1) -/
def look (s : Option Nat) (p : Nat) : Option (Nat × Bool × Nat) := match s with | none => none | some s => sbT s p
def trans (state : Option Nat) (letter : Nat) (laI : Bool) : Nat × Bool :=
  let p := clsOf letter
  if isIgn p then
    if state == some 2 || state == some 1 then (0, true)
    else match state with
      | none => (0, true)
      | some s => (s, false)
  else
    let (ns, brk, rule) : Nat × Bool × Nat :=
      match look state p with
      | some t => t
      | none =>
        match look state 0, sbT 0 p with
        | some (_, ab, ar), some (ss, sb, sr) => if ar < sr then (ss, ab, ar) else (ss, sb, sr)
        | some t, none => t
        | none, some t => t
        | none, none => (0, false, 9990)
    if rule > 80 && (state == some 3 || state == some 7 || state == some 8 || state == some 6) then
      let found := if isStop p then p == cLower else laI
      if found then (5, false) else (ns, brk)
    else (ns, brk)

/-! ### spec summary automaton -/
inductive Phase | none | term | close | sp | ps
deriving DecidableEq, Repr, BEq, Hashable
structure Q where
  lastRaw : Option Nat
  eff0 : Option Nat
  aterm : Bool          -- the terminator of the current SATerm context is an ATerm
  phase : Phase
  sb7 : Bool
deriving DecidableEq, Repr, BEq, Hashable
def q0 : Q := ⟨none, none, false, .none, false⟩
def qstep (q : Q) (letter : Nat) : Q :=
  let c := clsOf letter
  let absorbed := isIgn c && (match q.lastRaw with | none => false | some l => !isPS l)
  if absorbed then { q with lastRaw := some c }
  else
    let isUL := q.eff0 == some cUpper || q.eff0 == some cLower
    let (a, ph) : Bool × Phase :=
      if c == cATerm then (true, .term) else if c == cSTerm then (false, .term)
      else if c == cClose then (if q.phase == .term || q.phase == .close then (q.aterm, .close) else (false, .none))
      else if c == cSp then (if q.phase == .term || q.phase == .close || q.phase == .sp then (q.aterm, .sp) else (false, .none))
      else if isPS c then (if q.phase == .term || q.phase == .close || q.phase == .sp then (q.aterm, .ps) else (false, .none))
      else (false, .none)
    ⟨some c, some c, a, ph, c == cATerm && isUL⟩
/-- true = sentence boundary before `letter`, given summary of the left context and SB8 summary of the text after `letter` -/
def qout (q : Q) (letter : Nat) (laS : Bool) : Bool :=
  let c := clsOf letter
  match q.lastRaw with
  | none => true
  | some l =>
    if l == cCR && c == cLF then false                 -- SB3
    else if isPS l then true                           -- SB4
    else if isIgn c then false                         -- SB5
    else if q.eff0 == some cATerm && c == cNumeric then false      -- SB6
    else if q.eff0 == some cATerm && q.sb7 && c == cUpper then false   -- SB7
    else
      let tcs := q.phase == .term || q.phase == .close || q.phase == .sp
      let tc := q.phase == .term || q.phase == .close
      if tcs && q.aterm && (if isStop c then c == cLower else laS) then false      -- SB8
      else if tcs && (c == cSContinue || c == cSTerm || c == cATerm) then false    -- SB8a
      else if tc && (c == cClose || c == cSp || isPS c) then false                 -- SB9
      else if tcs && (c == cSp || isPS c) then false                               -- SB10
      else if tcs || q.phase == .ps then true                                      -- SB11
      else false                                                                   -- SB998

/-! ### product exploration -/
structure P where
  s : Option Nat
  q : Q
  rho : Rho       -- summary of the text that still follows
deriving DecidableEq, Repr, BEq, Hashable
def letters : List Nat := List.range 16
def rhos : List Rho := [⟨false,false⟩,⟨false,true⟩,⟨true,false⟩,⟨true,true⟩]
/-- successors of p: all letters x and all remaining-text summaries ρ' consistent with p.rho -/
def succs (p : P) : List (Nat × Rho × P × Bool × Bool) :=
  letters.flatMap fun x => rhos.filterMap fun r' =>
    if rhoStep x r' == p.rho then
      let t := trans p.s x r'.i
      some (x, r', ⟨some t.1, qstep p.q x, r'⟩, t.2, qout p.q x r'.s)
    else none
/-- ρ pairs that can occur at all (impl summary true implies spec summary true) -/
def rhoOK (r : Rho) : Bool := !r.i || r.s
partial def bfs (todo : List P) (seen : Std.HashSet P) (bad : List (P × Nat × Rho × Bool × Bool)) :
    Std.HashSet P × List (P × Nat × Rho × Bool × Bool) :=
  match todo with
  | [] => (seen, bad)
  | p :: rest =>
    let ss := (succs p).filter fun (_, r', _, _, _) => rhoOK r'
    let bad' := ss.foldl (fun b (x, r', _, oi, os) => if p.q.lastRaw != none && oi != os then (p, x, r', oi, os) :: b else b) bad
    let new := ss.filterMap fun (_, _, p', _, _) => if seen.contains p' then none else some p'
    let new := new.eraseDups
    bfs (new ++ rest) (new.foldl (fun s p => s.insert p) seen) bad'
def explore := bfs (rhos.filter rhoOK |>.map fun r => ⟨none, q0, r⟩) (Std.HashSet.ofList (rhos.filter rhoOK |>.map fun r => (⟨none, q0, r⟩ : P))) []
#eval (explore.1.size, explore.2.length)
#eval (explore.2.map fun (p, x, r', oi, os) => (p.s, p.q.lastRaw, p.q.eff0, p.q.aterm, repr p.q.phase, x, r'.i, r'.s, oi, os)).take 60
end SB
