import itertools,random,subprocess,collections,sys
from data import *; from lbspec import verdicts
# representatives: one per (resolved cls, eaFWH, epcn) signature present in the tables, plus raw-class variety
sig={}
for a,b,cls,gc in LB.rows:
    for c in (a,b):
        if 0xD800<=c<=0xDFFF: continue
        s=lbchar(c)
        key=(s,cls) # keep raw class too (AI/SA/CJ variants)
        sig.setdefault(key,c)
sig[(lbchar(0x378),'XX')]=0x378
reps=sorted(set(sig.values()))
names={c:(lbchar(c),LB.get(c)[2] if LB.get(c) else 'XX') for c in reps}
print('reps',len(reps),file=sys.stderr)
def run(seqs):
    inp='\n'.join(' '.join('%x'%c for c in s) for s in seqs)+'\n'
    out=subprocess.run(['./seg','line'],input=inp.encode(),capture_output=True).stdout.decode().split('\n')
    return out
def spec(s):
    v=verdicts([lbchar(c) for c in s])
    return ''.join({'×':'x','÷':'/','!':'!'}[x] for x in v[1:])
random.seed(1)
seqs=[list(t) for n in (2,3) for t in itertools.product(reps,repeat=n)]
seqs+= [[random.choice(reps) for _ in range(random.randint(4,7))] for _ in range(300000)]
out=run(seqs)
fam=collections.Counter(); ex={}
nbad=0
for s,o in zip(seqs,out):
    e=spec(s)
    if e!=o:
        nbad+=1
        # first differing position
        i=next(k for k in range(len(e)) if e[k]!=o[k])
        ctx=tuple(names[c][0][0]+('w' if names[c][0][1] else '')+('*' if names[c][0][2] else '') for c in s[max(0,i-2):i+3])
        key=(e[i],o[i],ctx[-3:] if len(s)>3 else ctx)
        fam[key]+=1
        if key not in ex or len(s)<len(ex[key]): ex[key]=s
print('seqs',len(seqs),'bad',nbad)
# group by minimal examples of length<=3 only
short=[(k,v) for k,v in ex.items() if len(v)<=3]
print('distinct short (len<=3) failing families:',len(short))
agg=collections.Counter()
for k,v in short:
    agg[(k[0],k[1],tuple(names[c][0][0] for c in v))]+=1
for (e,o,cl),n in sorted(agg.items(), key=lambda x:x[0][2]):
    print('  spec',e,'impl',o,' '.join(cl))
