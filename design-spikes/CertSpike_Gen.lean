import LBModel
open LB
instance : Inhabited P := ⟨⟨none, q0, ⟨false,false⟩⟩⟩
def showB (b : Bool) : String := if b then "true" else "false"
def showP (p : P) : String :=
  let s := match p.s with | none => "none" | some v => s!"some {v}"
  let lr := match p.q.lastRaw with | none => "none" | some v => s!"some {v}"
  let num := match p.q.num with | .none => ".none" | .run => ".run" | .closed => ".closed"
  s!"⟨{s}, ⟨{lr}, {showB p.q.zwsp}, {p.q.u0}, {showB p.q.u0ea}, {showB p.q.u0ep}, {showB p.q.u1hl}, {p.q.nsp}, {num}, {showB p.q.odd}⟩, ⟨{showB p.rho.i}, {showB p.rho.s}⟩⟩"
partial def build (a : Array P) (lo hi : Nat) : String :=
  if lo ≥ hi then ".leaf" else
  let m := (lo + hi) / 2
  s!"(.node {build a lo m} {keyOf a[m]!} {showP a[m]!} {build a (m+1) hi})"
def main : IO Unit := do
  let (seen, bad, n) := explore
  let arr := seen.toArray.qsort (fun a b => keyOf a < keyOf b)
  IO.eprintln s!"states {arr.size} transitions {n} bad {bad.length}"
  -- 16 shards = subtrees of 64ish consecutive nodes; `top` is one balanced tree over everything
  IO.println "import LBModel\nopen LB\nnamespace Cert"
  IO.println s!"def top : T := {build arr 0 arr.size}"
  let shards := 16
  for i in [0:shards] do
    let lo := arr.size * i / shards
    let hi := arr.size * (i+1) / shards
    IO.println s!"def shard{i} : T := {build arr lo hi}"
  IO.println "end Cert"
