/-! Spike: grapheme rules, spec vs implementation model, closure certificate, lifting. -/
namespace GB

-- property codes as in properties.go
abbrev XX := 0
abbrev Any := 1
abbrev Prepend := 2
abbrev CR := 3
abbrev LF := 4
abbrev Control := 5
abbrev Extend := 6
abbrev RI := 7
abbrev SpacingMark := 8
abbrev L := 9
abbrev V := 10
abbrev T := 11
abbrev LV := 12
abbrev LVT := 13
abbrev ZWJ := 14
abbrev ExtPict := 15

/-! ## Declarative spec: `left` is the reversed list of classes before the position. -/
def isCtl (c : Nat) : Bool := c == CR || c == LF || c == Control

def riRun : List Nat → Nat
  | [] => 0
  | c :: cs => if c == RI then riRun cs + 1 else 0

/-- left context matches `ExtPict Extend*` (read right-to-left: Extend* then ExtPict) -/
def epExt : List Nat → Bool
  | [] => false
  | c :: cs => if c == ExtPict then true else if c == Extend then epExt cs else false

def gbBreak (left right : List Nat) : Bool :=
  match left, right with
  | [], _ => true
  | _, [] => true
  | l :: ls, r :: _ =>
    if l == CR && r == LF then false                                   -- GB3
    else if isCtl l then true                                          -- GB4
    else if isCtl r then true                                          -- GB5
    else if l == L && (r == L || r == V || r == LV || r == LVT) then false   -- GB6
    else if (l == LV || l == V) && (r == V || r == T) then false       -- GB7
    else if (l == LVT || l == T) && r == T then false                  -- GB8
    else if r == Extend || r == ZWJ then false                         -- GB9
    else if r == SpacingMark then false                                -- GB9a
    else if l == Prepend then false                                    -- GB9b
    else if l == ZWJ && r == ExtPict && epExt ls then false            -- GB11
    else if l == RI && r == RI && riRun (l :: ls) % 2 == 1 then false  -- GB12/13
    else true                                                          -- GB999

/-! ## Implementation model (graphemerules.go) -/
def grT (state prop : Nat) : Option (Nat × Nat × Nat) :=
  match state, prop with
  | 0, 3 => some (1, 1, 50) | 0, 4 => some (2, 1, 50) | 0, 5 => some (2, 1, 50)
  | 1, 1 => some (0, 1, 40) | 2, 1 => some (0, 1, 40)
  | 1, 4 => some (2, 0, 30)
  | 0, 9 => some (3, 1, 9990) | 3, 9 => some (3, 0, 60) | 3, 10 => some (4, 0, 60)
  | 3, 12 => some (4, 0, 60) | 3, 13 => some (5, 0, 60)
  | 0, 12 => some (4, 1, 9990) | 0, 10 => some (4, 1, 9990) | 4, 10 => some (4, 0, 70) | 4, 11 => some (5, 0, 70)
  | 0, 13 => some (5, 1, 9990) | 0, 11 => some (5, 1, 9990) | 5, 11 => some (5, 0, 80)
  | 0, 6 => some (0, 0, 90) | 0, 14 => some (0, 0, 90)
  | 0, 8 => some (0, 0, 91)
  | 0, 2 => some (6, 1, 9990) | 6, 1 => some (0, 0, 92)
  | 0, 15 => some (7, 1, 9990) | 7, 6 => some (7, 0, 110) | 7, 14 => some (8, 0, 110) | 8, 15 => some (7, 0, 110)
  | 0, 7 => some (9, 1, 9990) | 9, 7 => some (10, 0, 120) | 10, 7 => some (9, 1, 120)
  | _, _ => none

/-- transitionGraphemeState with the property already looked up; state `none` = Go's -1 -/
def trans (state : Option Nat) (prop : Nat) : Nat × Bool :=
  let look (s : Option Nat) (p : Nat) := match s with | none => none | some s => grT s p
  match look state prop with
  | some (ns, b, _) => (ns, b == 1)
  | none =>
    match look state Any, grT 0 prop with
    | some (_, ab, ar), some (ss, sb, sr) => (ss, if ar < sr then ab == 1 else sb == 1)
    | some (as, ab, _), none => (as, ab == 1)
    | none, some (ss, sb, _) => (ss, sb == 1)
    | none, none => (0, true)

def run (st : Option Nat) : List Nat → Option Nat
  | [] => st
  | c :: cs => run (some (trans st c).1) cs

/-! ## Canonical spec automaton: summary of the (reversed) left context. -/
structure Q where
  last : Option Nat   -- last class, none = start of text
  ep   : Bool     -- left matches Extend* ExtPict
  epp  : Bool     -- left = _ :: ls with epExt ls
  odd  : Bool     -- riRun left is odd
deriving DecidableEq, Repr

def q0 : Q := ⟨none, false, false, false⟩
def qstep (q : Q) (c : Nat) : Q :=
  { last := some c
    ep   := if c == ExtPict then true else if c == Extend then q.ep else false
    epp  := q.ep
    odd  := if c == RI then !q.odd else false }
def summ : List Nat → Q
  | [] => q0
  | c :: cs => qstep (summ cs) c

def qout (q : Q) (r : Nat) : Bool :=
  match q.last with
  | none => true
  | some l =>
    if l == CR && r == LF then false
    else if isCtl l then true
    else if isCtl r then true
    else if l == L && (r == L || r == V || r == LV || r == LVT) then false
    else if (l == LV || l == V) && (r == V || r == T) then false
    else if (l == LVT || l == T) && r == T then false
    else if r == Extend || r == ZWJ then false
    else if r == SpacingMark then false
    else if l == Prepend then false
    else if l == ZWJ && r == ExtPict && q.epp then false
    else if l == RI && r == RI && q.odd then false
    else true

theorem summ_ep (l : List Nat) : (summ l).ep = epExt l := by
  induction l with
  | nil => rfl
  | cons c cs ih => simp only [summ, qstep, epExt, ih]
theorem summ_odd (l : List Nat) : (summ l).odd = (riRun l % 2 == 1) := by
  induction l with
  | nil => rfl
  | cons c cs ih =>
    simp only [summ, qstep, riRun, ih]
    split
    · have h : ∀ n : Nat, (!(n % 2 == 1)) = ((n + 1) % 2 == 1) := by
        intro n; rcases Nat.mod_two_eq_zero_or_one n with h | h <;> simp [h, Nat.add_mod]
      exact h _
    · rfl

/-- factorisation: the declarative spec only depends on the summary -/
theorem gbBreak_factor (left : List Nat) (r : Nat) (rs : List Nat) :
    gbBreak left (r :: rs) = qout (summ left) r := by
  cases left with
  | nil => rfl
  | cons c cs =>
    simp only [gbBreak, qout, summ, qstep, summ_ep, summ_odd]
    simp only [← summ_odd, summ, qstep]

/-! ## Product closure certificate -/
def classes : List Nat := [0,1,2,3,4,5,6,7,8,9,10,11,12,13,14,15]
def bools : List Bool := [false, true]
def allQ : List Q :=
  (none :: classes.map some).flatMap fun l => bools.flatMap fun a => bools.flatMap fun b => bools.map fun c => ⟨l, a, b, c⟩

/-- relation between implementation state and spec summary, given as a function Q → expected impl state -/
def absSt (q : Q) : Option Nat :=
  match q.last with
  | none => none
  | some l =>
    some (if l == CR then 1 else if l == LF || l == Control then 2 else if l == L then 3
      else if l == LV || l == V then 4 else if l == LVT || l == T then 5 else if l == Prepend then 6
      else if q.ep then 7 else if l == ZWJ && q.epp then 8
      else if l == RI then (if q.odd then 9 else 10) else 0)

def closedAt (q : Q) (c : Nat) : Bool :=
  let t := trans (absSt q) c
  (some t.1 == absSt (qstep q c)) && (q.last == none || t.2 == qout q c)

/-- consistency filter: summaries that can actually occur -/
def okQ (q : Q) : Bool :=
  match q.last with
  | none => !q.ep && !q.epp && !q.odd
  | some l => (q.odd == false || l == RI) && (q.ep == false || l == ExtPict || l == Extend) && (l != ExtPict || q.ep)
              && (!(l == RI) || true)

def allBelow (n : Nat) (p : Nat → Bool) : Bool :=
  Nat.rec (motive := fun _ => Bool) true (fun i ih => p i && ih) n
theorem allBelow_sound {n : Nat} {p : Nat → Bool} (h : allBelow n p = true) : ∀ i, i < n → p i = true := by
  induction n with
  | zero => intro i hi; omega
  | succ k ih =>
    have h' : (p k && allBelow k p) = true := h
    simp only [Bool.and_eq_true] at h'
    intro i hi
    by_cases hk : i = k
    · subst hk; exact h'.1
    · exact ih h'.2 i (by omega)

def qOf (l : Nat) (a b c : Nat) : Q := ⟨if l == 16 then none else some l, a == 1, b == 1, c == 1⟩
def closedB : Bool :=
  allBelow 17 fun l => allBelow 2 fun a => allBelow 2 fun b => allBelow 2 fun c =>
    let q := qOf l a b c
    !okQ q || allBelow 16 fun x => closedAt q x && okQ (qstep q x)
theorem closed : closedB = true := by decide +kernel

def wfQ (q : Q) : Prop := match q.last with | none => True | some l => l < 16
theorem closed' (q : Q) (hq : wfQ q) (hok : okQ q = true) (x : Nat) (hx : x < 16) :
    closedAt q x = true ∧ okQ (qstep q x) = true := by
  obtain ⟨l, a, b, c⟩ := q
  have key : ∀ l' a' b' c', l' < 17 → a' < 2 → b' < 2 → c' < 2 →
      (!okQ (qOf l' a' b' c') || allBelow 16 fun x => closedAt (qOf l' a' b' c') x && okQ (qstep (qOf l' a' b' c') x)) = true := by
    intro l' a' b' c' hl ha hb hc
    exact allBelow_sound (allBelow_sound (allBelow_sound (allBelow_sound closed l' hl) a' ha) b' hb) c' hc
  have enc : ∃ l' a' b' c', l' < 17 ∧ a' < 2 ∧ b' < 2 ∧ c' < 2 ∧ qOf l' a' b' c' = ⟨l, a, b, c⟩ := by
    refine ⟨(match l with | none => 16 | some v => v), (if a then 1 else 0), (if b then 1 else 0), (if c then 1 else 0), ?_, ?_, ?_, ?_, ?_⟩
    · cases l with
      | none => show 16 < 17; omega
      | some v => simp only [wfQ] at hq; show v < 17; omega
    · cases a <;> decide
    · cases b <;> decide
    · cases c <;> decide
    · cases l with
      | none => cases a <;> cases b <;> cases c <;> rfl
      | some v =>
        simp only [wfQ] at hq
        have : (v == 16) = false := by simp; omega
        cases a <;> cases b <;> cases c <;> simp [qOf, this]
  obtain ⟨l', a', b', c', hl, ha, hb, hc, he⟩ := enc
  have k := key l' a' b' c' hl ha hb hc
  rw [he, hok] at k
  simp only [Bool.not_true, Bool.false_or] at k
  have k2 := allBelow_sound k x hx
  simpa [Bool.and_eq_true] using k2

/-! ## Lifting: for every class string, the implementation's verdict equals the declarative spec. -/
theorem summ_wf (l : List Nat) (h : ∀ c ∈ l, c < 16) : wfQ (summ l) := by
  cases l with
  | nil => trivial
  | cons c cs => exact h c (List.mem_cons_self ..)

/-- run the implementation over the classes in text order (`left` is reversed) -/
def runRev : List Nat → Option Nat
  | [] => none
  | c :: cs => some (trans (runRev cs) c).1

theorem inv (left : List Nat) (h : ∀ c ∈ left, c < 16) :
    runRev left = absSt (summ left) ∧ okQ (summ left) = true := by
  induction left with
  | nil => exact ⟨rfl, rfl⟩
  | cons c cs ih =>
    have hcs : ∀ c ∈ cs, c < 16 := fun x hx => h x (List.mem_cons_of_mem _ hx)
    obtain ⟨i1, i2⟩ := ih hcs
    have hc : c < 16 := h c (List.mem_cons_self ..)
    obtain ⟨k1, k2⟩ := closed' (summ cs) (summ_wf cs hcs) i2 c hc
    simp only [closedAt, Bool.and_eq_true, beq_iff_eq] at k1
    refine ⟨?_, k2⟩
    show some (trans (runRev cs) c).1 = absSt (qstep (summ cs) c)
    rw [i1]; exact k1.1

theorem impl_eq_spec (left : List Nat) (hl : left ≠ []) (h : ∀ c ∈ left, c < 16)
    (r : Nat) (hr : r < 16) (rs : List Nat) :
    (trans (runRev left) r).2 = gbBreak left (r :: rs) := by
  obtain ⟨i1, i2⟩ := inv left h
  obtain ⟨k1, _⟩ := closed' (summ left) (summ_wf left h) i2 r hr
  rw [gbBreak_factor, i1]
  simp only [closedAt, Bool.and_eq_true, Bool.or_eq_true, beq_iff_eq] at k1
  rcases k1.2 with hnone | heq
  · cases left with
    | nil => exact absurd rfl hl
    | cons c cs => simp [summ, qstep] at hnone
  · exact heq
#print axioms impl_eq_spec
end GB
