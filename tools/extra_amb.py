"""The model-vs-code correspondence, the width-spec comparison and a monitor are repeated with the
configuration variable EastAsianAmbiguousWidth set to other values than the default, in separate
harness processes (the default run is the main stage).
C15: 0, 2, 3 and 7. C06 (whose width model has the case "EastAsianAmbiguousWidth if Ambiguous"): 0 and 2.
C10 (U+FFFD is East Asian Ambiguous, so the width of an ill-formed byte depends on the setting): 2.
C01-C04 (segmentation must not depend on the setting): model=code (E5, lines also E3) and real=spec (SPEC) under 2."""
import json, os, subprocess

CONF = {
    "C15": dict(settings=(0, 2, 3, 7), stages="RW,E5,WIDTHSPEC", only="fg,st,sts,sw", monitors="", small=(2,)),
    "C06": dict(settings=(0, 2), stages="RW,E5,WIDTHSPEC", only="fg,st,sts,sw", monitors="C06", small=(2,)),
    "C10": dict(settings=(2,), stages="E5", only="fg,st,sts,sw", monitors="C10", small=(2,)),
    # segmentation must not depend on the setting: model=code and real=spec once more under 2
    "C01": dict(settings=(2,), stages="E5,SPEC", only="fg,gcc", monitors="C01", small=(2,), spec="fg"),
    "C02": dict(settings=(2,), stages="E5,SPEC", only="fw", monitors="", small=(2,), spec="fw"),
    "C03": dict(settings=(2,), stages="E5,SPEC", only="fs", monitors="", small=(2,), spec="fs"),
    "C04": dict(settings=(2,), stages="E3,E5,SPEC", only="fl", monitors="", small=(2,), spec="fl", algs="lb"),
}


def run(ctx, ob):
    evals = 0
    fails = []
    n = "3000" if ctx["tier"] == "quick" else "40000"
    conf = CONF[ctx.get("pid", "C15")]
    for k in conf["settings"]:
        out = os.path.join(ctx["BUILD"], "result_amb%d.json" % k)
        if os.path.exists(out):
            os.remove(out)
        cmd = [os.path.join(ctx["BUILD"], "harness"), "-facts", os.path.join(ctx["BUILD"], "facts.json"), "-driver", os.path.join(ctx["LEAN"], ".lake/build/bin/driver"),
               "-amb", str(k), "-seed", str(ctx["seed"] + k), "-tier", ctx["tier"], "-n", n, "-stages", conf["stages"], "-only", conf["only"], "-out", out,
               "-small=%s" % ("true" if k in conf["small"] else "false")]
        if conf["monitors"]:
            cmd += ["-monitors", conf["monitors"]]
        if conf.get("spec"):
            cmd += ["-spec-kinds", conf["spec"], "-spec-step=true"]
        if conf.get("algs"):
            cmd += ["-algs", conf["algs"]]
        p = subprocess.run(cmd, capture_output=True, text=True, timeout=3000)
        if not os.path.exists(out):
            ob.add("EastAsianAmbiguousWidth=%d: harness run" % k, False, p.stdout[-1500:] + p.stderr[-1500:], "correspondence")
            continue
        r = json.load(open(out))
        for s in r["stages"]:
            evals += s["evaluations"]
            kind = "oracle" if s["name"] in ("WIDTHSPEC", "SPEC") else "correspondence"
            ob.add("EastAsianAmbiguousWidth=%d: stage %s (%d evaluations)" % (k, s["name"], s["evaluations"]), s["mismatch_count"] == 0,
                   json.dumps((s["mismatches"] or [])[:4], indent=1), kind)
            if s["name"] in ("WIDTHSPEC", "SPEC"):
                for mm in s["mismatches"] or []:
                    hx = mm["op"].split()[-1]
                    fails.append(dict(kind="%s amb=%d" % (s["name"].lower(), k), input_hex=hx, input_go=mm.get("note", ""), detail="EastAsianAmbiguousWidth=%d: %s real=%s documented=%s %s" % (k, mm["op"], mm["real"], mm["model"], mm.get("note", ""))))
        for m in r.get("monitors") or []:
            evals += m["evaluations"]
            ob.add("EastAsianAmbiguousWidth=%d: monitor %s on the real code (%d inputs)" % (k, m["property"], m["evaluations"]), m["failure_count"] == 0,
                   json.dumps((m["failures"] or [])[:4], indent=1), "oracle")
            for f in m["failures"] or []:
                fails.append(dict(kind="monitor amb=%d" % k, input_hex=f["input_hex"], input_go=f["input_go_quoted"],
                                  detail="EastAsianAmbiguousWidth=%d: %s" % (k, f["detail"])))
    return fails, {"evaluations": evals, "settings_checked": sorted(set(conf["settings"]) | {1})}
