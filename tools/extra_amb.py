"""C15: the model-vs-code correspondence and the monitor are repeated with the configuration
variable set to 0, 2, 3 and 7 in separate harness processes (the default run is the main stage)."""
import json, os, subprocess


def run(ctx, ob):
    evals = 0
    fails = []
    n = "3000" if ctx["tier"] == "quick" else "40000"
    for k in (0, 2, 3, 7):
        out = os.path.join(ctx["BUILD"], "result_amb%d.json" % k)
        if os.path.exists(out):
            os.remove(out)
        cmd = [os.path.join(ctx["BUILD"], "harness"), "-facts", os.path.join(ctx["BUILD"], "facts.json"), "-driver", os.path.join(ctx["LEAN"], ".lake/build/bin/driver"),
               "-amb", str(k), "-seed", str(ctx["seed"] + k), "-tier", ctx["tier"], "-n", n, "-stages", "RW,E5,WIDTHSPEC", "-only", "fg,st,sts,sw", "-out", out]
        p = subprocess.run(cmd, capture_output=True, text=True, timeout=3000)
        if not os.path.exists(out):
            ob.add("EastAsianAmbiguousWidth=%d: harness run" % k, False, p.stdout[-1500:] + p.stderr[-1500:], "correspondence")
            continue
        r = json.load(open(out))
        for s in r["stages"]:
            evals += s["evaluations"]
            kind = "oracle" if s["name"] == "WIDTHSPEC" else "correspondence"
            ob.add("EastAsianAmbiguousWidth=%d: stage %s (%d evaluations)" % (k, s["name"], s["evaluations"]), s["mismatch_count"] == 0,
                   json.dumps((s["mismatches"] or [])[:4], indent=1), kind)
            if s["name"] == "WIDTHSPEC":
                for mm in s["mismatches"] or []:
                    hx = mm["op"].split()[-1]
                    fails.append(dict(kind="widthspec amb=%d" % k, input_hex=hx, input_go=mm.get("note", ""), detail="EastAsianAmbiguousWidth=%d: %s real=%s documented=%s %s" % (k, mm["op"], mm["real"], mm["model"], mm.get("note", ""))))
    return fails, {"evaluations": evals, "settings_checked": [0, 1, 2, 3, 7]}
