#!/bin/bash
# every check must stay quiet on the behaviour-preserving rewrites in seeded/harmless/*.diff
cd /verif
for d in seeded/harmless/*.diff; do
  [ -z "$(git -C /repo status --porcelain)" ] || { echo "/repo not clean"; exit 2; }
  git -C /repo apply "$PWD/$d" || { echo "$d does not apply"; continue; }
  echo "== $d"
  tools/runall.sh ${1:-quick}
  git -C /repo checkout -- . && git -C /repo clean -fdq
done
