#!/usr/bin/env python3
"""Confirm seeded changes produced by sub-agents and run the checks against them.

  tools/mutants.py import <src-dir> <PID>      confirm /tmp/mut/<PID>-out/m* in a scratch worktree and copy them to /verif/seeded/
  tools/mutants.py run [ids...] [--props C01,C02]   apply each seeded change to /repo, run the checks, undo, record the outcome

A change is kept only if, confirmed here: it applies, the unedited suite passes with it, the
demonstration fails with it and passes without it."""
import glob, json, os, shutil, subprocess, sys, time

V = "/verif"
REPO = "/repo"
ENV = dict(os.environ, GOFLAGS="-mod=mod", GOPROXY="off", GOSUMDB="off", GOTOOLCHAIN="local")


def sh(cmd, cwd=None, timeout=1800):
    p = subprocess.run(cmd, cwd=cwd, shell=True, capture_output=True, text=True, env=ENV, timeout=timeout)
    return p.returncode, p.stdout + p.stderr


def confirm(src, pid, offset=0):
    wt = "/tmp/mutconfirm"
    sh("git -C %s worktree remove --force %s" % (REPO, wt))
    rc, out = sh("git -C %s worktree add -q --detach %s HEAD" % (REPO, wt))
    assert rc == 0, out
    kept = []
    try:
        for d in sorted(glob.glob(os.path.join(src, "m*"))):
            k = os.path.basename(d)
            if offset:
                k = "m%d" % (int(k[1:]) + offset)
            sid = "%s-%s" % (pid, k)
            patch, demo, meta = (os.path.join(d, x) for x in ("patch.diff", "demo_test.go", "meta.json"))
            if not all(os.path.exists(x) for x in (patch, demo, meta)):
                print(sid, "incomplete, skipped")
                continue
            ran = []
            sh("git checkout -q -- . && git clean -fdq", cwd=wt)
            race = "-race" if "race" in open(meta).read().lower() and pid == "C16" else ""
            # clean tree: demo passes
            shutil.copy(demo, os.path.join(wt, "zz_seeded_demo_test.go"))
            rc0, out0 = sh("go test -vet=off -count=1 %s -run TestSeeded ./..." % race, cwd=wt)
            ran.append("clean tree: go test %s -run TestSeeded -> %s" % (race, "ok" if rc0 == 0 else "FAIL"))
            os.remove(os.path.join(wt, "zz_seeded_demo_test.go"))
            rc1, out1 = sh("git apply %s" % patch, cwd=wt)
            ran.append("git apply patch.diff -> %s" % ("ok" if rc1 == 0 else "FAIL"))
            rc2, out2 = sh("go build ./... && go test -vet=off -count=1 ./...", cwd=wt)
            ran.append("patched tree: go build && go test (unedited suite) -> %s" % ("ok" if rc2 == 0 else "FAIL"))
            shutil.copy(demo, os.path.join(wt, "zz_seeded_demo_test.go"))
            rc3, out3 = sh("go test -vet=off -count=1 %s -run TestSeeded ./..." % race, cwd=wt, timeout=600)
            ran.append("patched tree: go test %s -run TestSeeded -> %s" % (race, "ok" if rc3 == 0 else "FAIL (as required)"))
            ok = rc0 == 0 and rc1 == 0 and rc2 == 0 and rc3 != 0
            print(sid, "CONFIRMED" if ok else "REJECTED", ran)
            if ok:
                dst = os.path.join(V, "seeded", sid)
                os.makedirs(dst, exist_ok=True)
                shutil.copy(patch, dst)
                shutil.copy(demo, os.path.join(dst, "demo_test.go"))
                m = json.load(open(meta))
                out = {"id": sid, "property": pid, "summary": m.get("summary"), "needs": m.get("needs"),
                       "failing_input": m.get("failing_input"), "author": "independent sub-agent given only the property text and a scratch worktree",
                       "confirmed_by_me": ran, "base_commit": subprocess.run("git -C %s rev-parse --short HEAD" % REPO, shell=True, capture_output=True, text=True).stdout.strip()}
                json.dump(out, open(os.path.join(dst, "meta.json"), "w"), indent=1)
                kept.append(sid)
    finally:
        sh("git -C %s worktree remove --force %s" % (REPO, wt))
    return kept


def run(ids, props=None, tier="quick"):
    results = {}
    for sid in ids:
        d = os.path.join(V, "seeded", sid)
        meta = json.load(open(os.path.join(d, "meta.json")))
        plist = props or [meta["property"]]
        rc, out = sh("git -C %s status --porcelain" % REPO)
        assert out.strip() == "", "/repo is not clean: " + out
        rc, out = sh("git -C %s apply %s" % (REPO, os.path.join(d, "patch.diff")))
        if rc != 0:
            print(sid, "patch does not apply", out)
            continue
        try:
            for pid in plist:
                t0 = time.time()
                rc, out = sh("./check %s --tier %s" % (pid, tier), cwd=V, timeout=5400)
                vio = [l for l in out.splitlines() if l.startswith("VIOLATION")]
                res = {"exit": rc, "violation_line": vio[-1] if vio else None, "wall_s": round(time.time() - t0, 1)}
                if vio and "replay=" in vio[-1]:
                    rp = vio[-1].split("replay=")[1].split()[0]
                    try:
                        r = json.load(open(rp))
                        res["replay_input"] = r.get("input_go_quoted")
                        res["replay_detail"] = (r.get("detail") or r.get("kind") or "")[:300]
                        res["obligations_failed"] = [o["name"][:100] for o in r.get("obligations_failed", [])]
                    except Exception as e:  # noqa
                        res["replay_error"] = str(e)
                results.setdefault(sid, {})[pid] = res
                print(sid, pid, "exit", rc, (vio[-1] if vio else "no VIOLATION"), "%.0fs" % (time.time() - t0), res.get("replay_input"), flush=True)
        finally:
            sh("git -C %s checkout -- . && git -C %s clean -fdq" % (REPO, REPO))
        # record in meta.json
        meta.setdefault("check_results", {}).update(results.get(sid, {}))
        json.dump(meta, open(os.path.join(d, "meta.json"), "w"), indent=1)
    return results


if __name__ == "__main__":
    a = sys.argv[1:]
    if a[0] == "import":
        print(confirm(a[1], a[2], int(a[3]) if len(a) > 3 else 0))
    elif a[0] == "run":
        props = None
        tier = "quick"
        ids = []
        i = 1
        while i < len(a):
            if a[i] == "--props":
                props = a[i + 1].split(",")
                i += 2
            elif a[i] == "--tier":
                tier = a[i + 1]
                i += 2
            else:
                ids.append(a[i])
                i += 1
        if not ids:
            ids = sorted(os.listdir(os.path.join(V, "seeded")))
        run(ids, props, tier)
