"""Per-property configuration of /verif/check: which Lean module and theorems are the proof
obligations, which correspondence stages tie the model to the code, and which monitors/oracles
decide the property on the real code when an obligation breaks."""

TRUSTED_BASE = [
    "Lean 4.33.0 kernel (thorough tier re-checks the compiled modules with leanchecker)",
    "axioms allowed in property theorems: propext, Classical.choice, Quot.sound (audited with #print axioms on every run); no sorry, no user axioms, no native_decide",
    "the Go translator /verif/extract (constants, tables, rule rows); its output is re-validated against the running code exhaustively by stages E1/E2",
    "the hand-written Lean model of the control logic (Impl/*.lean), tied to the code by the exhaustive one-step stage E3 and the sampled whole-API stages E5/E6",
    "Go's unicode/utf8 is modelled (Utf8.lean), not verified; stage E4 compares the model with it",
    "my reading of UAX #29 / UAX #14 in Spec/*.lean (validated against the official break-test vectors embedded in /repo's tests)",
]

ASSUME_COMMON = [
    "theorems are about the Lean model; the model is tied to /repo's current source by the translator (regenerated every run) and the correspondence stages listed among the obligations",
]


def seg(pid, module, theorems, alg, kind, e2, extra_stage_opts=None):
    d = dict(
        module=module, theorems=theorems,
        cert_algs=[alg], algs=alg, e2props=e2,
        stages=["E1", "E2", "REF", "E3", "E5", "SPEC"], oracle_stages=["SPEC", "REF"],
        e5only=kind, spec_kinds=kind.split(",")[0], spec_step=True,
        monitors=[], assumptions=ASSUME_COMMON,
        n_quick=20000, n_thorough=400000,
    )
    if extra_stage_opts:
        d.update(extra_stage_opts)
    return d


def rel(module, theorems, monitors, stages=("E4", "E5"), **kw):
    d = dict(module=module, theorems=theorems, stages=list(stages), oracle_stages=[], monitors=monitors,
             assumptions=ASSUME_COMMON, n_quick=20000, n_thorough=400000)
    d.update(kw)
    return d


PROPS = {
    "C01": seg("C01", "Uniseg.Properties.C01",
               ["Uniseg.Properties.C01.grapheme_verdicts_eq_gb", "Uniseg.Properties.C01.grapheme_clusters_eq_gb",
                "Uniseg.Spec.GB.gbBreak_factor", "Uniseg.Cert.Grapheme.valid", "Uniseg.ChainG.fg_isFirstCut", "Uniseg.Chain.gen_chainV"],
               "gr", "fg,gcc", "g,G"),
    "C05": rel("Uniseg.Properties.C05",
               ["Uniseg.Properties.C05.word_partition", "Uniseg.Properties.C05.sentence_partition", "Uniseg.Properties.C05.line_partition",
                "Uniseg.Properties.C05.grapheme_partition", "Uniseg.Properties.C05.step_partition",
                "Uniseg.Properties.C05.firstWord_len", "Uniseg.Properties.C05.firstSentence_len", "Uniseg.Properties.C05.firstLineSegment_len",
                "Uniseg.Properties.C05.firstGraphemeCluster_len", "Uniseg.Properties.C05.step_len", "Uniseg.Properties.C05.empty_zero",
                "Uniseg.Properties.C05.word_byte_chain", "Uniseg.Properties.C05.step_byte_chain",
                "Uniseg.Bytes.sizeSum_runesOf", "Uniseg.Bytes.runesOf_drop"],
               ["C05"], hang_is_violation=True,
               assumptions=ASSUME_COMMON + ["that segment and rest alias the argument's memory and that the argument is not written is not a Lean theorem: the model's result is an offset; the harness checks pointer identity (unsafe.SliceData), lengths and a copy of the input on every generated case"]),
    "C10": rel("Uniseg.Properties.C10",
               ["Uniseg.Properties.C10.fix_vals", "Uniseg.Properties.C10.word_fix", "Uniseg.Properties.C10.sentence_fix", "Uniseg.Properties.C10.line_fix",
                "Uniseg.Properties.C10.grapheme_fix", "Uniseg.Properties.C10.step_fix", "Uniseg.Properties.C10.sizes", "Uniseg.Properties.C10.search_index_safe",
                "Uniseg.Utf8.decode_encode", "Uniseg.Utf8.decode_scalar"],
               ["C10"], stages=("E3", "E4", "E5"), hang_is_violation=True),
    "C02": seg("C02", "Uniseg.Properties.C02",
               ["Uniseg.Properties.C02.word_verdicts_eq_wb", "Uniseg.Properties.C02.word_segments_eq_wb", "Uniseg.Properties.C02.fffd_inert",
                "Uniseg.Spec.WB.wbBreak_factor", "Uniseg.Cert.Word.valid", "Uniseg.Auto.run_agree_start"],
               "wb", "fw", "w,g,G"),
    "C03": seg("C03", "Uniseg.Properties.C03",
               ["Uniseg.Properties.C03.sentence_verdicts_eq_sb", "Uniseg.Properties.C03.sentence_segments_eq_sb",
                "Uniseg.Spec.SB.sbBreak_factor", "Uniseg.Cert.Sentence.valid"],
               "sb", "fs", "s"),
    "C04": seg("C04", "Uniseg.Properties.C04",
               ["Uniseg.Properties.C04.line_verdicts_eq_uax14", "Uniseg.Properties.C04.line_segments_eq_uax14", "Uniseg.Properties.C04.mustBreak_iff",
                "Uniseg.Spec.LB.lbVerdict_factor", "Uniseg.Cert.Line.valid"],
               "lb", "fl", "l,L,e,E,g,G"),
    "C06": rel("Uniseg.Properties.C06",
               ["Uniseg.Properties.C06.cpWidth_eq", "Uniseg.Properties.C06.foldWidth_spec", "Uniseg.Properties.C06.cluster_width_eq_model",
                "Uniseg.Properties.C06.coherent_next", "Uniseg.Properties.C06.chain_widths_eq", "Uniseg.Properties.C06.stringWidth_eq_sum"],
               ["C08"], stages=("E2", "REF", "RW", "E5", "WIDTHSPEC"), oracle_stages=["WIDTHSPEC", "REF"],
               e2props="g,G,e,E,m", e5only="fg,st,sts,sw"),
    "C08": rel("Uniseg.Properties.C08",
               ["Uniseg.Properties.C08.pack_roundtrip", "Uniseg.Properties.C08.substates_in_range", "Uniseg.Properties.C08.lockstep_word",
                "Uniseg.Properties.C08.lockstep_sentence", "Uniseg.Properties.C08.lockstep_line", "Uniseg.Properties.C08.lockstep_grapheme",
                "Uniseg.Properties.C08.step_chain", "Uniseg.Properties.C08.step_clusters_eq_fg",
                "Uniseg.Range.gr_cells", "Uniseg.Range.wb_cells", "Uniseg.Range.sb_cells", "Uniseg.Range.lb_cells"],
               ["C08"], stages=("E5",), e5only="fg,fw,fs,fl,st,sts"),
    "C09": rel("Uniseg.Properties.C09",
               ["Uniseg.Properties.C09.step_variants", "Uniseg.Properties.C09.step_coherent", "Uniseg.Properties.C09.step_chain_variants",
                "Uniseg.Properties.C09.coherent_none"],
               ["C09"], stages=("E3", "E5"), extra="extra_twins"),
    "C13": rel("Uniseg.Properties.C13",
               ["Uniseg.Properties.C13.next_refines", "Uniseg.Properties.C13.observe_refines", "Uniseg.Properties.C13.rel_reset",
                "Uniseg.Properties.C13.run_refines", "Uniseg.Properties.C13.iterator_mirrors_stepstring", "Uniseg.Properties.C13.next_true_exactly_len"],
               ["C13"], stages=("E5", "E6"), e5only="sts"),
    "C14": rel("Uniseg.Properties.C14",
               ["Uniseg.Properties.C14.count_eq_clusters", "Uniseg.Properties.C14.count_zero_iff", "Uniseg.Properties.C14.count_le_len",
                "Uniseg.Properties.C14.reverse_eq_clusters_reversed", "Uniseg.Properties.C14.reverse_length", "Uniseg.Properties.C14.clusters_flatten"],
               ["C14"], stages=("E5",), e5only="fg,gcc,rev"),
    "C15": rel("Uniseg.Properties.C15",
               ["Uniseg.Properties.C15.runeWidth_amb", "Uniseg.Properties.C15.runeWidth_affine", "Uniseg.Properties.C15.firstGraphemeCluster_amb",
                "Uniseg.Properties.C15.grapheme_chain_amb", "Uniseg.Properties.C15.step_amb", "Uniseg.Properties.C15.step_flags_amb", "Uniseg.Properties.C15.config_only_read_in_runeWidth"],
               ["C15"], stages=("E2", "REF", "E5"), oracle_stages=["REF"], e2props="e,E", e5only="fg,st,sts,sw", extra="extra_amb"),
    "C16": rel("Uniseg.Properties.C16",
               ["Uniseg.Properties.C16.interleaving_eq_solo", "Uniseg.Properties.C16.package_is_read_only", "Uniseg.Properties.C16.config_read_only_in_runeWidth"],
               [], stages=(), extra="extra_race",
               trusted_extra=["the effect extraction (go/types walk in /verif/extract) and the allow-list of pure standard-library callees",
                              "the Go memory model (data-race-free programs are sequentially consistent); the race detector's incompleteness"]),
    "C17": rel("Uniseg.Properties.C17",
               ["Uniseg.Properties.C17.functional_api_reaches_no_allocator", "Uniseg.Properties.C17.stack_stays_reachable"],
               [], stages=("ALLOC",), oracle_stages=["ALLOC"], n_quick=6000,
               trusted_extra=["go tool objdump's listing of the harness binary, the allow-list of non-allocating runtime entry points, and the compiler used for the build (escape analysis is a property of the inspected binary)"]),
    "C11": rel("Uniseg.Properties.C11",
               ["Uniseg.Properties.C11.restart", "Uniseg.Properties.C11.word_restart", "Uniseg.Properties.C11.sentence_restart",
                "Uniseg.Properties.C11.line_restart", "Uniseg.Properties.C11.grapheme_restart", "Uniseg.Auto.restart_at_boundary",
                "Uniseg.Cert.Grapheme.valid", "Uniseg.Cert.Word.valid", "Uniseg.Cert.Sentence.valid", "Uniseg.Cert.Line.valid"],
               ["C11"], stages=("E1", "E3", "E5"), cert_algs=["gr", "wb", "sb", "lb"], e5only="fg,fw,fs,fl,st,sts"),
    "C12": rel("Uniseg.Properties.C12",
               ["Uniseg.Properties.C12.gb_cr_lf", "Uniseg.Properties.C12.wb_cr_lf", "Uniseg.Properties.C12.sb_cr_lf", "Uniseg.Properties.C12.lb_cr_lf",
                "Uniseg.Properties.C12.cr_lf_letters", "Uniseg.Properties.C12.must_iff", "Uniseg.Properties.C12.last_segment_must",
                "Uniseg.Properties.C12.last_cluster_flags", "Uniseg.Properties.C12.cutsV_last",
                "Uniseg.Properties.C04.line_segments_eq_uax14", "Uniseg.Properties.C04.mustBreak_iff"],
               ["C12"], stages=("E1", "E2", "REF", "E3", "E5", "SPEC"), oracle_stages=["SPEC", "REF"], cert_algs=["gr", "wb", "sb", "lb"],
               e2props="l,L", e5only="fl,st,sts,htlb", spec_kinds="fg,fw,fs,fl"),
}
