"""C16's search: the stress harness under the race detector."""
import json, os, subprocess


def run(ctx, ob):
    env = dict(ctx["GOENV"], CGO_ENABLED="1")
    race = os.path.join(ctx["BUILD"], "harness_race")
    p = subprocess.run("go build -race -tags verif -o %s ." % race, shell=True, cwd=os.path.join(ctx["V"], "harness"), capture_output=True, text=True, env=env)
    if p.returncode != 0:
        ob.add("race-detector build of the stress harness", False, p.stdout + p.stderr, "oracle")
        return [], {}
    out = os.path.join(ctx["BUILD"], "stress.json")
    fails = []
    evals = 0
    runs = 3 if ctx["tier"] == "quick" else 12
    for i in range(runs):
        if os.path.exists(out):
            os.remove(out)
        # a fresh process each time: lazily initialised hidden state would be touched concurrently first
        p = subprocess.run([race, "-stress", "16", "-stress-rounds", "6" if ctx["tier"] == "quick" else "30", "-out", out], capture_output=True, text=True,
                           env=dict(env, GORACE="halt_on_error=0 exitcode=66"), timeout=3000)
        racy = "DATA RACE" in p.stderr
        res = json.load(open(out)) if os.path.exists(out) else {}
        evals += res.get("evaluations", 0)
        mism = res.get("mismatches") or []
        ok = p.returncode == 0 and not racy and not mism
        if not ok:
            detail = ""
            if racy:
                i0 = p.stderr.find("WARNING: DATA RACE")
                detail += p.stderr[i0:i0 + 2500]
            if mism:
                detail += json.dumps(mism[:3], indent=1)
            ob.add("stress run %d under the race detector: 16 goroutines, mixed API calls on shared inputs, results = sequential results, no race report" % i, False, detail or (p.stdout + p.stderr)[-2000:], "oracle")
            if mism:
                m = mism[0]
                fails.append(dict(kind="concurrent result differs", input_hex=m["input_hex"], input_go=m["input_go_quoted"],
                                  detail="goroutine %d got a different result concurrently than sequentially on %s" % (m["goroutine"], m["input_go_quoted"])))
            elif racy:
                fails.append(dict(kind="data race", input_hex="-", input_go="(stress corpus)", detail="the race detector reports a data race in the package under 16 concurrent goroutines: " + detail[:1500]))
            break
    else:
        ob.add("%d stress runs under the race detector (fresh process each): 16 goroutines, mixed API calls on shared inputs, results = sequential results, no race report" % runs, True, "", "oracle")
    return fails, {"evaluations": evals, "stress_runs": runs}
