"""C09 obligation "twins": the byte and string variants are the same text up to the []byte/string
renaming, except for the one expected residual (StepString's single-rune early return)."""
import json, os


def run(ctx, ob):
    f = json.load(open(os.path.join(ctx["BUILD"], "facts.json")))
    exp = json.load(open(os.path.join(ctx["V"], "tools", "expected_twins.json")))
    bad = []
    for p in f["twins"]["pairs"]:
        key = p["bytes"] + "/" + p["string"]
        if p["residual"] != exp.get(key):
            bad.append({"pair": key, "residual": p["residual"][:30], "expected": (exp.get(key) or [])[:30]})
    ob.add("twins: each string-typed function is its byte-slice twin up to the []byte/string renaming (residual diff of the normalised ASTs = the expected StepString early return only)",
           not bad, json.dumps(bad, indent=1), "correspondence")
    return [], {"twin_pairs": len(f["twins"]["pairs"])}
