"""C09 obligation "twins": the byte and string variants are the same text up to the []byte/string
renaming, except for the one expected residual (StepString's single-rune early return).

The translator folds constant expressions to their values before diffing (so that a mask that differs
between the twins shows up as extra residual lines, however it is spelled); the residual is compared
with the committed expectation modulo the integer literals themselves (so that respelling a constant
expression as a named constant, or renumbering constants consistently in both twins, changes nothing)."""
import json, os, re


def shape(lines):
    return [re.sub(r"\b\d+\b", "K", l) for l in (lines or [])]


def run(ctx, ob):
    f = json.load(open(os.path.join(ctx["BUILD"], "facts.json")))
    exp = json.load(open(os.path.join(ctx["V"], "tools", "expected_twins.json")))
    bad = []
    for p in f["twins"]["pairs"]:
        key = p["bytes"] + "/" + p["string"]
        if shape(p["residual"]) != shape(exp.get(key)):
            bad.append({"pair": key, "residual": p["residual"][:30], "expected": (exp.get(key) or [])[:30]})
    ob.add("twins: each string-typed function is its byte-slice twin up to the []byte/string renaming (residual diff of the normalised, constant-folded ASTs = the expected StepString early return only)",
           not bad, json.dumps(bad, indent=1), "correspondence")
    return [], {"twin_pairs": len(f["twins"]["pairs"])}
