#!/usr/bin/env python3
"""Writes /verif/seeded/README.md: one row per confirmed seeded change with the outcome of the check of its property."""
import glob, json, os

rows = []
for f in sorted(glob.glob("/verif/seeded/C*/meta.json")):
    m = json.load(open(f))
    pid = m["property"]
    cr = (m.get("check_results") or {}).get(pid, {})
    vio = cr.get("violation_line") or ""
    outcome = "not run"
    if cr:
        if cr.get("exit") == 1 and "no-failing-input-found" in vio:
            outcome = "VIOLATION, no-failing-input-found"
        elif cr.get("exit") == 1:
            outcome = "VIOLATION with replay input `%s`" % (cr.get("replay_input") or "").replace("|", "\\|")[:70]
        else:
            outcome = "**missed**"
    summ = (m.get("summary") or "").replace("\n", " ").replace("|", "\\|")
    if len(summ) > 260:
        summ = summ[:257] + "..."
    rows.append("| %s | %s | %s |" % (m["id"], summ, outcome))
out = ["# Seeded changes", "",
       "Each directory holds `patch.diff` (applies to /repo at the pinned commit plus the `fix:` commits), `demo_test.go` (fails with the patch, passes without)",
       "and `meta.json` (author's description, my confirmation log, and the result of running the check of its property: `tools/mutants.py run <id>`).",
       "Numbering per property in the order of the five rounds (see DESIGN.md §6): m1-m3 first round, m4-m6 second (less obvious ideas), then round 3 (evasive; nine properties), round 4 (three each: multi-step, cooperating sites, almost-right optimisations) and round 5 (two each: history of calls, window edges, integer widths, rare class combinations). `harmless/` holds behaviour-preserving rewrites on which every check must stay quiet.", "",
       "| id | change | check of its property (quick tier) |", "|---|---|---|"] + rows + [""]
open("/verif/seeded/README.md", "w").write("\n".join(out))
print(len(rows), "rows")
