#!/usr/bin/env python3
"""Writes /verif/MANIFEST.json from tools/props.py (so the two cannot drift)."""
import json, os, subprocess, sys
sys.path.insert(0, os.path.dirname(os.path.abspath(__file__)))
from props import PROPS, TRUSTED_BASE

TEXT = {
 "C01": ("Theorem for every code-point string of any length: the chain of FirstGraphemeCluster calls cuts exactly where the declarative GB1-GB999 reading (Spec/Grapheme.lean) places a boundary. Proved by a kernel-checked product-closure certificate (regenerated from grTransitions on every run) + generic lifting + the 'chain = cuts of one run' theorem; tied to the code by exhaustive stages E1-E3 and sampled E5; the tables by REF.", "3 C01"),
 "C02": ("Same for words (WB1-WB999 incl. WB4 and unbounded WB6/WB7b/WB12 look-ahead as a promise component); theorems word_verdicts_eq_wb / word_segments_eq_wb.", "3 C02"),
 "C03": ("Same for sentences (SB1-SB998 incl. the unbounded SB8 scan, U+FFFD inside it); theorems sentence_verdicts_eq_sb / sentence_segments_eq_sb.", "3 C03"),
 "C04": ("Same for lines (UAX #14 with the Example-7 tailoring, three-valued verdicts, mustBreak); theorems line_verdicts_eq_uax14 / line_segments_eq_uax14 / mustBreak_iff.", "3 C04"),
 "C05": ("Theorems for all byte lists and all states: progress (>=1 rune, >=1 byte), no over-run, segment ends at a decoded-rune boundary, chain partitions the input in at most len(input) calls, empty input gives zero values; for all five loop shapes. Memory aliasing is monitored on the real code, not proved.", "3 C05"),
 "C06": ("Theorems: from every coherent state the reported width is the documented width of the cluster's code points (composition rule proved equal to the loop's fold), coherence is preserved along the chain, StringWidth is the sum; per-code-point widths compared exhaustively (RW) and clusters against the Lean spec (WIDTHSPEC).", "3 C06"),
 "C07": ("Theorems for all 1,114,112 code points without enumeration: each regenerated table is sorted (kernel check) hence binary search = interval lookup; every lookup, fast paths included, equals the committed Unicode 15.0.0 reference classification (kernel-evaluated walks over 5515 reference rows, one module per table); code points with the same reference values are interchangeable anywhere in a text (C0xU.*_same_class, width_same_class); every code point's letter is in the alphabet of the certificates, which makes C01-C04 unconditional. Real lookups compared with the reference on all code points (REF); signature independence on the real code for every code point, at transition level (E3b) and through the whole public API on probe strings (E3c); class handling through E3/SPEC/WIDTHSPEC.", "3 C07"),
 "C08": ("Theorems: pack/unpack round trip under the proved state ranges; Step is a first-cut loop over the lock-step product of the four transition functions; its clusters are FirstGraphemeCluster's; its flags decode to the line/word/sentence verdicts of the four specialised runs at the cluster's end.", "3 C08"),
 "C09": ("The model has one definition per byte/string pair; the translator re-checks on every run that the Go twins are the same text up to the renaming (twin normalisation), except StepString's early return, which is proved unobservable from every coherent state and along the whole chain.", "3 C09"),
 "C10": ("Theorems: every loop result depends on the input only through the decoded scalar values; re-encoding (ill-formed byte -> U+FFFD) preserves them; hence identical chains (segments in code points, widths, flags, states) on b and fix b; totality by construction, index safety of the table search.", "3 C10"),
 "C11": ("Theorems for every text of code points and every reported boundary: after it the carried state behaves as the fresh start on the suffix (obligation inside the kernel-checked product certificates) and the verdicts before it are those of the prefix alone (second kernel-checked certificate per segmenter: two runs of the spec automaton, full text vs cut text; look-ahead never matters across a reported boundary); hence verdict lists and segment lists (lengths and the verdict ending each segment) compose (C11U.*_verdicts_compose, *_segments_compose). Monitor re-segments prefix and suffix at every reported boundary on the real code, all segmenters and Step.", "3 C11"),
 "C12": ("Theorems: for every byte string HasTrailingLineBreak = (what DecodeLastRune returns is one of the seven code points) (hasTrailingLineBreak_iff, from the line-table walk); mustBreak iff the spec verdict is '!' (C04), which at a non-final boundary is 'previous class is BK/CR/LF/NL' (must_iff, nonfinal_must_iff); last segment / last cluster flags; CR x LF is the first rule of all four specs and U+000D/U+000A are CR/LF in all regenerated tables.", "3 C12"),
 "C13": ("Refinement theorem: every method preserves the relation to a cursor over the StepString results and returns the cursor's result, hence for every finite call sequence; Next is true exactly once per result.", "3 C13"),
 "C14": ("Theorems: count = number of clusters, 0 iff empty, <= length; ReverseString = clusters reversed (the odd early exit only fires on an empty rest), same length.", "3 C14"),
 "C15": ("Theorems: cluster, state and flags are independent of the setting; width is affine in it (three-point invariant through the loops); the variable is read only by runeWidth and never written (kernel-decided on regenerated facts); model=code and width spec re-run under settings 0,2,3,7.", "3 C15"),
 "C16": ("Generic theorem: with a read-only shared store every interleaving equals the solo runs; instantiation obligation decided by the kernel on effect facts regenerated from /repo (no global writes, address-taking, stores through parameters, goroutines, channels, indirect calls; allow-listed externals). Race-detector stress run as the search.", "3 C16"),
 "C17": ("Theorem over the call graph extracted from the compiled binary on every run: no allocating runtime entry point and no indirect call is reachable from the 14 functional-API functions; testing.AllocsPerRun on generated inputs as the search.", "3 C17"),
}
TECH = "machine-checked proof in Lean 4 (kernel-checked product-closure certificates, induction over loops) + regenerated translation of tables/rules/facts + exhaustive one-step and sampled whole-API correspondence"


def main():
    hook = subprocess.run("git -C /repo log --format=%H --grep='^verif:' -n 5", shell=True, capture_output=True, text=True).stdout.split()
    checks = []
    for pid in sorted(PROPS):
        cfg = PROPS[pid]
        text, ref = TEXT[pid]
        checks.append({
            "property_id": pid,
            "quick_cmd": "./check %s --tier quick" % pid,
            "thorough_cmd": "./check %s --tier thorough" % pid,
            "evidence_file": "/verif/evidence/%s.json" % pid,
            "replay_cmd_template": "./check replay {path}",
            "engine": "lean-proof",
            "level_claimed": {"category": "proof", "text": text, "design_ref": "DESIGN.md §" + ref},
            "level_note": "Trusted: " + "; ".join(TRUSTED_BASE + cfg.get("trusted_extra", [])) + ". " + " ".join(cfg.get("assumptions", [])),
            "technique": TECH,
        })
    all_ids = ["C%02d" % i for i in range(1, 18)]
    na = [{"property_id": p, "reason": "check under construction in this session; not claimed until its check is registered"} for p in all_ids if p not in PROPS]
    m = {
        "version": 1,
        "setup_cmd": "./check setup",
        "hooks": {"guard": "verif", "enable": "go build -tags verif (the harness module replaces github.com/rivo/uniseg => /repo)",
                  "baseline_off_cmd": "cd /repo && go test -json -vet=off -count=1 -timeout 25m ./...",
                  "source_commits": hook, "add_only": True},
        "engines": [{"name": "lean-proof", "path": "/verif/check", "serves_properties": sorted(PROPS),
                     "kind_free_text": "Lean 4 model + theorems (lake project /verif/lean), Go translator /verif/extract (regenerates constants, tables, rules, facts), Go harness /verif/harness (correspondence stages E1-E6, REF, RW, SPEC, WIDTHSPEC, ALLOC, monitors), driver /verif/check"}],
        "checks": checks,
        "notes": "Every check regenerates the data part of the model from /repo's working tree, rebuilds the affected Lean modules (kernel re-check), audits axioms, and runs the correspondence stages and monitors; see DESIGN.md. known_findings.json lists repaired defects (15 'fix:' commits in /repo); no open findings. seeded/ holds 102 confirmed seeded changes (all detected with a concrete replay) and behaviour-preserving rewrites on which all checks stay quiet.",
        "not_applicable": na,
    }
    json.dump(m, open("/verif/MANIFEST.json", "w"), indent=1)
    print("MANIFEST.json:", len(checks), "checks,", len(na), "not claimed")


if __name__ == "__main__":
    main()
