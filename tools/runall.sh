#!/bin/bash
# run every registered check on the current tree (refreshes evidence/); prints one line per check
cd /verif
for p in $(python3 -c "import sys; sys.path.insert(0,'tools'); from props import PROPS; print(' '.join(sorted(PROPS)))"); do
  out=$(./check $p --tier ${1:-quick} 2>&1); rc=$?
  echo "$p exit=$rc $(echo "$out" | grep -E "obligations discharged|VIOLATION" | tr '\n' ' ')"
done
