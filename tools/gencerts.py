#!/usr/bin/env python3
# developer helper: regenerate Cert/*.lean for the given algorithms
import os, re, subprocess, sys
V = "/verif"
reps = subprocess.run([V + "/build/harness", "-print-reps"], capture_output=True, text=True).stdout.strip().splitlines()[-1]
for alg in sys.argv[1:]:
    out = subprocess.run([V + "/lean/.lake/build/bin/driver"], input="certgen %s %s\n" % (alg, reps), capture_output=True, text=True).stdout
    print(out.splitlines()[0])
    parts = re.split(r"^=== FILE (\S+) ===\n", out, flags=re.M)
    for name, body in zip(parts[1::2], parts[2::2]):
        path = os.path.join(V, "lean/Uniseg/Cert", name)
        try:
            if open(path).read() == body:
                continue
        except OSError:
            pass
        open(path, "w").write(body)
