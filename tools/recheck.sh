#!/bin/bash
# developer helper: regenerate, rebuild, run the one-step correspondence and the product exploration
set -e
export GOFLAGS=-mod=mod GOPROXY=off GOSUMDB=off GOTOOLCHAIN=local
cd /verif
./build/extract -repo /repo -out lean/Uniseg/Gen -facts build/facts.json >/dev/null
(cd lean && lake build driver 2>&1 | grep -v "^✔" | grep -B2 -A12 "error" | head -60 || true)
(cd harness && go build -tags verif -o /verif/build/harness .)
./build/harness -stages E1,E3 -out /tmp/rc.json
python3 - <<'PY'
import json
r=json.load(open('/tmp/rc.json'))
for s in r['stages']:
    print(s['name'], s['evaluations'], s['mismatch_count'])
    for m in (s['mismatches'] or [])[:8]: print('  ', m)
PY
REPS=$(./build/harness -print-reps)
for a in "$@"; do echo "explore $a $REPS" | ./lean/.lake/build/bin/driver | cut -c1-200 | head -${LINES_MAX:-12}; done
