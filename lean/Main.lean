import Uniseg.Impl.Loops
import Uniseg.Explore
import Uniseg.CertGen
import Uniseg.Spec.Width
/-! Line-protocol driver: one operation per input line, one canonical output line each.
Core-only (no Mathlib) so that it links as a `lean_exe`. -/
open Uniseg Uniseg.Gen

def hexVal (c : Char) : Nat :=
  if '0' ≤ c && c ≤ '9' then c.toNat - '0'.toNat
  else if 'a' ≤ c && c ≤ 'f' then c.toNat - 'a'.toNat + 10
  else if 'A' ≤ c && c ≤ 'F' then c.toNat - 'A'.toNat + 10
  else 0

def parseHex (s : String) : List Nat :=
  if s == "-" then [] else
  let rec go : List Char → List Nat → List Nat
    | a :: b :: rest, acc => go rest ((hexVal a * 16 + hexVal b) :: acc)
    | _, acc => acc.reverse
  go s.toList []

def hexDigit (n : Nat) : Char := if n < 10 then Char.ofNat (48 + n) else Char.ofNat (87 + n)

def toHex (b : List Nat) : String :=
  if b.isEmpty then "-" else
  String.ofList (b.flatMap fun x => [hexDigit (x / 16 % 16), hexDigit (x % 16)])

def parseState (s : String) : Option Nat :=
  if s.startsWith "-" then none else s.toNat?

def b2n (b : Bool) : Nat := if b then 1 else 0

def joinNat (l : List Nat) : String := " ".intercalate (l.map toString)

def packedOf (t : String) : Nat :=
  if t == "gr" then grPacked else if t == "wb" then wbPacked else if t == "sb" then sbPacked else lbPacked

def dumpRules (t : String) : IO Unit := do
  let pk := packedOf t
  for s in [0:256] do
    for p in [0:128] do
      match ruleGet pk (some s) p with
      | some (ns, v, rule) => IO.println s!"{s} {p} {ns} {v} {rule}"
      | none => pure ()

def propFn (name : String) (r : Nat) : Nat :=
  if name == "g" then propertyGraphemes r
  else if name == "w" then property wordTable r
  else if name == "s" then property sentenceTable r
  else if name == "l" then let x := propertyLineBreak r; x.1 * 256 + x.2
  else if name == "e" then propertyEastAsianWidth r
  else if name == "m" then property emojiTable r
  else if name == "G" then property graphemeTable r
  else if name == "L" then let e := propertySearch lineTable r; eProp e * 256 + eGc e
  else if name == "E" then property eawTable r
  else 0

/-- run-length encoded dump of a classification function over all code points -/
def dumpProp (name : String) : IO Unit := do
  let mut lo := 0
  let mut cur := propFn name 0
  for r in [1:0x110000] do
    let v := propFn name r
    if v != cur then
      IO.println s!"{lo} {r-1} {cur}"
      lo := r
      cur := v
  IO.println s!"{lo} {0x10FFFF} {cur}"

/-- all segments of a text obtained by chaining from state −1 -/
partial def chain (kind : String) (amb : Nat) (b : List Nat) (st : Option Nat) (acc : List String) : List String :=
  if b.isEmpty then acc.reverse else
  if kind == "fg" then
    let r := firstGraphemeCluster amb b st
    if r.1 == 0 then (s!"STUCK" :: acc).reverse else
    chain kind amb (b.drop r.1) (some r.2.2) (s!"{r.1}:{r.2.1}:{r.2.2}" :: acc)
  else if kind == "fw" then
    let r := firstWord b st
    if r.1 == 0 then (s!"STUCK" :: acc).reverse else
    chain kind amb (b.drop r.1) (some r.2) (s!"{r.1}:{r.2}" :: acc)
  else if kind == "fs" then
    let r := firstSentence b st
    if r.1 == 0 then (s!"STUCK" :: acc).reverse else
    chain kind amb (b.drop r.1) (some r.2) (s!"{r.1}:{r.2}" :: acc)
  else if kind == "fl" then
    let r := firstLineSegment b st
    if r.1 == 0 then (s!"STUCK" :: acc).reverse else
    chain kind amb (b.drop r.1) (some r.2.2) (s!"{r.1}:{b2n r.2.1}:{r.2.2}" :: acc)
  else
    let r := step (kind == "sts") amb b st
    if r.1 == 0 then (s!"STUCK" :: acc).reverse else
    chain kind amb (b.drop r.1) (some r.2.2) (s!"{r.1}:{r.2.1}:{r.2.2}" :: acc)

def optHex : Option (List Nat) → String
  | none => "nil"
  | some b => toHex b

def iterOps (amb : Nat) (s : List Nat) (ops : String) : String := Id.run do
  let mut g := newGraphemes s
  let mut out : Array String := #[]
  for c in ops.toList do
    if c == 'N' then
      let (g', ok) := g.next amb
      g := g'
      out := out.push s!"N{b2n ok}"
    else if c == 'R' then
      g := g.reset
      out := out.push "R"
    else if c == 'S' then out := out.push s!"S{toHex g.str}"
    else if c == 'U' then
      out := out.push (match g.runes with | none => "Unil" | some l => "U" ++ ",".intercalate (l.map toString))
    else if c == 'B' then out := out.push s!"B{optHex g.bytes}"
    else if c == 'P' then out := out.push s!"P{g.positions.1},{g.positions.2}"
    else if c == 'W' then out := out.push s!"W{b2n g.isWordBoundary}"
    else if c == 'E' then out := out.push s!"E{b2n g.isSentenceBoundary}"
    else if c == 'L' then out := out.push s!"L{g.lineBreak}"
    else if c == 'D' then out := out.push s!"D{g.width}"
    else out := out.push "?"
  return " ".intercalate out.toList

def handle (toks : List String) : IO Unit := do
  match toks with
  | ["dumprules", t] => dumpRules t
  | ["dumpprop", n] => dumpProp n
  | ["tg", st, r] =>
    let t := transitionGraphemeState (parseState st) r.toNat!
    IO.println s!"{t.1} {t.2.1} {b2n t.2.2}"
  | ["tw", st, r, rest] =>
    let t := transitionWordBreakState (parseState st) r.toNat! (runeVals (Utf8.runesOf (parseHex rest)))
    IO.println s!"{t.1} {b2n t.2}"
  | ["ts", st, r, rest] =>
    let t := transitionSentenceBreakState (parseState st) r.toNat! (runeVals (Utf8.runesOf (parseHex rest)))
    IO.println s!"{t.1} {b2n t.2}"
  | ["tl", st, r, rest] =>
    let t := transitionLineBreakState (parseState st) r.toNat! (runeVals (Utf8.runesOf (parseHex rest)))
    IO.println s!"{t.1} {t.2}"
  | ["rw", amb, r, prop] => IO.println s!"{runeWidth amb.toNat! r.toNat! prop.toNat!}"
  | ["dec", h] => let d := Utf8.decodeRune (parseHex h); IO.println s!"{d.1} {d.2}"
  | ["declast", h] => let d := Utf8.decodeLastRune (parseHex h); IO.println s!"{d.1} {d.2}"
  | ["fg", amb, st, h] =>
    let r := firstGraphemeCluster amb.toNat! (parseHex h) (parseState st)
    IO.println s!"{r.1} {r.2.1} {r.2.2}"
  | ["fw", st, h] => let r := firstWord (parseHex h) (parseState st); IO.println s!"{r.1} {r.2}"
  | ["fs", st, h] => let r := firstSentence (parseHex h) (parseState st); IO.println s!"{r.1} {r.2}"
  | ["fl", st, h] =>
    let r := firstLineSegment (parseHex h) (parseState st); IO.println s!"{r.1} {b2n r.2.1} {r.2.2}"
  | ["st", amb, st, h] =>
    let r := step false amb.toNat! (parseHex h) (parseState st); IO.println s!"{r.1} {r.2.1} {r.2.2}"
  | ["sts", amb, st, h] =>
    let r := step true amb.toNat! (parseHex h) (parseState st); IO.println s!"{r.1} {r.2.1} {r.2.2}"
  | ["chain", kind, amb, h] => IO.println (" ".intercalate (chain kind amb.toNat! (parseHex h) none []))
  | ["sw", amb, h] => IO.println s!"{stringWidth amb.toNat! (parseHex h)}"
  | ["gcc", h] => IO.println s!"{graphemeClusterCount (parseHex h)}"
  | ["rev", h] => IO.println (toHex (reverseString (parseHex h)))
  | ["htlb", h] => IO.println s!"{b2n (hasTrailingLineBreak (parseHex h))}"
  | ["it", amb, h, ops] => IO.println (iterOps amb.toNat! (parseHex h) ops)
  | ["it", amb, h] => IO.println (iterOps amb.toNat! (parseHex h) "")
  | ["explore", alg, runes] =>
    for l in Explore.run alg ((runes.splitOn ",").filterMap String.toNat?) do IO.println l
  | ["certgen", alg, runes] =>
    for l in CertGen.run alg ((runes.splitOn ",").filterMap String.toNat?) do IO.println l
  | ["paths", alg, runes] =>
    for l in Explore.runPaths alg ((runes.splitOn ",").filterMap String.toNat?) do IO.println l
  | ["cutgen", alg, runes] =>
    for l in CertGen.runCut alg ((runes.splitOn ",").filterMap String.toNat?) do IO.println l
  | ["spec", alg, h] =>
    let rs := runeVals (Utf8.runesOf (parseHex h))
    let out :=
      if alg == "g" then String.join ((Spec.specG rs).map Auto.b2s)
      else if alg == "w" then String.join ((Spec.specW rs).map Auto.b2s)
      else if alg == "s" then String.join ((Spec.specS rs).map Auto.b2s)
      else String.join ((Spec.specL rs).map Auto.showLV)
    IO.println (if out.isEmpty then "-" else out)
  | ["dumprw", amb, prop] =>
    let a := amb.toNat!
    let p := prop.toNat!
    let mut lo := 0
    let mut cur := runeWidth a 0 p
    for r in [1:0x110000] do
      let v := runeWidth a r p
      if v != cur then
        IO.println s!"{lo} {r-1} {cur}"
        lo := r
        cur := v
    IO.println s!"{lo} {0x10FFFF} {cur}"
  | ["specwidth", amb, h] =>
    let vals := runeVals (Utf8.runesOf (parseHex h))
    let bs := Spec.specG vals
    -- groups of code points between spec boundaries
    let rec groups : List Nat → List Bool → List Nat → List (List Nat) → List (List Nat)
      | [], _, cur, acc => (if cur.isEmpty then acc else cur.reverse :: acc).reverse
      | v :: vs, [], cur, acc => groups vs [] (v :: cur) acc
      | v :: vs, b :: bs, cur, acc =>
        if cur.isEmpty then groups vs (b :: bs) [v] acc
        else if b then groups vs bs [v] (cur.reverse :: acc) else groups vs bs (v :: cur) acc
    let gs := groups vals bs [] []
    let out := gs.map fun g => s!"{g.length}:{Spec.clusterWidth amb.toNat! g}"
    IO.println (if out.isEmpty then "-" else " ".intercalate out)
  | ["sync"] => do IO.println "sync"; (← IO.getStdout).flush
  | _ => IO.println "bad-op"

partial def loop (h : IO.FS.Stream) : IO Unit := do
  let line ← h.getLine
  if line.isEmpty then return ()
  let toks := (line.trimAscii.toString.splitOn " ").filter (· ≠ "")
  if !toks.isEmpty then handle toks
  loop h

def main : IO Unit := do
  loop (← IO.getStdin)
  (← IO.getStdout).flush
