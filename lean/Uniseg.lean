import Uniseg.Gen
import Uniseg.Utf8
import Uniseg.Lookup
import Uniseg.Impl.Transitions
import Uniseg.Impl.Loops
import Uniseg.Spec.Apply
import Uniseg.Explore
