import Std.Data.HashMap
import Uniseg.Spec.Apply
/-! # Product exploration: implementation automaton × canonical spec automaton × look-ahead promise

Used (a) to *compute* the reachable product set that `Cert/*.lean` then has the kernel check for
closure, and (b) as the search for a failing input when a closure obligation no longer checks:
every disagreeing product transition comes with a shortest letter path from the start of the text
and a suffix realising the promise, i.e. a concrete string.

Not part of any proof: nothing here is trusted. -/
namespace Uniseg.Explore
open Uniseg Uniseg.Gen Uniseg.Spec

/-- One segmentation algorithm as a pair of automata over a common letter alphabet `L`, with the
look-ahead abstracted to a promise `R` about the text after the current letter. -/
structure Alg (L R Q V : Type) where
  name : String
  rhoEnd : R                               -- promise of the empty rest
  laStep : L → R → R                       -- promise of `x :: rest` from the promise of `rest`
  trans : Option Nat → L → R → Nat × V     -- implementation (class-level core)
  q0 : Q
  qstep : Q → L → Q
  qout : Q → L → R → V                     -- spec verdict before `x`, given the promise of the text after `x`
  showV : V → String

structure Node (R Q : Type) where
  s : Option Nat
  q : Q
  rho : R
deriving BEq, Hashable, Inhabited

instance : Inhabited GB.Q := ⟨GB.q0⟩
instance : Inhabited WB.Q := ⟨WB.q0⟩
instance : Inhabited SB.Q := ⟨SB.q0⟩
instance : Inhabited LB.Q := ⟨LB.q0⟩

structure Disagree where
  implState : String
  letterRune : Nat
  implV : String
  specV : String
  path : List Nat       -- runes from the start of the text up to and including the deciding one
  suffix : List Nat     -- runes realising the promise

variable {L R Q V : Type} [BEq L] [BEq R] [Hashable R] [BEq Q] [Hashable Q] [BEq V] [Inhabited R] [Inhabited Q]

/-- realisable promises with a witness suffix (as runes), by backward closure from the empty rest -/
partial def promises (A : Alg L R Q V) (letters : Array (L × Nat)) : Array (R × List Nat) := Id.run do
  let mut seen : Std.HashMap R (List Nat) := Std.HashMap.emptyWithCapacity 64
  seen := seen.insert A.rhoEnd []
  let mut work : Array R := #[A.rhoEnd]
  let mut out : Array (R × List Nat) := #[(A.rhoEnd, [])]
  let mut i := 0
  while i < work.size do
    let rho := work[i]!
    let wit := (seen.get? rho).getD []
    i := i + 1
    for (x, r) in letters do
      let rho' := A.laStep x rho
      if !seen.contains rho' then
        seen := seen.insert rho' (r :: wit)
        work := work.push rho'
        out := out.push (rho', r :: wit)
  return out

structure Result (R Q : Type) where
  nodes : Array (Node R Q)
  transitions : Nat
  disagreements : Array Disagree
  disagreeCount : Nat

partial def explore (A : Alg L R Q V) (letters : Array (L × Nat)) (maxReport : Nat := 40) : Result R Q := Id.run do
  let proms := promises A letters
  -- node table: index, parent index, rune taken
  let mut idx : Std.HashMap (Node R Q) Nat := Std.HashMap.emptyWithCapacity 4096
  let mut nodes : Array (Node R Q) := #[]
  let mut parent : Array (Nat × Nat) := #[]     -- (parent index, rune); roots have parent = self
  for (rho, _) in proms do
    let n : Node R Q := ⟨none, A.q0, rho⟩
    if !idx.contains n then
      idx := idx.insert n nodes.size
      parent := parent.push (nodes.size, 0)
      nodes := nodes.push n
  let mut transitions := 0
  let mut dis : Array Disagree := #[]
  let mut disCount := 0
  let mut seenFam : Std.HashMap String Nat := Std.HashMap.emptyWithCapacity 64
  let mut i := 0
  while i < nodes.size do
    let n := nodes[i]!
    for (x, r) in letters do
      for (rho', wit) in proms do
        if A.laStep x rho' == n.rho then
          transitions := transitions + 1
          let t := A.trans n.s x rho'
          let sv := A.qout n.q x rho'
          if n.s.isSome && !(t.2 == sv) then
            disCount := disCount + 1
            let fam := s!"{n.s.getD 0}/{r}/{A.showV t.2}/{A.showV sv}"
            if !seenFam.contains fam && dis.size < maxReport then
              seenFam := seenFam.insert fam 1
              -- reconstruct the path
              let mut path : List Nat := [r]
              let mut j := i
              while parent[j]!.1 != j do
                path := parent[j]!.2 :: path
                j := parent[j]!.1
              dis := dis.push ⟨toString (n.s.getD 0), r, A.showV t.2, A.showV sv, path, wit⟩
          let n' : Node R Q := ⟨some t.1, A.qstep n.q x, rho'⟩
          if !idx.contains n' then
            idx := idx.insert n' nodes.size
            parent := parent.push (i, r)
            nodes := nodes.push n'
    i := i + 1
  return ⟨nodes, transitions, dis, disCount⟩

/-! ## the four instances -/

def b2s (b : Bool) : String := if b then "1" else "0"

def algG : Alg Nat Unit GB.Q Bool :=
  { name := "gr", rhoEnd := (), laStep := fun _ _ => (),
    trans := fun s x _ => transG s x,
    q0 := GB.q0, qstep := GB.qstep, qout := fun q x _ => GB.qout q x, showV := b2s }

/-- a word letter: the class code of the word table and Extended_Pictographic per the grapheme table -/
structure WbL where
  prop : Nat
  gEP : Bool
deriving BEq, Hashable, Repr

def wbL (r : Nat) : WbL := ⟨property wordTable r, propertyGraphemes r == prExtendedPictographic⟩
def WbL.ch (x : WbL) : WB.Ch := ⟨WB.ofProp x.prop, x.prop == prExtendedPictographic || x.gEP⟩

/-- promise: the first class of the rest that WB4 does not ignore, as far as WB6/WB7b/WB12 (and the
implementation's `farProperty` tests) can tell -/
inductive Far | other | aletter | hebrew | numeric
deriving BEq, Hashable, Repr, Inhabited, DecidableEq

def Far.ofProp (p : Nat) : Far :=
  if p == prALetter then .aletter else if p == prHebrewLetter then .hebrew else if p == prNumeric then .numeric else .other
/-- the implementation's view: a value of `farProperty` -/
def Far.impl : Far → Option Nat
  | .other => none | .aletter => some prALetter | .hebrew => some prHebrewLetter | .numeric => some prNumeric
/-- the spec's view: the next class WB4 does not ignore -/
def Far.spec : Far → Option WB.C
  | .other => none | .aletter => some .aletter | .hebrew => some .hebrew | .numeric => some .numeric

def algW : Alg WbL Far WB.Q Bool :=
  { name := "wb", rhoEnd := .other,
    laStep := fun x rho => if wbIgnorable x.prop then rho else Far.ofProp x.prop,
    trans := fun s x rho => transW s x.prop x.gEP rho.impl,
    q0 := WB.q0, qstep := fun q x => WB.qstep q x.ch, qout := fun q x rho => WB.qout q x.ch rho.spec, showV := b2s }

structure SbL where
  prop : Nat
  fffd : Bool
deriving BEq, Hashable, Repr

def sbL (r : Nat) : SbL := ⟨property sentenceTable r, r == Utf8.runeError⟩

/-- promise: (the implementation's scan of the rest ends on Lower, the spec's scan does) -/
abbrev SbR := Bool × Bool

def algS : Alg SbL SbR SB.Q Bool :=
  { name := "sb", rhoEnd := (false, false),
    laStep := fun x rho =>
      (if sbStopper x.prop then x.prop == prLower else rho.1,
       if SB.isStop (SB.ofProp x.prop) then SB.ofProp x.prop == SB.C.lower else rho.2),
    trans := fun s x rho => transS s x.prop (if sbStopper x.prop then x.prop == prLower else rho.1),
    q0 := SB.q0, qstep := fun q x => SB.qstep q (SB.ofProp x.prop),
    qout := fun q x rho => SB.qout q (SB.ofProp x.prop) rho.2, showV := b2s }

instance : Hashable LbIn := ⟨fun x => mixHash (hash x.prop) (mixHash (hash x.eaFWH) (hash x.extPicCn))⟩

def _root_.Uniseg.LbIn.ch (x : LbIn) : LB.Ch := ⟨LB.ofProp x.prop, x.eaFWH, x.extPicCn⟩

def showLV : LB.V → String | .no => "0" | .can => "1" | .must => "2"
def lvOfNat (n : Nat) : LB.V := if n == LineDontBreak then .no else if n == LineMustBreak then .must else .can

/-- promise: (the implementation's LB25 look-ahead succeeds, `(CM|ZWJ)* NU` follows) -/
abbrev LbR := Bool × Bool

def algL : Alg LbIn LbR LB.Q LB.V :=
  { name := "lb", rhoEnd := (false, false),
    laStep := fun x rho => (if x.prop == prCM || x.prop == prZWJ then rho.1 else x.prop == prNU,
      if LB.isCMZ x.ch.cls then rho.2 else x.ch.cls == LB.C.NU),
    trans := fun s x rho => let t := transL s x rho.1; (t.1, lvOfNat t.2),
    q0 := LB.q0, qstep := fun q x => LB.qstep q x.ch, qout := fun q x rho => LB.qout q x.ch rho.2, showV := showLV }

def dedupLetters {L : Type} [BEq L] [Hashable L] (f : Nat → L) (runes : List Nat) : Array (L × Nat) := Id.run do
  let mut seen : Std.HashMap L Nat := Std.HashMap.emptyWithCapacity 256
  let mut out : Array (L × Nat) := #[]
  for r in runes do
    let x := f r
    if !seen.contains x then
      seen := seen.insert x r
      out := out.push (x, r)
  return out

def report {R Q : Type} (name : String) (nLetters : Nat) (res : Result R Q) : List String :=
  s!"explore {name} letters={nLetters} states={res.nodes.size} transitions={res.transitions} disagreements={res.disagreeCount}" ::
  res.disagreements.toList.map fun d =>
    let p := ",".intercalate (d.path.map toString)
    let s := ",".intercalate (d.suffix.map toString)
    s!"D state={d.implState} rune={d.letterRune} impl={d.implV} spec={d.specV} path={p} suffix={s}"

def run (alg : String) (runes : List Nat) : List String :=
  if alg == "gr" then
    let ls := dedupLetters gbLetter runes; report "gr" ls.size (explore algG ls)
  else if alg == "wb" then
    let ls := dedupLetters wbL runes; report "wb" ls.size (explore algW ls)
  else if alg == "sb" then
    let ls := dedupLetters sbL runes; report "sb" ls.size (explore algS ls)
  else
    let ls := dedupLetters lbIn runes; report "lb" ls.size (explore algL ls)

end Uniseg.Explore
