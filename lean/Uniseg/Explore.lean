import Std.Data.HashMap
import Uniseg.Proofs.Closure
import Uniseg.Proofs.Cut
/-! # Product exploration: implementation automaton × canonical spec automaton × look-ahead promise

Used (a) to *compute* the reachable product set that `Cert/*.lean` then has the kernel check for
closure, and (b) as the search for a failing input when a closure obligation no longer checks:
every disagreeing product transition comes with a shortest letter path from the start of the text
and a suffix realising the promise, i.e. a concrete string.

Not part of any proof: nothing here is trusted. -/
namespace Uniseg.Explore
open Uniseg Uniseg.Gen Uniseg.Spec Uniseg.Auto

instance : Inhabited GB.Q := ⟨GB.q0⟩
instance : Inhabited WB.Q := ⟨WB.q0⟩
instance : Inhabited SB.Q := ⟨SB.q0⟩
instance : Inhabited LB.Q := ⟨LB.q0⟩

structure Disagree where
  implState : String
  letterRune : Nat
  implV : String
  specV : String
  path : List Nat       -- runes from the start of the text up to and including the deciding one
  suffix : List Nat     -- runes realising the promise

variable {L R Q V : Type} [DecidableEq L] [DecidableEq R] [Hashable R] [DecidableEq Q] [Hashable Q] [DecidableEq V] [Inhabited R] [Inhabited Q]

/-- realisable promises with a witness suffix (as runes), by backward closure from the empty rest -/
partial def promises (A : Alg L R Q V) (letters : Array (L × Nat)) : Array (R × List Nat) := Id.run do
  let mut seen : Std.HashMap R (List Nat) := Std.HashMap.emptyWithCapacity 64
  seen := seen.insert A.rhoEnd []
  let mut work : Array R := #[A.rhoEnd]
  let mut out : Array (R × List Nat) := #[(A.rhoEnd, [])]
  let mut i := 0
  while i < work.size do
    let rho := work[i]!
    let wit := (seen.get? rho).getD []
    i := i + 1
    for (x, r) in letters do
      let rho' := A.laStep x rho
      if !seen.contains rho' then
        seen := seen.insert rho' (r :: wit)
        work := work.push rho'
        out := out.push (rho', r :: wit)
  return out

structure Result (R Q : Type) where
  nodes : Array (Node R Q)
  transitions : Nat
  disagreements : Array Disagree
  disagreeCount : Nat

partial def explore (A : Alg L R Q V) (letters : Array (L × Nat)) (maxReport : Nat := 40) : Result R Q := Id.run do
  let proms := promises A letters
  -- node table: index, parent index, rune taken
  let mut idx : Std.HashMap (Node R Q) Nat := Std.HashMap.emptyWithCapacity 4096
  let mut nodes : Array (Node R Q) := #[]
  let mut parent : Array (Nat × Nat) := #[]     -- (parent index, rune); roots have parent = self
  for (rho, _) in proms do
    let n : Node R Q := ⟨none, A.q0, rho⟩
    if !idx.contains n then
      idx := idx.insert n nodes.size
      parent := parent.push (nodes.size, 0)
      nodes := nodes.push n
  let mut transitions := 0
  let mut dis : Array Disagree := #[]
  let mut disCount := 0
  let mut seenFam : Std.HashMap String Nat := Std.HashMap.emptyWithCapacity 64
  let mut i := 0
  while i < nodes.size do
    let n := nodes[i]!
    for (x, r) in letters do
      for (rho', wit) in proms do
        if A.laStep x rho' == n.rho then
          transitions := transitions + 1
          let t := A.trans n.s x rho'
          let sv := A.qout n.q x rho'
          if n.s.isSome && !(t.2 == sv) then
            disCount := disCount + 1
            let fam := s!"{n.s.getD 0}/{r}/{A.showV t.2}/{A.showV sv}"
            if !seenFam.contains fam && dis.size < maxReport then
              seenFam := seenFam.insert fam 1
              -- reconstruct the path
              let mut path : List Nat := [r]
              let mut j := i
              while parent[j]!.1 != j do
                path := parent[j]!.2 :: path
                j := parent[j]!.1
              dis := dis.push ⟨toString (n.s.getD 0), r, A.showV t.2, A.showV sv, path, wit⟩
          -- C11: a reported boundary must leave the state a fresh start on the suffix would reach
          if n.s.isSome && A.isB t.2 && !((A.trans none x rho').1 == t.1) then
            disCount := disCount + 1
            let fam := s!"R/{n.s.getD 0}/{r}"
            if !seenFam.contains fam && dis.size < maxReport then
              seenFam := seenFam.insert fam 1
              let mut path : List Nat := [r]
              let mut j := i
              while parent[j]!.1 != j do
                path := parent[j]!.2 :: path
                j := parent[j]!.1
              dis := dis.push ⟨toString (n.s.getD 0), r, s!"state-after-boundary={t.1}", s!"fresh-start={(A.trans none x rho').1}", path, wit⟩
          let n' : Node R Q := ⟨some t.1, A.qstep n.q x, rho'⟩
          if !idx.contains n' then
            idx := idx.insert n' nodes.size
            parent := parent.push (i, r)
            nodes := nodes.push n'
    i := i + 1
  return ⟨nodes, transitions, dis, disCount⟩

/-- for every implementation state that occurs in the reachable product, a shortest text (as runes)
after which the implementation is in that state — used by the search to turn a one-step
disagreement (state, code point, rest) into whole strings -/
partial def statePaths (A : Alg L R Q V) (letters : Array (L × Nat)) : List (Nat × List Nat) := Id.run do
  let proms := promises A letters
  let mut idx : Std.HashMap (Node R Q) Nat := Std.HashMap.emptyWithCapacity 4096
  let mut nodes : Array (Node R Q) := #[]
  let mut parent : Array (Nat × Nat) := #[]
  for (rho, _) in proms do
    let n : Node R Q := ⟨none, A.q0, rho⟩
    if !idx.contains n then
      idx := idx.insert n nodes.size
      parent := parent.push (nodes.size, 0)
      nodes := nodes.push n
  let mut seen : Std.HashMap Nat (List Nat) := Std.HashMap.emptyWithCapacity 256
  let mut out : List (Nat × List Nat) := []
  let mut i := 0
  while i < nodes.size do
    let n := nodes[i]!
    match n.s with
    | some sv =>
      if !seen.contains sv then
        let mut path : List Nat := []
        let mut j := i
        while parent[j]!.1 != j do
          path := parent[j]!.2 :: path
          j := parent[j]!.1
        seen := seen.insert sv path
        out := (sv, path) :: out
    | none => pure ()
    for (x, r) in letters do
      for (rho', _) in proms do
        if A.laStep x rho' == n.rho then
          let t := A.trans n.s x rho'
          let n' : Node R Q := ⟨some t.1, A.qstep n.q x, rho'⟩
          if !idx.contains n' then
            idx := idx.insert n' nodes.size
            parent := parent.push (i, r)
            nodes := nodes.push n'
    i := i + 1
  return out.reverse

structure CutResult (R Q : Type) where
  nodes : Array (Node2 R Q)
  transitions : Nat
  bad : Array (List Nat × List Nat)     -- (runes of the prefix, runes of a suffix) where the final condition fails
  badCount : Nat

/-- the two-run product of the spec automaton (full text vs text cut after a prefix), see `Proofs/Cut` -/
partial def exploreCut (A : Alg L R Q V) (letters : Array (L × Nat)) (maxReport : Nat := 20) : CutResult R Q := Id.run do
  let proms := promises A letters
  let mut idx : Std.HashMap (Node2 R Q) Nat := Std.HashMap.emptyWithCapacity 8192
  let mut nodes : Array (Node2 R Q) := #[]
  let mut parent : Array (Nat × Nat) := #[]
  for (rf, _) in proms do
    for (rc, _) in proms do
      let n : Node2 R Q := ⟨A.q0, rf, rc, false⟩
      if !idx.contains n then
        idx := idx.insert n nodes.size
        parent := parent.push (nodes.size, 0)
        nodes := nodes.push n
  let mut bad : Array (List Nat × List Nat) := #[]
  let mut nbad := 0
  let mut ntrans := 0
  let mut i := 0
  while i < nodes.size do
    let n := nodes[i]!
    if n.rc == A.rhoEnd && n.d then
      for (y, ry) in letters do
        for (rf2, wit) in proms do
          if A.laStep y rf2 == n.rf && A.isB (A.qout n.q y rf2) then
            nbad := nbad + 1
            if bad.size < maxReport then
              let mut path : List Nat := []
              let mut j := i
              while parent[j]!.1 != j do
                path := parent[j]!.2 :: path
                j := parent[j]!.1
              bad := bad.push (path, ry :: wit)
    for (x, r) in letters do
      for (rf', _) in proms do
        if A.laStep x rf' == n.rf then
          for (rc', _) in proms do
            if A.laStep x rc' == n.rc then
              ntrans := ntrans + 1
              let n' := succ2 A n x rf' rc'
              if !idx.contains n' then
                idx := idx.insert n' nodes.size
                parent := parent.push (i, r)
                nodes := nodes.push n'
    i := i + 1
  return ⟨nodes, ntrans, bad, nbad⟩

def dedupLetters {L : Type} [BEq L] [Hashable L] (f : Nat → L) (runes : List Nat) : Array (L × Nat) := Id.run do
  let mut seen : Std.HashMap L Nat := Std.HashMap.emptyWithCapacity 256
  let mut out : Array (L × Nat) := #[]
  for r in runes do
    let x := f r
    if !seen.contains x then
      seen := seen.insert x r
      out := out.push (x, r)
  return out

def report {R Q : Type} (name : String) (nLetters : Nat) (res : Result R Q) : List String :=
  s!"explore {name} letters={nLetters} states={res.nodes.size} transitions={res.transitions} disagreements={res.disagreeCount}" ::
  res.disagreements.toList.map fun d =>
    let p := ",".intercalate (d.path.map toString)
    let s := ",".intercalate (d.suffix.map toString)
    s!"D state={d.implState} rune={d.letterRune} impl={d.implV} spec={d.specV} path={p} suffix={s}"

def runPaths (alg : String) (runes : List Nat) : List String :=
  let fmt (l : List (Nat × List Nat)) : List String :=
    l.map fun (s, p) => s!"P {alg} {s} " ++ ",".intercalate (p.map toString)
  if alg == "gr" then fmt (statePaths algG (dedupLetters gbLetter runes))
  else if alg == "wb" then fmt (statePaths algW (dedupLetters wbL runes))
  else if alg == "sb" then fmt (statePaths algS (dedupLetters sbL runes))
  else fmt (statePaths algL (dedupLetters lbIn runes))

def run (alg : String) (runes : List Nat) : List String :=
  if alg == "gr" then
    let ls := dedupLetters gbLetter runes; report "gr" ls.size (explore algG ls)
  else if alg == "wb" then
    let ls := dedupLetters wbL runes; report "wb" ls.size (explore algW ls)
  else if alg == "sb" then
    let ls := dedupLetters sbL runes; report "sb" ls.size (explore algS ls)
  else
    let ls := dedupLetters lbIn runes; report "lb" ls.size (explore algL ls)

end Uniseg.Explore
