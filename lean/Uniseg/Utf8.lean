/-! # Arithmetic model of Go's `unicode/utf8` (modelled, not verified; tied by correspondence stage E4)

Bytes are `Nat` (the harness only ever sends values < 256; every lemma below holds for all naturals).
A decoded rune is a pair `(rune, size)`. -/
namespace Uniseg.Utf8

def runeError : Nat := 0xFFFD

def cont (b : Nat) : Bool := 0x80 ≤ b && b ≤ 0xBF

/-- `utf8.DecodeRune` / `DecodeRuneInString`: `(0xFFFD, 0)` on empty input, `(0xFFFD, 1)` on any
ill-formed prefix, otherwise the scalar value and its encoded length. -/
def decodeRune : List Nat → Nat × Nat
  | [] => (0xFFFD, 0)
  | b0 :: rest =>
    if b0 < 0x80 then (b0, 1)
    else if b0 < 0xC2 then (0xFFFD, 1)
    else if b0 < 0xE0 then
      match rest with
      | b1 :: _ => if cont b1 then ((b0 - 0xC0) * 64 + (b1 - 0x80), 2) else (0xFFFD, 1)
      | _ => (0xFFFD, 1)
    else if b0 < 0xF0 then
      match rest with
      | b1 :: b2 :: _ =>
        let lo := if b0 = 0xE0 then 0xA0 else 0x80
        let hi := if b0 = 0xED then 0x9F else 0xBF
        if lo ≤ b1 && b1 ≤ hi && cont b2 then ((b0 - 0xE0) * 4096 + (b1 - 0x80) * 64 + (b2 - 0x80), 3) else (0xFFFD, 1)
      | _ => (0xFFFD, 1)
    else if b0 < 0xF5 then
      match rest with
      | b1 :: b2 :: b3 :: _ =>
        let lo := if b0 = 0xF0 then 0x90 else 0x80
        let hi := if b0 = 0xF4 then 0x8F else 0xBF
        if lo ≤ b1 && b1 ≤ hi && cont b2 && cont b3 then
          ((b0 - 0xF0) * 262144 + (b1 - 0x80) * 4096 + (b2 - 0x80) * 64 + (b3 - 0x80), 4)
        else (0xFFFD, 1)
      | _ => (0xFFFD, 1)
    else (0xFFFD, 1)

def isScalar (r : Nat) : Prop := r < 0xD800 ∨ (0xE000 ≤ r ∧ r < 0x110000)

instance (r : Nat) : Decidable (isScalar r) := by unfold isScalar; infer_instance

/-- `utf8.EncodeRune` / `string(rune)` for scalar values -/
def encodeRune (r : Nat) : List Nat :=
  if r < 0x80 then [r]
  else if r < 0x800 then [0xC0 + r / 64, 0x80 + r % 64]
  else if r < 0x10000 then [0xE0 + r / 4096, 0x80 + r / 64 % 64, 0x80 + r % 64]
  else [0xF0 + r / 262144, 0x80 + r / 4096 % 64, 0x80 + r / 64 % 64, 0x80 + r % 64]

theorem decode_size (b : List Nat) :
    (decodeRune b).2 ≤ b.length ∧ (b ≠ [] → 1 ≤ (decodeRune b).2) ∧ (decodeRune b).2 ≤ 4 := by
  unfold decodeRune
  split
  · simp
  · rename_i b0 rest
    repeat' split
    all_goals simp_all
    all_goals (try split)
    all_goals simp_all
    all_goals omega

theorem decode_size_pos (b : List Nat) (h : b ≠ []) : 1 ≤ (decodeRune b).2 := (decode_size b).2.1 h
theorem decode_size_le (b : List Nat) : (decodeRune b).2 ≤ b.length := (decode_size b).1

/-- every decoded rune is a Unicode scalar value -/
theorem decode_scalar (b : List Nat) : isScalar (decodeRune b).1 := by
  unfold decodeRune isScalar
  split
  · simp
  · rename_i b0 rest
    repeat' split
    all_goals (try simp_all [cont])
    all_goals (try omega)
    all_goals (try split)
    all_goals (try simp_all)
    all_goals omega

set_option maxRecDepth 8192 in
theorem decode_encode (r : Nat) (h : isScalar r) (t : List Nat) :
    decodeRune (encodeRune r ++ t) = (r, (encodeRune r).length) := by
  unfold isScalar at h
  unfold encodeRune
  by_cases h1 : r < 0x80
  · simp [h1, decodeRune]
  · by_cases h2 : r < 0x800
    · simp only [h1, h2, if_false, if_true, List.cons_append, List.nil_append, decodeRune, cont]
      have e1 : ¬ (0xC0 + r / 64 < 0x80) := by omega
      have e2 : ¬ (0xC0 + r / 64 < 0xC2) := by omega
      have e3 : 0xC0 + r / 64 < 0xE0 := by omega
      have c1 : (0x80 ≤ 0x80 + r % 64 && 0x80 + r % 64 ≤ 0xBF) = true := by simp; omega
      simp only [e1, e2, e3, c1, if_false, if_true, List.length_cons, List.length_nil]
      congr 1; omega
    · by_cases h3 : r < 0x10000
      · simp only [h1, h2, h3, if_false, if_true, List.cons_append, List.nil_append, decodeRune, cont]
        have e1 : ¬ (0xE0 + r / 4096 < 0x80) := by omega
        have e2 : ¬ (0xE0 + r / 4096 < 0xC2) := by omega
        have e3 : ¬ (0xE0 + r / 4096 < 0xE0) := by omega
        have e4 : 0xE0 + r / 4096 < 0xF0 := by omega
        have c1 : ((if 0xE0 + r / 4096 = 0xE0 then 0xA0 else 0x80) ≤ 0x80 + r / 64 % 64 &&
                   0x80 + r / 64 % 64 ≤ (if 0xE0 + r / 4096 = 0xED then 0x9F else 0xBF) &&
                   (0x80 ≤ 0x80 + r % 64 && 0x80 + r % 64 ≤ 0xBF)) = true := by
          simp only [Bool.and_eq_true, decide_eq_true_eq]
          refine ⟨⟨?_, ?_⟩, by omega, by omega⟩
          · split <;> omega
          · split <;> omega
        simp only [e1, e2, e3, e4, c1, if_false, if_true, List.length_cons, List.length_nil]
        congr 1; omega
      · simp only [h1, h2, h3, if_false, List.cons_append, List.nil_append, decodeRune, cont]
        have e1 : ¬ (0xF0 + r / 262144 < 0x80) := by omega
        have e2 : ¬ (0xF0 + r / 262144 < 0xC2) := by omega
        have e3 : ¬ (0xF0 + r / 262144 < 0xE0) := by omega
        have e4 : ¬ (0xF0 + r / 262144 < 0xF0) := by omega
        have e5 : 0xF0 + r / 262144 < 0xF5 := by omega
        have c1 : ((if 0xF0 + r / 262144 = 0xF0 then 0x90 else 0x80) ≤ 0x80 + r / 4096 % 64 &&
                   0x80 + r / 4096 % 64 ≤ (if 0xF0 + r / 262144 = 0xF4 then 0x8F else 0xBF) &&
                   (0x80 ≤ 0x80 + r / 64 % 64 && 0x80 + r / 64 % 64 ≤ 0xBF) &&
                   (0x80 ≤ 0x80 + r % 64 && 0x80 + r % 64 ≤ 0xBF)) = true := by
          simp only [Bool.and_eq_true, decide_eq_true_eq]
          refine ⟨⟨⟨?_, ?_⟩, by omega, by omega⟩, by omega, by omega⟩
          · split <;> omega
          · split <;> omega
        simp only [e1, e2, e3, e4, e5, c1, if_false, if_true, List.length_cons, List.length_nil]
        congr 1; omega

theorem encode_length_pos (r : Nat) : 1 ≤ (encodeRune r).length := by
  unfold encodeRune; repeat' split
  all_goals simp

/-! ## the decoder looks only at the bytes of the rune it returns -/

/-- `decodeRune` on a non-empty input as a function of its first four bytes, missing bytes read as 0
(0 is not a continuation byte, so a missing byte and a wrong byte have the same effect) -/
def dec (b0 b1 b2 b3 : Nat) : Nat × Nat :=
  if b0 < 0x80 then (b0, 1)
  else if b0 < 0xC2 then (0xFFFD, 1)
  else if b0 < 0xE0 then
    if cont b1 then ((b0 - 0xC0) * 64 + (b1 - 0x80), 2) else (0xFFFD, 1)
  else if b0 < 0xF0 then
    if (if b0 = 0xE0 then 0xA0 else 0x80) ≤ b1 && b1 ≤ (if b0 = 0xED then 0x9F else 0xBF) && cont b2 then
      ((b0 - 0xE0) * 4096 + (b1 - 0x80) * 64 + (b2 - 0x80), 3) else (0xFFFD, 1)
  else if b0 < 0xF5 then
    if (if b0 = 0xF0 then 0x90 else 0x80) ≤ b1 && b1 ≤ (if b0 = 0xF4 then 0x8F else 0xBF) && cont b2 && cont b3 then
      ((b0 - 0xF0) * 262144 + (b1 - 0x80) * 4096 + (b2 - 0x80) * 64 + (b3 - 0x80), 4)
    else (0xFFFD, 1)
  else (0xFFFD, 1)

theorem cont_zero : cont 0 = false := rfl
theorem lo3_pos (b0 : Nat) : decide ((if b0 = 0xE0 then 0xA0 else 0x80) ≤ 0) = false := by split <;> simp
theorem lo4_pos (b0 : Nat) : decide ((if b0 = 0xF0 then 0x90 else 0x80) ≤ 0) = false := by split <;> simp

theorem decode_eq_dec (b0 : Nat) (rest : List Nat) :
    decodeRune (b0 :: rest) = dec b0 (rest.getD 0 0) (rest.getD 1 0) (rest.getD 2 0) := by
  rcases rest with _ | ⟨b1, _ | ⟨b2, _ | ⟨b3, r⟩⟩⟩
  · show decodeRune [b0] = dec b0 0 0 0
    unfold dec; dsimp only [decodeRune]
    by_cases h1 : b0 < 0x80
    · rw [if_pos h1, if_pos h1]
    · rw [if_neg h1, if_neg h1]
      by_cases h2 : b0 < 0xC2
      · rw [if_pos h2, if_pos h2]
      · rw [if_neg h2, if_neg h2]
        by_cases h3 : b0 < 0xE0
        · rw [if_pos h3, if_pos h3]; rfl
        · rw [if_neg h3, if_neg h3]
          by_cases h4 : b0 < 0xF0
          · rw [if_pos h4, if_pos h4]
            simp only [lo3_pos, Bool.false_and, Bool.false_eq_true, if_false]
          · rw [if_neg h4, if_neg h4]
            by_cases h5 : b0 < 0xF5
            · rw [if_pos h5, if_pos h5]
              simp only [lo4_pos, Bool.false_and, Bool.false_eq_true, if_false]
            · rw [if_neg h5, if_neg h5]
  · show decodeRune [b0, b1] = dec b0 b1 0 0
    unfold dec; dsimp only [decodeRune]
    by_cases h1 : b0 < 0x80
    · rw [if_pos h1, if_pos h1]
    · rw [if_neg h1, if_neg h1]
      by_cases h2 : b0 < 0xC2
      · rw [if_pos h2, if_pos h2]
      · rw [if_neg h2, if_neg h2]
        by_cases h3 : b0 < 0xE0
        · rw [if_pos h3, if_pos h3]
        · rw [if_neg h3, if_neg h3]
          by_cases h4 : b0 < 0xF0
          · rw [if_pos h4, if_pos h4]
            simp only [cont_zero, Bool.and_false, Bool.false_eq_true, if_false]
          · rw [if_neg h4, if_neg h4]
            by_cases h5 : b0 < 0xF5
            · rw [if_pos h5, if_pos h5]
              simp only [cont_zero, Bool.and_false, Bool.false_eq_true, if_false]
            · rw [if_neg h5, if_neg h5]
  · show decodeRune [b0, b1, b2] = dec b0 b1 b2 0
    unfold dec; dsimp only [decodeRune]
    by_cases h1 : b0 < 0x80
    · rw [if_pos h1, if_pos h1]
    · rw [if_neg h1, if_neg h1]
      by_cases h2 : b0 < 0xC2
      · rw [if_pos h2, if_pos h2]
      · rw [if_neg h2, if_neg h2]
        by_cases h3 : b0 < 0xE0
        · rw [if_pos h3, if_pos h3]
        · rw [if_neg h3, if_neg h3]
          by_cases h4 : b0 < 0xF0
          · rw [if_pos h4, if_pos h4]
          · rw [if_neg h4, if_neg h4]
            by_cases h5 : b0 < 0xF5
            · rw [if_pos h5, if_pos h5]
              simp only [cont_zero, Bool.and_false, Bool.false_eq_true, if_false]
            · rw [if_neg h5, if_neg h5]
  · rfl

theorem ite_size (c : Bool) (v : Nat × Nat) (k : Nat) (hv : k < v.2) (h : (if c = true then v else (0xFFFD, 1)).2 ≤ k) :
    (if c = true then v else ((0xFFFD, 1) : Nat × Nat)) = (0xFFFD, 1) := by
  cases c
  · rfl
  · simp only [if_true] at h; omega

/-- the result does not depend on bytes beyond the returned size -/
theorem dec_indep1 (b0 b1 b2 b3 : Nat) (h : (dec b0 b1 b2 b3).2 ≤ 1) : dec b0 b1 b2 b3 = dec b0 0 0 0 := by
  unfold dec at h ⊢
  by_cases h1 : b0 < 0x80
  · rw [if_pos h1]; rw [if_pos h1]
  · rw [if_neg h1] at h ⊢; rw [if_neg h1]
    by_cases h2 : b0 < 0xC2
    · rw [if_pos h2]; rw [if_pos h2]
    · rw [if_neg h2] at h ⊢; rw [if_neg h2]
      by_cases h3 : b0 < 0xE0
      · rw [if_pos h3] at h ⊢; rw [if_pos h3]
        simp only [cont_zero, Bool.false_eq_true, if_false]
        exact ite_size _ _ 1 (by simp) h
      · rw [if_neg h3] at h ⊢; rw [if_neg h3]
        by_cases h4 : b0 < 0xF0
        · rw [if_pos h4] at h ⊢; rw [if_pos h4]
          simp only [lo3_pos, Bool.false_and, Bool.false_eq_true, if_false]
          exact ite_size _ _ 1 (by simp) h
        · rw [if_neg h4] at h ⊢; rw [if_neg h4]
          by_cases h5 : b0 < 0xF5
          · rw [if_pos h5] at h ⊢; rw [if_pos h5]
            simp only [lo4_pos, Bool.false_and, Bool.false_eq_true, if_false]
            exact ite_size _ _ 1 (by simp) h
          · rw [if_neg h5]; rw [if_neg h5]

theorem dec_indep2 (b0 b1 b2 b3 : Nat) (h : (dec b0 b1 b2 b3).2 ≤ 2) : dec b0 b1 b2 b3 = dec b0 b1 0 0 := by
  unfold dec at h ⊢
  by_cases h1 : b0 < 0x80
  · rw [if_pos h1]; rw [if_pos h1]
  · rw [if_neg h1] at h ⊢; rw [if_neg h1]
    by_cases h2 : b0 < 0xC2
    · rw [if_pos h2]; rw [if_pos h2]
    · rw [if_neg h2] at h ⊢; rw [if_neg h2]
      by_cases h3 : b0 < 0xE0
      · rw [if_pos h3]; rw [if_pos h3]
      · rw [if_neg h3] at h ⊢; rw [if_neg h3]
        by_cases h4 : b0 < 0xF0
        · rw [if_pos h4] at h ⊢; rw [if_pos h4]
          simp only [cont_zero, Bool.and_false, Bool.false_eq_true, if_false]
          exact ite_size _ _ 2 (by simp) h
        · rw [if_neg h4] at h ⊢; rw [if_neg h4]
          by_cases h5 : b0 < 0xF5
          · rw [if_pos h5] at h ⊢; rw [if_pos h5]
            simp only [cont_zero, Bool.and_false, Bool.false_eq_true, if_false]
            exact ite_size _ _ 2 (by simp) h
          · rw [if_neg h5]; rw [if_neg h5]

theorem dec_indep3 (b0 b1 b2 b3 : Nat) (h : (dec b0 b1 b2 b3).2 ≤ 3) : dec b0 b1 b2 b3 = dec b0 b1 b2 0 := by
  unfold dec at h ⊢
  by_cases h1 : b0 < 0x80
  · rw [if_pos h1]; rw [if_pos h1]
  · rw [if_neg h1] at h ⊢; rw [if_neg h1]
    by_cases h2 : b0 < 0xC2
    · rw [if_pos h2]; rw [if_pos h2]
    · rw [if_neg h2] at h ⊢; rw [if_neg h2]
      by_cases h3 : b0 < 0xE0
      · rw [if_pos h3]; rw [if_pos h3]
      · rw [if_neg h3] at h ⊢; rw [if_neg h3]
        by_cases h4 : b0 < 0xF0
        · rw [if_pos h4]; rw [if_pos h4]
        · rw [if_neg h4] at h ⊢; rw [if_neg h4]
          by_cases h5 : b0 < 0xF5
          · rw [if_pos h5] at h ⊢; rw [if_pos h5]
            simp only [cont_zero, Bool.and_false, Bool.false_eq_true, if_false]
            exact ite_size _ _ 3 (by simp) h
          · rw [if_neg h5]; rw [if_neg h5]

/-- **the decoder looks only at the bytes of the rune it returns**: if the rune decoded from
`x ++ y` ends inside `x`, decoding `x` alone gives the same rune -/
theorem decode_prefix (x y : List Nat) (hx : x ≠ []) (h : (decodeRune (x ++ y)).2 ≤ x.length) :
    decodeRune x = decodeRune (x ++ y) := by
  rcases x with _ | ⟨b0, _ | ⟨b1, _ | ⟨b2, _ | ⟨b3, x4⟩⟩⟩⟩
  · exact absurd rfl hx
  · simp only [List.cons_append, List.nil_append, List.length_cons, List.length_nil] at h ⊢
    rw [decode_eq_dec] at h ⊢
    rw [decode_eq_dec, dec_indep1 _ _ _ _ h]; rfl
  · simp only [List.cons_append, List.nil_append, List.length_cons, List.length_nil] at h ⊢
    rw [decode_eq_dec] at h ⊢
    rw [decode_eq_dec]
    simp only [List.getD_cons_zero, List.getD_cons_succ, List.getD_nil] at h ⊢
    rw [dec_indep2 _ _ _ _ h]
  · simp only [List.cons_append, List.nil_append, List.length_cons, List.length_nil] at h ⊢
    rw [decode_eq_dec] at h ⊢
    rw [decode_eq_dec]
    simp only [List.getD_cons_zero, List.getD_cons_succ, List.getD_nil] at h ⊢
    rw [dec_indep3 _ _ _ _ h]
  · simp only [List.cons_append]
    rw [decode_eq_dec, decode_eq_dec]
    simp only [List.getD_cons_zero, List.getD_cons_succ]


/-- The decoded runes of a byte string, each with its size, obtained by iterating `decodeRune`
exactly as the Go loops do (`r, l := utf8.DecodeRune(b[length:]); length += l`). -/
def runesOf (b : List Nat) : List (Nat × Nat) :=
  if h : b = [] then []
  else
    let d := decodeRune b
    d :: runesOf (b.drop d.2)
termination_by b.length
decreasing_by
  have := decode_size_pos b h
  have hb : b.length ≠ 0 := fun h0 => h (List.eq_nil_of_length_eq_zero h0)
  simp only [List.length_drop]; omega

/-- total number of bytes covered by a rune list -/
def sizeSum : List (Nat × Nat) → Nat
  | [] => 0
  | r :: rs => r.2 + sizeSum rs

def encodeAll : List Nat → List Nat
  | [] => []
  | r :: rs => encodeRune r ++ encodeAll rs

/-- RuneStart -/
def runeStart (b : Nat) : Bool := !(0x80 ≤ b && b ≤ 0xBF)

/-- where `DecodeLastRune` starts decoding: the nearest rune-start byte among the last 2…4 bytes,
else one before the limit (clamped at 0) -/
def lastStart (b : List Nat) : Nat :=
  let n := b.length
  if 2 ≤ n && runeStart (b.getD (n - 2) 0) then n - 2
  else if 3 ≤ n && runeStart (b.getD (n - 3) 0) then n - 3
  else if 4 ≤ n && runeStart (b.getD (n - 4) 0) then n - 4
  else if 5 ≤ n then n - 5 else 0

/-- `utf8.DecodeLastRune` / `DecodeLastRuneInString` -/
def decodeLastRune (b : List Nat) : Nat × Nat :=
  let n := b.length
  if n = 0 then (0xFFFD, 0)
  else
    let last := b.getD (n - 1) 0
    if last < 0x80 then (last, 1)
    else
      let d := decodeRune (b.drop (lastStart b))
      if lastStart b + d.2 ≠ n then (0xFFFD, 1) else d

/-- whatever `DecodeLastRune` returns is a code point -/
theorem decodeLast_lt (b : List Nat) : (decodeLastRune b).1 < 0x110000 := by
  unfold decodeLastRune
  simp only
  by_cases h0 : b.length = 0
  · rw [if_pos h0]; decide
  · rw [if_neg h0]
    by_cases h1 : b.getD (b.length - 1) 0 < 0x80
    · rw [if_pos h1]; simp only; omega
    · rw [if_neg h1]
      by_cases h2 : lastStart b + (decodeRune (b.drop (lastStart b))).2 ≠ b.length
      · rw [if_pos h2]; decide
      · rw [if_neg h2]
        have := decode_scalar (b.drop (lastStart b))
        unfold isScalar at this
        omega

end Uniseg.Utf8
