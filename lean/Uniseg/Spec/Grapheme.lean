import Uniseg.Gen
/-! # UAX #29 grapheme cluster boundaries GB1–GB999 (Unicode 15.0.0), declaratively

`gbBreak left right`: is there a boundary between the code points whose Grapheme_Cluster_Break
classes are `left` (reversed: nearest first) and `right`? Classes are the `pr*` codes of
`Gen/Consts` (Extended_Pictographic is one of them, as in the merged table); every code not named
in a rule is "Other" (`prXX` and `prAny` both are).

Also: the canonical summary automaton (`Q`, `qstep`, `qout`) and the factorisation theorem
`gbBreak_factor`: the declarative reading depends on the left context only through `summ`. -/
namespace Uniseg.Spec.GB
open Uniseg.Gen

def isCtl (c : Nat) : Bool := c == prCR || c == prLF || c == prControl

/-- number of Regional_Indicator classes at the head of the (reversed) left context -/
def riRun : List Nat → Nat
  | [] => 0
  | c :: cs => if c == prRegionalIndicator then riRun cs + 1 else 0

/-- the left context, read backwards, matches `Extend* Extended_Pictographic` -/
def epExt : List Nat → Bool
  | [] => false
  | c :: cs => if c == prExtendedPictographic then true else if c == prExtend then epExt cs else false

def gbBreak (left right : List Nat) : Bool :=
  match left, right with
  | [], _ => true                                                               -- GB1
  | _, [] => true                                                               -- GB2
  | l :: ls, r :: _ =>
    if l == prCR && r == prLF then false                                        -- GB3
    else if isCtl l then true                                                   -- GB4
    else if isCtl r then true                                                   -- GB5
    else if l == prL && (r == prL || r == prV || r == prLV || r == prLVT) then false   -- GB6
    else if (l == prLV || l == prV) && (r == prV || r == prT) then false        -- GB7
    else if (l == prLVT || l == prT) && r == prT then false                     -- GB8
    else if r == prExtend || r == prZWJ then false                              -- GB9
    else if r == prSpacingMark then false                                       -- GB9a
    else if l == prPrepend then false                                           -- GB9b
    else if l == prZWJ && r == prExtendedPictographic && epExt ls then false    -- GB11
    else if l == prRegionalIndicator && r == prRegionalIndicator && riRun (l :: ls) % 2 == 1 then false  -- GB12, GB13
    else true                                                                   -- GB999

/-! ## summary automaton -/

structure Q where
  last : Option Nat   -- last class, `none` = start of text
  ep   : Bool         -- left matches `Extend* ExtPict`
  epp  : Bool         -- left = _ :: ls with `epExt ls`
  odd  : Bool         -- `riRun left` is odd
deriving DecidableEq, Repr, Hashable

def q0 : Q := ⟨none, false, false, false⟩

def qstep (q : Q) (c : Nat) : Q :=
  { last := some c
    ep   := if c == prExtendedPictographic then true else if c == prExtend then q.ep else false
    epp  := q.ep
    odd  := if c == prRegionalIndicator then !q.odd else false }

def summ : List Nat → Q
  | [] => q0
  | c :: cs => qstep (summ cs) c

def qout (q : Q) (r : Nat) : Bool :=
  match q.last with
  | none => true
  | some l =>
    if l == prCR && r == prLF then false
    else if isCtl l then true
    else if isCtl r then true
    else if l == prL && (r == prL || r == prV || r == prLV || r == prLVT) then false
    else if (l == prLV || l == prV) && (r == prV || r == prT) then false
    else if (l == prLVT || l == prT) && r == prT then false
    else if r == prExtend || r == prZWJ then false
    else if r == prSpacingMark then false
    else if l == prPrepend then false
    else if l == prZWJ && r == prExtendedPictographic && q.epp then false
    else if l == prRegionalIndicator && r == prRegionalIndicator && q.odd then false
    else true

theorem summ_ep (l : List Nat) : (summ l).ep = epExt l := by
  induction l with
  | nil => rfl
  | cons c cs ih => simp only [summ, qstep, epExt, ih]

theorem parity (n : Nat) : (!(n % 2 == 1)) = ((n + 1) % 2 == 1) := by
  rcases Nat.mod_two_eq_zero_or_one n with h | h <;> simp [h, Nat.add_mod]

theorem summ_odd (l : List Nat) : (summ l).odd = (riRun l % 2 == 1) := by
  induction l with
  | nil => rfl
  | cons c cs ih =>
    simp only [summ, qstep, riRun, ih]
    split
    · exact parity _
    · rfl

/-- factorisation: the declarative reading depends on the left context only through `summ` -/
theorem gbBreak_factor (left : List Nat) (r : Nat) (rs : List Nat) :
    gbBreak left (r :: rs) = qout (summ left) r := by
  cases left with
  | nil => rfl
  | cons c cs =>
    simp only [gbBreak, qout, summ, qstep, summ_ep, summ_odd]
    simp only [← summ_odd, summ, qstep]

/-- all boundary verdicts of a class string, position by position (between element `i-1` and `i`,
for `i = 1 … n-1`), given the reversed left context so far -/
def verdicts : List Nat → List Nat → List Bool
  | _, [] => []
  | left, c :: rest => (match left with | [] => [] | _ => [gbBreak left (c :: rest)]) ++ verdicts (c :: left) rest

end Uniseg.Spec.GB
