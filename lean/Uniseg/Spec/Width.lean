import Uniseg.Impl.Loops
/-! # The documented monospace width model

Per code point (first matching case): 0 if Control/CR/LF/Extend/ZWJ, 2 if Regional Indicator,
2 or 1 if Extended_Pictographic with or without Emoji_Presentation, 3 and 4 for U+2E3A and U+2E3B,
2 if East Asian Wide or Fullwidth, `amb` if Ambiguous, otherwise 1.
Per cluster: the sum over its code points, except that clusters starting with a Regional Indicator
or a Hangul leading consonant count only their first code point, and clusters starting with an
Extended_Pictographic take the first code point's width overridden by the last VS15 (1) or VS16 (2). -/
namespace Uniseg.Spec
open Uniseg Uniseg.Gen

/-- width of one code point, classes looked up from the code point itself -/
def cpWidth (amb r : Nat) : Nat :=
  let g := propertyGraphemes r
  if g == prControl || g == prCR || g == prLF || g == prExtend || g == prZWJ then 0
  else if g == prRegionalIndicator then 2
  else if g == prExtendedPictographic then (if property emojiTable r == prEmojiPresentation then 2 else 1)
  else if r == 0x2E3A then 3
  else if r == 0x2E3B then 4
  else
    let ea := propertyEastAsianWidth r
    if ea == prW || ea == prF then 2 else if ea == prA then amb else 1

/-- the last variation selector among `rs` decides: VS15 → 1, VS16 → 2, none → `w` -/
def lastVS (w : Nat) : List Nat → Nat
  | [] => w
  | r :: rs => lastVS (if r == vs15 then 1 else if r == vs16 then 2 else w) rs

/-- width of a cluster given as its code points -/
def clusterWidth (amb : Nat) : List Nat → Nat
  | [] => 0
  | r0 :: rest =>
    let p0 := propertyGraphemes r0
    if p0 == prExtendedPictographic then lastVS (cpWidth amb r0) rest
    else if p0 == prRegionalIndicator || p0 == prL then cpWidth amb r0
    else cpWidth amb r0 + (rest.map (cpWidth amb)).sum

end Uniseg.Spec
