import Uniseg.Gen
/-! # UAX #29 sentence boundaries SB1–SB998 (Unicode 15.0.0), declaratively

`sbBreak left right`: `left` is the reversed text before the position, as Sentence_Break values.
Also: the summary automaton and the factorisation theorem `sbBreak_factor`. -/
namespace Uniseg.Spec.SB
open Uniseg.Gen

inductive C | other | cr | lf | extend | sep | format | sp | lower | upper | oletter | numeric | aterm | scontinue | sterm | close
deriving DecidableEq, Repr, Inhabited, Hashable
open C

/-- Sentence_Break value from the code used in the sentence table -/
def ofProp (p : Nat) : C :=
  if p == prCR then cr else if p == prLF then lf else if p == prExtend then extend else if p == prSep then sep
  else if p == prFormat then format else if p == prSp then sp else if p == prLower then lower
  else if p == prUpper then upper else if p == prOLetter then oletter else if p == prNumeric then numeric
  else if p == prATerm then aterm else if p == prSContinue then scontinue else if p == prSTerm then sterm
  else if p == prClose then close else other

def isIgn : C → Bool | extend | format => true | _ => false
def isPS : C → Bool | sep | cr | lf => true | _ => false
def isSAT : C → Bool | aterm | sterm => true | _ => false
def isStop : C → Bool | oletter | upper | lower | sep | cr | lf | aterm | sterm => true | _ => false

/-! ## declarative reading (left = reversed text before the position) -/
/-- SB5: Extend/Format are absorbed by what precedes them, unless that is sot or a paragraph separator -/
def strip : List C → List C
  | [] => []
  | x :: xs => if isIgn x && (match xs with | [] => false | y :: _ => !isPS y) then strip xs else x :: strip xs
def dropSp : List C → List C | sp :: xs => dropSp xs | l => l
def dropClose : List C → List C | close :: xs => dropClose xs | l => l
/-- the terminator behind `Close* Sp*` / `Close*` / `Close* Sp* ParaSep?` -/
def term (L : List C) : Option C := (dropClose (dropSp L)).head?
def term9 (L : List C) : Option C := (dropClose L).head?
def termPS : List C → Option C
  | x :: xs => if isPS x then term xs else none
  | [] => none
def optSAT : Option C → Bool | some c => isSAT c | none => false
/-- SB8 right-hand side `(¬(OLetter|Upper|Lower|ParaSep|SATerm))* Lower` -/
def scanLower : List C → Bool
  | [] => false
  | x :: xs => if isStop x then x == lower else scanLower xs

def sbBreak (left right : List C) : Bool :=
  match left, right with
  | [], _ => true
  | _, [] => true
  | l :: ls, r :: rs =>
    if l == cr && r == lf then false                    -- SB3
    else if isPS l then true                            -- SB4
    else if isIgn r then false                          -- SB5
    else
      let L := strip (l :: ls)
      let l0 := L.head?
      let l1 := L.tail.head?
      if l0 == some aterm && r == numeric then false                                         -- SB6
      else if l0 == some aterm && (l1 == some upper || l1 == some lower) && r == upper then false   -- SB7
      else if term L == some aterm && scanLower (r :: rs) then false                         -- SB8
      else if optSAT (term L) && (r == scontinue || r == sterm || r == aterm) then false     -- SB8a
      else if optSAT (term9 L) && (r == close || r == sp || isPS r) then false               -- SB9
      else if optSAT (term L) && (r == sp || isPS r) then false                              -- SB10
      else if optSAT (term L) || optSAT (termPS L) then true                                 -- SB11
      else false                                                                             -- SB998

/-! ## summary automaton -/
inductive Phase | none | term | close | sp | ps
deriving DecidableEq, Repr, Hashable
def tcsP : Phase → Bool | .term | .close | .sp => true | _ => false
def tcP : Phase → Bool | .term | .close => true | _ => false
/-- one step of the `SATerm Close* Sp* ParaSep?` recogniser on (terminator is ATerm, phase) -/
def stepCtx (p : Bool × Phase) (c : C) : Bool × Phase :=
  match c with
  | .aterm => (true, .term)
  | .sterm => (false, .term)
  | .close => if tcP p.2 then (p.1, .close) else (false, .none)
  | .sp => if tcsP p.2 then (p.1, .sp) else (false, .none)
  | .sep | .cr | .lf => if tcsP p.2 then (p.1, .ps) else (false, .none)
  | _ => (false, .none)
structure Q where
  lastRaw : Option C
  eff0 : Option C
  ctx : Bool × Phase
  sb7 : Bool
deriving DecidableEq, Repr, Hashable
def q0 : Q := ⟨none, none, (false, .none), false⟩
def absorbed (q : Q) (c : C) : Bool := isIgn c && (match q.lastRaw with | none => false | some l => !isPS l)
def qstep (q : Q) (c : C) : Q :=
  if absorbed q c then { q with lastRaw := some c }
  else ⟨some c, some c, stepCtx q.ctx c, c == C.aterm && (q.eff0 == some upper || q.eff0 == some lower)⟩
def summ : List C → Q
  | [] => q0
  | c :: cs => qstep (summ cs) c
def qout (q : Q) (r : C) (laS : Bool) : Bool :=
  match q.lastRaw with
  | none => true
  | some l =>
    if l == cr && r == lf then false
    else if isPS l then true
    else if isIgn r then false
    else if q.eff0 == some C.aterm && r == numeric then false
    else if q.eff0 == some C.aterm && q.sb7 && r == upper then false
    else if (tcsP q.ctx.2 && q.ctx.1) && (if isStop r then r == lower else laS) then false
    else if tcsP q.ctx.2 && (r == scontinue || r == sterm || r == C.aterm) then false
    else if tcP q.ctx.2 && (r == close || r == sp || isPS r) then false
    else if tcsP q.ctx.2 && (r == sp || isPS r) then false
    else if tcsP q.ctx.2 || q.ctx.2 == .ps then true
    else false

/-! ## regex matchers on the stripped context = the recogniser -/
def ctxOf : List C → Bool × Phase
  | [] => (false, .none)
  | x :: L => stepCtx (ctxOf L) x

theorem term9_ctx (L : List C) : optSAT (term9 L) = tcP (ctxOf L).2 := by
  induction L with
  | nil => rfl
  | cons x L ih =>
    cases x
    case close =>
      show optSAT (term9 L) = tcP (if tcP (ctxOf L).2 then ((ctxOf L).1, Phase.close) else (false, Phase.none)).2
      rw [ih]; cases tcP (ctxOf L).2 <;> rfl
    case sp =>
      show false = tcP (if tcsP (ctxOf L).2 then ((ctxOf L).1, Phase.sp) else (false, Phase.none)).2
      cases tcsP (ctxOf L).2 <;> rfl
    case sep => show false = tcP (if tcsP (ctxOf L).2 then ((ctxOf L).1, Phase.ps) else (false, Phase.none)).2; cases tcsP (ctxOf L).2 <;> rfl
    case cr => show false = tcP (if tcsP (ctxOf L).2 then ((ctxOf L).1, Phase.ps) else (false, Phase.none)).2; cases tcsP (ctxOf L).2 <;> rfl
    case lf => show false = tcP (if tcsP (ctxOf L).2 then ((ctxOf L).1, Phase.ps) else (false, Phase.none)).2; cases tcsP (ctxOf L).2 <;> rfl
    all_goals rfl

theorem term_ctx (L : List C) : optSAT (term L) = tcsP (ctxOf L).2 := by
  induction L with
  | nil => rfl
  | cons x L ih =>
    cases x
    case close =>
      show optSAT (term9 L) = tcsP (if tcP (ctxOf L).2 then ((ctxOf L).1, Phase.close) else (false, Phase.none)).2
      rw [term9_ctx]; cases tcP (ctxOf L).2 <;> rfl
    case sp =>
      show optSAT (term L) = tcsP (if tcsP (ctxOf L).2 then ((ctxOf L).1, Phase.sp) else (false, Phase.none)).2
      rw [ih]; cases tcsP (ctxOf L).2 <;> rfl
    case sep => show false = tcsP (if tcsP (ctxOf L).2 then ((ctxOf L).1, Phase.ps) else (false, Phase.none)).2; cases tcsP (ctxOf L).2 <;> rfl
    case cr => show false = tcsP (if tcsP (ctxOf L).2 then ((ctxOf L).1, Phase.ps) else (false, Phase.none)).2; cases tcsP (ctxOf L).2 <;> rfl
    case lf => show false = tcsP (if tcsP (ctxOf L).2 then ((ctxOf L).1, Phase.ps) else (false, Phase.none)).2; cases tcsP (ctxOf L).2 <;> rfl
    all_goals rfl

/-- which terminator: `term L = some aterm` iff the recogniser is in a Close*/Sp* phase of an ATerm -/
theorem termA_ctx (L : List C) :
    (term L == some C.aterm) = (tcsP (ctxOf L).2 && (ctxOf L).1) ∧
    (term9 L == some C.aterm) = (tcP (ctxOf L).2 && (ctxOf L).1) := by
  induction L with
  | nil => exact ⟨rfl, rfl⟩
  | cons x L ih =>
    obtain ⟨ih1, ih2⟩ := ih
    cases x
    case close =>
      refine ⟨?_, ?_⟩
      · show (term9 L == some C.aterm) = (tcsP (if tcP (ctxOf L).2 then ((ctxOf L).1, Phase.close) else (false, Phase.none)).2 && (if tcP (ctxOf L).2 then ((ctxOf L).1, Phase.close) else (false, Phase.none)).1)
        rw [ih2]; cases tcP (ctxOf L).2 <;> simp [tcsP]
      · show (term9 L == some C.aterm) = (tcP (if tcP (ctxOf L).2 then ((ctxOf L).1, Phase.close) else (false, Phase.none)).2 && (if tcP (ctxOf L).2 then ((ctxOf L).1, Phase.close) else (false, Phase.none)).1)
        rw [ih2]; cases tcP (ctxOf L).2 <;> simp [tcP]
    case sp =>
      refine ⟨?_, ?_⟩
      · show (term L == some C.aterm) = (tcsP (if tcsP (ctxOf L).2 then ((ctxOf L).1, Phase.sp) else (false, Phase.none)).2 && (if tcsP (ctxOf L).2 then ((ctxOf L).1, Phase.sp) else (false, Phase.none)).1)
        rw [ih1]; cases tcsP (ctxOf L).2 <;> simp [tcsP]
      · show false = (tcP (if tcsP (ctxOf L).2 then ((ctxOf L).1, Phase.sp) else (false, Phase.none)).2 && (if tcsP (ctxOf L).2 then ((ctxOf L).1, Phase.sp) else (false, Phase.none)).1)
        cases tcsP (ctxOf L).2 <;> simp [tcP]
    case sep => refine ⟨?_, ?_⟩ <;> (show false = _; simp only [ctxOf, stepCtx]; cases tcsP (ctxOf L).2 <;> simp [tcP, tcsP])
    case cr => refine ⟨?_, ?_⟩ <;> (show false = _; simp only [ctxOf, stepCtx]; cases tcsP (ctxOf L).2 <;> simp [tcP, tcsP])
    case lf => refine ⟨?_, ?_⟩ <;> (show false = _; simp only [ctxOf, stepCtx]; cases tcsP (ctxOf L).2 <;> simp [tcP, tcsP])
    all_goals exact ⟨rfl, rfl⟩

theorem termPS_ctx (L : List C) : optSAT (termPS L) = ((ctxOf L).2 == Phase.ps) := by
  cases L with
  | nil => rfl
  | cons x L =>
    cases x
    case sep => show optSAT (term L) = ((if tcsP (ctxOf L).2 then ((ctxOf L).1, Phase.ps) else (false, Phase.none)).2 == Phase.ps); rw [term_ctx]; cases tcsP (ctxOf L).2 <;> rfl
    case cr => show optSAT (term L) = ((if tcsP (ctxOf L).2 then ((ctxOf L).1, Phase.ps) else (false, Phase.none)).2 == Phase.ps); rw [term_ctx]; cases tcsP (ctxOf L).2 <;> rfl
    case lf => show optSAT (term L) = ((if tcsP (ctxOf L).2 then ((ctxOf L).1, Phase.ps) else (false, Phase.none)).2 == Phase.ps); rw [term_ctx]; cases tcsP (ctxOf L).2 <;> rfl
    case close => show false = ((if tcP (ctxOf L).2 then ((ctxOf L).1, Phase.close) else (false, Phase.none)).2 == Phase.ps); cases tcP (ctxOf L).2 <;> rfl
    case sp => show false = ((if tcsP (ctxOf L).2 then ((ctxOf L).1, Phase.sp) else (false, Phase.none)).2 == Phase.ps); cases tcsP (ctxOf L).2 <;> rfl
    all_goals rfl

/-! ## the summary computes exactly the features the declarative reading looks at -/
theorem strip_cons (x : C) (xs : List C) :
    strip (x :: xs) = if isIgn x && (match xs.head? with | none => false | some y => !isPS y) then strip xs else x :: strip xs := by
  cases xs <;> simp [strip]

structure Inv (left : List C) : Prop where
  lastRaw : (summ left).lastRaw = left.head?
  eff0 : (summ left).eff0 = (strip left).head?
  ctx : (summ left).ctx = ctxOf (strip left)
  sb7 : (summ left).sb7 = ((strip left).head? == some C.aterm &&
          ((strip left).tail.head? == some upper || (strip left).tail.head? == some lower))

theorem inv_all (left : List C) : Inv left := by
  induction left with
  | nil => constructor <;> rfl
  | cons x xs ih =>
    obtain ⟨h1, h2, h3, h4⟩ := ih
    have hs : summ (x :: xs) = qstep (summ xs) x := rfl
    by_cases hab : absorbed (summ xs) x = true
    · have hst : strip (x :: xs) = strip xs := by
        rw [strip_cons]; simp only [absorbed, h1] at hab; simp [hab]
      have hq : summ (x :: xs) = { summ xs with lastRaw := some x } := by rw [hs, qstep]; simp [hab]
      constructor
      · rw [hq]; rfl
      · rw [hq, hst]; exact h2
      · rw [hq, hst]; exact h3
      · rw [hq, hst]; exact h4
    · have hab' : absorbed (summ xs) x = false := by simpa using hab
      have hst : strip (x :: xs) = x :: strip xs := by
        rw [strip_cons]; simp only [absorbed, h1] at hab'; simp [hab']
      have hq : summ (x :: xs) = ⟨some x, some x, stepCtx (summ xs).ctx x,
          x == C.aterm && ((summ xs).eff0 == some upper || (summ xs).eff0 == some lower)⟩ := by
        rw [hs, qstep]; simp [hab']
      constructor
      · rw [hq]; rfl
      · rw [hq, hst]; rfl
      · rw [hq, hst, h3]; rfl
      · rw [hq, hst, h2]; simp

/-- factorisation: the declarative reading depends on the left context only through `summ`
    and on the text after `r` only through `scanLower` -/
theorem sbBreak_factor (left : List C) (r : C) (rs : List C) :
    sbBreak left (r :: rs) = qout (summ left) r (scanLower rs) := by
  cases left with
  | nil => rfl
  | cons l ls =>
    obtain ⟨h1, h2, h3, h4⟩ := inv_all (l :: ls)
    have t1 := term_ctx (strip (l :: ls))
    have t2 := term9_ctx (strip (l :: ls))
    have t3 := (termA_ctx (strip (l :: ls))).1
    have t4 := termPS_ctx (strip (l :: ls))
    simp only [sbBreak, qout, h1, List.head?_cons, h2, h3, h4, t1, t2, t3, t4, scanLower]
    by_cases ha : (strip (l :: ls)).head? = some C.aterm <;> simp [ha]
end Uniseg.Spec.SB
