import Uniseg.Lookup
import Uniseg.Impl.Transitions
import Uniseg.Spec.Grapheme
import Uniseg.Spec.Word
import Uniseg.Spec.Sentence
import Uniseg.Spec.Line
/-! # The specifications applied to code points

How each annex sees a code point (its *letter*), computed with the library's own lookups
(`Lookup`, proved equal to the Unicode 15.0.0 reference classification in `Properties/C07`), and the
verdict of the declarative reading at every interior position of a text. -/
namespace Uniseg.Spec
open Uniseg Uniseg.Gen

/-- verdicts at the interior positions 1 … n-1 of a letter string; `left` is reversed -/
def interior {α β : Type} (f : List α → List α → β) : List α → List α → List β
  | _, [] => []
  | left, c :: rest =>
    (match left with | [] => [] | _ :: _ => [f left (c :: rest)]) ++ interior f (c :: left) rest

/-! ## letters -/

def gbLetter (r : Nat) : Nat := propertyGraphemes r

def wbLetter (r : Nat) : WB.Ch :=
  let p := property wordTable r
  ⟨WB.ofProp p, p == prExtendedPictographic || propertyGraphemes r == prExtendedPictographic⟩

def sbLetter (r : Nat) : SB.C := SB.ofProp (property sentenceTable r)

def lbLetter (r : Nat) : LB.Ch :=
  let x := lbIn r
  ⟨LB.ofProp x.prop, x.eaFWH, x.extPicCn⟩

/-! ## whole-text verdicts -/

def specG (rs : List Nat) : List Bool := interior GB.gbBreak [] (rs.map gbLetter)
def specW (rs : List Nat) : List Bool := interior WB.wbBreak [] (rs.map wbLetter)
def specS (rs : List Nat) : List Bool := interior SB.sbBreak [] (rs.map sbLetter)
def specL (rs : List Nat) : List LB.V := interior LB.lbVerdict [] (rs.map lbLetter)

end Uniseg.Spec
