import Uniseg.Gen
/-! # UAX #14 line breaking (Unicode 15.0.0, rules LB2–LB31 with the numeric-expression tailoring of
section 8.2 Example 7 that LineBreakTest.txt encodes), declaratively, over resolved classes (LB1 applied)

`lbVerdict left right ∈ {no (×), can (÷), must (!)}`; `left` is the reversed text before the position.
Also: the summary automaton and the factorisation theorem `lbVerdict_factor`. -/
namespace Uniseg.Spec.LB
open Uniseg.Gen

inductive C | AL | B2 | BA | BB | BK | CB | CL | CM | CP | CR | EB | EM | EX | GL | H2 | H3 | HL | HY | ID | IN | IS
  | JL | JT | JV | LF | NL | NS | NU | OP | PO | PR | QU | RI | SP | SY | WJ | ZW | ZWJ
deriving DecidableEq, Repr, Inhabited, Hashable
open C

/-- resolved Line_Break class from the code used in the line table (after LB1: AI, SG, XX, SA, CJ
never reach this function; anything unknown is AL) -/
def ofProp (p : Nat) : C :=
  if p == prB2 then B2 else if p == prBA then BA else if p == prBB then BB else if p == prBK then BK
  else if p == prCB then CB else if p == prCL then CL else if p == prCM then CM else if p == prCP then CP
  else if p == prCR then CR else if p == prEB then EB else if p == prEM then EM else if p == prEX then EX
  else if p == prGL then GL else if p == prH2 then H2 else if p == prH3 then H3 else if p == prHL then HL
  else if p == prHY then HY else if p == prID then ID else if p == prIN then IN else if p == prIS then IS
  else if p == prJL then JL else if p == prJT then JT else if p == prJV then JV else if p == prLF then LF
  else if p == prNL then NL else if p == prNS then NS else if p == prNU then NU else if p == prOP then OP
  else if p == prPO then PO else if p == prPR then PR else if p == prQU then QU else if p == prRI then RI
  else if p == prSP then SP else if p == prSY then SY else if p == prWJ then WJ else if p == prZW then ZW
  else if p == prZWJ then ZWJ else AL

/-- a code point as the line-break rules see it -/
structure Ch where
  cls : C
  ea : Bool      -- East_Asian_Width ∈ {F, W, H}
  ep : Bool      -- Extended_Pictographic ∧ General_Category = Cn
deriving DecidableEq, Repr, Hashable

inductive V | no | can | must        -- ×  ÷  !
deriving DecidableEq, Repr, Hashable

def hard : C → Bool | BK | CR | LF | NL => true | _ => false
def isCMZ : C → Bool | CM | ZWJ => true | _ => false
def isSP : C → Bool | SP => true | _ => false
/-- LB9: a base to which following CM/ZWJ attach -/
def isBase : C → Bool | BK | CR | LF | NL | SP | ZW => false | _ => true
def inNum : C → Bool | NU | SY | IS => true | _ => false
def isALHL : C → Bool | AL | HL => true | _ => false
def isPRPO : C → Bool | PR | PO => true | _ => false
def isCLCP : C → Bool | CL | CP => true | _ => false
def isJ : C → Bool | JL | JV | JT | H2 | H3 => true | _ => false

/-! ## declarative reading -/
/-- LB9/LB10: the units of the (reversed) left context: a CM/ZWJ joins the unit before it when the
    previous code point is a base, an attached mark, or a mark standing as AL; otherwise it is an AL -/
def units : List Ch → List Ch
  | [] => []
  | x :: xs =>
    if isCMZ x.cls && (match xs with | [] => false | y :: _ => isBase y.cls) then units xs
    else (if isCMZ x.cls then ⟨AL, false, false⟩ else x) :: units xs
/-- raw left context matches `ZW SP*` -/
def zwsp : List Ch → Bool
  | [] => false
  | x :: xs => x.cls == ZW || (x.cls == SP && zwsp xs)
/-- class of the last unit that is not a space (LB14–LB17 look back over `SP*`) -/
def beforeSp : List Ch → Option C
  | [] => none
  | u :: us => if u.cls == SP then beforeSp us else some u.cls
/-- units end with `NU (NU|SY|IS)*` -/
def numRun : List Ch → Bool
  | [] => false
  | u :: us => if u.cls == NU then true else if inNum u.cls then numRun us else false
/-- units end with `NU (NU|SY|IS)* (CL|CP)` -/
def numClosed : List Ch → Bool
  | [] => false
  | u :: us => isCLCP u.cls && numRun us
def riRun : List Ch → Nat
  | [] => 0
  | u :: us => if u.cls == RI then riRun us + 1 else 0
/-- `(CM|ZWJ)* NU` follows (LB25 `(PR|PO) × (OP|HY) NU` with LB9 applied to the OP/HY) -/
def nextNU : List Ch → Bool
  | [] => false
  | x :: xs => if isCMZ x.cls then nextNU xs else x.cls == NU

def cls? (o : Option Ch) : Option C := o.map (·.cls)

/-- LB6–LB31: is a break opportunity (÷) allowed? (`false` = ×); never mandatory -/
def lbOpp (l : Ch) (ls : List Ch) (r : Ch) (rs : List Ch) : Bool :=
    if hard r.cls then false                                -- LB6
    else if r.cls == SP || r.cls == ZW then false                -- LB7
    else if zwsp (l :: ls) then true                           -- LB8
    else if l.cls == ZWJ then false                              -- LB8a
    else if isCMZ r.cls && isBase l.cls then false               -- LB9
    else
      let U := units (l :: ls)
      let L := cls? U.head?
      let L1 := cls? U.tail.head?
      let Lea := (U.head?.map (·.ea)) == some true
      let Lep := (U.head?.map (·.ep)) == some true
      let R := if isCMZ r.cls then AL else r.cls               -- LB10
      let Rea := !isCMZ r.cls && r.ea
      let bs := beforeSp U
      if R == WJ || L == some WJ then false                      -- LB11
      else if L == some GL then false                            -- LB12
      else if R == GL && !(L == some SP || L == some BA || L == some HY) then false   -- LB12a
      else if R == EX then false                                 -- LB13 (tailored: [^NU] × CL|CP|IS|SY)
      else if (R == CL || R == CP || R == IS || R == SY) && L != some NU then false
      else if bs == some OP then false                           -- LB14
      else if R == OP && bs == some QU then false                -- LB15
      else if R == NS && (bs == some CL || bs == some CP) then false   -- LB16
      else if R == B2 && bs == some B2 then false                -- LB17
      else if L == some SP then true                           -- LB18
      else if R == QU || L == some QU then false                 -- LB19
      else if R == CB || L == some CB then true                -- LB20
      else if R == BA || R == HY || R == NS || L == some BB then false   -- LB21
      else if L1 == some HL && (L == some HY || L == some BA) then false -- LB21a
      else if L == some SY && R == HL then false                 -- LB21b
      else if R == IN then false                                 -- LB22
      else if (L == some AL || L == some HL) && R == NU then false       -- LB23
      else if L == some NU && isALHL R then false
      else if L == some PR && (R == ID || R == EB || R == EM) then false -- LB23a
      else if (L == some ID || L == some EB || L == some EM) && R == PO then false
      else if (L == some PR || L == some PO) && isALHL R then false      -- LB24
      else if (L == some AL || L == some HL) && isPRPO R then false
      else if (L == some PR || L == some PO) && (R == NU || ((R == OP || R == HY) && nextNU rs)) then false  -- LB25 (Example 7)
      else if (L == some OP || L == some HY) && R == NU then false
      else if numRun U && (R == NU || R == SY || R == IS || R == CL || R == CP) then false
      else if (numRun U || numClosed U) && isPRPO R then false
      else if L == some JL && (R == JL || R == JV || R == H2 || R == H3) then false   -- LB26
      else if (L == some JV || L == some H2) && (R == JV || R == JT) then false
      else if (L == some JT || L == some H3) && R == JT then false
      else if (L == some JL || L == some JV || L == some JT || L == some H2 || L == some H3) && R == PO then false   -- LB27
      else if L == some PR && isJ R then false
      else if (L == some AL || L == some HL) && isALHL R then false      -- LB28
      else if L == some IS && isALHL R then false                        -- LB29
      else if (L == some AL || L == some HL || L == some NU) && R == OP && !Rea then false   -- LB30
      else if L == some CP && !Lea && (isALHL R || R == NU) then false
      else if L == some RI && R == RI && riRun U % 2 == 1 then false     -- LB30a
      else if L == some EB && R == EM then false                         -- LB30b
      else if Lep && R == EM then false
      else true                                                        -- LB31

def lbVerdict (left right : List Ch) : V :=
  match left, right with
  | [], _ => .no                                               -- LB2
  | _, [] => .must                                             -- LB3
  | l :: ls, r :: rs =>
    if l.cls == BK then .must                                  -- LB4
    else if l.cls == CR && r.cls == LF then .no                -- LB5
    else if l.cls == CR || l.cls == LF || l.cls == NL then .must
    else if lbOpp l ls r rs then .can else .no

/-! ## summary automaton -/
inductive Num | none | run | closed
deriving DecidableEq, Repr, Hashable
structure Q where
  lastRaw : Option C
  zw : Bool
  u0 : Option Ch
  u1hl : Bool       -- the unit before the last one is HL (LB21a)
  bs : Option C
  num : Num
  odd : Bool
deriving DecidableEq, Repr, Hashable
def q0 : Q := ⟨none, false, none, false, none, .none, false⟩
def attaches (q : Q) (x : Ch) : Bool := isCMZ x.cls && (match q.lastRaw with | none => false | some l => isBase l)
def qstep (q : Q) (x : Ch) : Q :=
  if attaches q x then { q with lastRaw := some x.cls, zw := x.cls == ZW || (x.cls == SP && q.zw) }
  else
    let u : Ch := if isCMZ x.cls then ⟨AL, false, false⟩ else x
    { lastRaw := some x.cls
      zw := x.cls == ZW || (x.cls == SP && q.zw)
      u0 := some u
      u1hl := cls? q.u0 == some HL
      bs := if u.cls == SP then q.bs else some u.cls
      num := if u.cls == NU then .run
             else if inNum u.cls then (if q.num == .run then .run else .none)
             else if isCLCP u.cls then (if q.num == .run then .closed else .none)
             else .none
      odd := if u.cls == RI then !q.odd else false }
def summ : List Ch → Q
  | [] => q0
  | x :: xs => qstep (summ xs) x

/-- LB6–LB31 on the summary -/
def qoutOpp (q : Q) (l : C) (r : Ch) (nNU : Bool) : Bool :=
    if hard r.cls then false
    else if r.cls == SP || r.cls == ZW then false
    else if q.zw then true
    else if l == ZWJ then false
    else if isCMZ r.cls && isBase l then false
    else
      let L := cls? q.u0
      let Lea := (q.u0.map (·.ea)) == some true
      let Lep := (q.u0.map (·.ep)) == some true
      let R := if isCMZ r.cls then AL else r.cls
      let Rea := !isCMZ r.cls && r.ea
      let bs := q.bs
      if R == WJ || L == some WJ then false
      else if L == some GL then false
      else if R == GL && !(L == some SP || L == some BA || L == some HY) then false
      else if R == EX then false
      else if (R == CL || R == CP || R == IS || R == SY) && L != some NU then false
      else if bs == some OP then false
      else if R == OP && bs == some QU then false
      else if R == NS && (bs == some CL || bs == some CP) then false
      else if R == B2 && bs == some B2 then false
      else if L == some SP then true
      else if R == QU || L == some QU then false
      else if R == CB || L == some CB then true
      else if R == BA || R == HY || R == NS || L == some BB then false
      else if q.u1hl && (L == some HY || L == some BA) then false
      else if L == some SY && R == HL then false
      else if R == IN then false
      else if (L == some AL || L == some HL) && R == NU then false
      else if L == some NU && isALHL R then false
      else if L == some PR && (R == ID || R == EB || R == EM) then false
      else if (L == some ID || L == some EB || L == some EM) && R == PO then false
      else if (L == some PR || L == some PO) && isALHL R then false
      else if (L == some AL || L == some HL) && isPRPO R then false
      else if (L == some PR || L == some PO) && (R == NU || ((R == OP || R == HY) && nNU)) then false
      else if (L == some OP || L == some HY) && R == NU then false
      else if (q.num == .run) && (R == NU || R == SY || R == IS || R == CL || R == CP) then false
      else if ((q.num == .run) || (q.num == .closed)) && isPRPO R then false
      else if L == some JL && (R == JL || R == JV || R == H2 || R == H3) then false
      else if (L == some JV || L == some H2) && (R == JV || R == JT) then false
      else if (L == some JT || L == some H3) && R == JT then false
      else if (L == some JL || L == some JV || L == some JT || L == some H2 || L == some H3) && R == PO then false
      else if L == some PR && isJ R then false
      else if (L == some AL || L == some HL) && isALHL R then false
      else if L == some IS && isALHL R then false
      else if (L == some AL || L == some HL || L == some NU) && R == OP && !Rea then false
      else if L == some CP && !Lea && (isALHL R || R == NU) then false
      else if L == some RI && R == RI && q.odd then false
      else if L == some EB && R == EM then false
      else if Lep && R == EM then false
      else true

def qout (q : Q) (r : Ch) (nNU : Bool) : V :=
  match q.lastRaw with
  | none => .no
  | some l =>
    if l == BK then .must
    else if l == CR && r.cls == LF then .no
    else if l == CR || l == LF || l == NL then .must
    else if qoutOpp q l r nNU then .can else .no

/-! ## the summary computes the features of the declarative reading -/
theorem units_cons (x : Ch) (xs : List Ch) :
    units (x :: xs) =
      if isCMZ x.cls && (match xs.head? with | none => false | some y => isBase y.cls) then units xs
      else (if isCMZ x.cls then ⟨AL, false, false⟩ else x) :: units xs := by
  cases xs <;> simp [units]

theorem parity (n : Nat) : (!(n % 2 == 1)) = ((n + 1) % 2 == 1) := by
  rcases Nat.mod_two_eq_zero_or_one n with h | h <;> simp [h, Nat.add_mod]

structure Inv (left : List Ch) : Prop where
  lastRaw : (summ left).lastRaw = cls? left.head?
  zw : (summ left).zw = zwsp left
  u0 : (summ left).u0 = (units left).head?
  u1 : (summ left).u1hl = (cls? (units left).tail.head? == some HL)
  bs : (summ left).bs = beforeSp (units left)
  run : ((summ left).num == .run) = numRun (units left)
  closed : ((summ left).num == .closed) = numClosed (units left)
  odd : (summ left).odd = (riRun (units left) % 2 == 1)

theorem inv_all (left : List Ch) : Inv left := by
  induction left with
  | nil => constructor <;> rfl
  | cons x xs ih =>
    obtain ⟨h1, h2, h3, h4, h5, h6, h7, h8⟩ := ih
    have hs : summ (x :: xs) = qstep (summ xs) x := rfl
    have hzw : zwsp (x :: xs) = (x.cls == ZW || (x.cls == SP && zwsp xs)) := rfl
    have hattach : attaches (summ xs) x = (isCMZ x.cls && (match xs.head? with | none => false | some y => isBase y.cls)) := by
      simp only [attaches, h1, cls?]; cases xs <;> rfl
    by_cases hab : attaches (summ xs) x = true
    · have hst : units (x :: xs) = units xs := by
        rw [units_cons, ← hattach, hab]; rfl
      have hq : summ (x :: xs) = { summ xs with lastRaw := some x.cls, zw := x.cls == ZW || (x.cls == SP && (summ xs).zw) } := by
        rw [hs, qstep]; simp [hab]
      constructor
      · rw [hq]; rfl
      · rw [hq, hzw, ← h2]
      · rw [hq, hst]; exact h3
      · rw [hq, hst]; exact h4
      · rw [hq, hst]; exact h5
      · rw [hq, hst]; exact h6
      · rw [hq, hst]; exact h7
      · rw [hq, hst]; exact h8
    · have hab' : attaches (summ xs) x = false := by simpa using hab
      have hst : units (x :: xs) = (if isCMZ x.cls then ⟨AL, false, false⟩ else x) :: units xs := by
        rw [units_cons, ← hattach, hab']; rfl
      generalize hu : (if isCMZ x.cls then (⟨AL, false, false⟩ : Ch) else x) = u at hst
      have hq : summ (x :: xs) =
          { lastRaw := some x.cls, zw := x.cls == ZW || (x.cls == SP && (summ xs).zw), u0 := some u, u1hl := cls? (summ xs).u0 == some HL,
            bs := if u.cls == SP then (summ xs).bs else some u.cls,
            num := if u.cls == NU then .run
                   else if inNum u.cls then (if (summ xs).num == .run then .run else .none)
                   else if isCLCP u.cls then (if (summ xs).num == .run then .closed else .none)
                   else .none,
            odd := if u.cls == RI then !(summ xs).odd else false } := by
        rw [hs, qstep]; simp [hab', hu]
      constructor
      · rw [hq]; rfl
      · rw [hq, hzw, ← h2]
      · rw [hq, hst]; rfl
      · rw [hq, hst, h3]; rfl
      · rw [hq, hst, h5]; rfl
      · rw [hq, hst]; simp only [numRun]
        rw [← h6]
        cases huc : u.cls <;> simp [inNum, isCLCP] <;> cases (summ xs).num <;> first | rfl | decide | simp
      · rw [hq, hst]; simp only [numClosed]
        rw [← h6]
        cases huc : u.cls <;> simp [inNum, isCLCP] <;> cases (summ xs).num <;> first | rfl | decide | simp
      · rw [hq, hst, h8]; simp only [riRun]
        cases huc : u.cls <;> simp [parity]

theorem lbVerdict_factor (left : List Ch) (r : Ch) (rs : List Ch) :
    lbVerdict left (r :: rs) = qout (summ left) r (nextNU rs) := by
  cases left with
  | nil => rfl
  | cons l ls =>
    obtain ⟨h1, h2, h3, h4, h5, h6, h7, h8⟩ := inv_all (l :: ls)
    simp only [lbVerdict, lbOpp, qout, qoutOpp, h1, h2, h3, h4, h5, h6, h7, h8, cls?, List.head?_cons, Option.map_some]
    rfl
end Uniseg.Spec.LB
