import Uniseg.Gen
/-! # UAX #29 word boundaries WB1–WB999 (Unicode 15.0.0, no tailoring), declaratively

A code point is seen as its Word_Break value together with its Extended_Pictographic flag (`Ch`),
so that WB3c is stated as in the annex even for the code points that are both ALetter and
Extended_Pictographic. `wbBreak left right`: `left` is the reversed text before the position.

Also: the summary automaton and the factorisation theorem `wbBreak_factor`. -/
namespace Uniseg.Spec.WB
open Uniseg.Gen

inductive C | other | cr | lf | newline | extend | zwj | ri | format | katakana | hebrew | aletter
  | singlequote | doublequote | midnumlet | midletter | midnum | numeric | extendnumlet | wsegspace
deriving DecidableEq, Repr, Inhabited, Hashable
open C

structure Ch where
  cls : C
  ep : Bool        -- Extended_Pictographic
deriving DecidableEq, Repr, Inhabited, Hashable

/-- Word_Break value from the code used in the word table; `prExtendedPictographic` entries of the
merged table have Word_Break = Other -/
def ofProp (p : Nat) : C :=
  if p == prCR then cr else if p == prLF then lf else if p == prNewline then newline
  else if p == prExtend then extend else if p == prZWJ then zwj else if p == prRegionalIndicator then ri
  else if p == prFormat then format else if p == prKatakana then katakana else if p == prHebrewLetter then hebrew
  else if p == prALetter then aletter else if p == prSingleQuote then singlequote
  else if p == prDoubleQuote then doublequote else if p == prMidNumLet then midnumlet
  else if p == prMidLetter then midletter else if p == prMidNum then midnum else if p == prNumeric then numeric
  else if p == prExtendNumLet then extendnumlet else if p == prWSegSpace then wsegspace else other

def isIgn : C → Bool | extend | format | zwj => true | _ => false
def isNL : C → Bool | cr | lf | newline => true | _ => false
def isAHL : C → Bool | aletter | hebrew => true | _ => false
def isMidL : C → Bool | midletter | midnumlet | singlequote => true | _ => false   -- MidLetter | MidNumLetQ
def isMidN : C → Bool | midnum | midnumlet | singlequote => true | _ => false      -- MidNum | MidNumLetQ
def isWord13a : C → Bool | aletter | hebrew | numeric | katakana | extendnumlet => true | _ => false
def isWord13b : C → Bool | aletter | hebrew | numeric | katakana => true | _ => false
def opt (p : C → Bool) : Option C → Bool | some c => p c | none => false

/-- WB4: Extend/Format/ZWJ are absorbed by what precedes them, unless that is sot, CR, LF or Newline -/
def strip : List C → List C
  | [] => []
  | x :: xs => if isIgn x && (match xs with | [] => false | y :: _ => !isNL y) then strip xs else x :: strip xs

/-- the first code point after `r` that WB4 does not ignore (WB6, WB7b, WB12) -/
def nextNonIgn : List C → Option C
  | [] => none
  | x :: xs => if isIgn x then nextNonIgn xs else some x

def riRun : List C → Nat
  | ri :: xs => riRun xs + 1
  | _ => 0

def clss (l : List Ch) : List C := l.map (·.cls)

def wbBreak (left right : List Ch) : Bool :=
  match left, right with
  | [], _ => true                                        -- WB1
  | _, [] => true                                        -- WB2
  | l :: ls, r :: rs =>
    if l.cls == cr && r.cls == lf then false             -- WB3
    else if isNL l.cls then true                         -- WB3a
    else if isNL r.cls then true                         -- WB3b
    else if l.cls == zwj && r.ep then false              -- WB3c
    else if l.cls == wsegspace && r.cls == wsegspace then false  -- WB3d
    else if isIgn r.cls then false                       -- WB4
    else
      let L := strip (clss (l :: ls))
      let l0 := L.head?
      let l1 := L.tail.head?
      let nx := nextNonIgn (clss rs)
      let r := r.cls
      if opt isAHL l0 && isAHL r then false                                   -- WB5
      else if opt isAHL l0 && isMidL r && opt isAHL nx then false             -- WB6
      else if opt isAHL l1 && opt isMidL l0 && isAHL r then false             -- WB7
      else if l0 == some hebrew && r == singlequote then false                -- WB7a
      else if l0 == some hebrew && r == doublequote && nx == some hebrew then false   -- WB7b
      else if l1 == some hebrew && l0 == some doublequote && r == hebrew then false   -- WB7c
      else if l0 == some numeric && r == numeric then false                   -- WB8
      else if opt isAHL l0 && r == numeric then false                         -- WB9
      else if l0 == some numeric && isAHL r then false                        -- WB10
      else if l1 == some numeric && opt isMidN l0 && r == numeric then false  -- WB11
      else if l0 == some numeric && isMidN r && nx == some numeric then false -- WB12
      else if l0 == some katakana && r == katakana then false                 -- WB13
      else if opt isWord13a l0 && r == extendnumlet then false                -- WB13a
      else if l0 == some extendnumlet && isWord13b r then false               -- WB13b
      else if l0 == some ri && r == ri && riRun L % 2 == 1 then false         -- WB15, WB16
      else true                                                               -- WB999

/-! ## summary automaton -/
/-- what WB7, WB7c and WB11 need to know about the unit before the last one -/
inductive L1 | other | aletter | hebrew | numeric
deriving DecidableEq, Repr, Hashable, Inhabited

def absL1 : Option C → L1
  | some .aletter => .aletter | some .hebrew => .hebrew | some .numeric => .numeric | _ => .other

structure Q where
  lastRaw : Option C
  l0 : Option C
  l1 : L1
  riOdd : Bool
deriving DecidableEq, Repr, Hashable

def q0 : Q := ⟨none, none, .other, false⟩
def absorbed (q : Q) (c : C) : Bool := isIgn c && (match q.lastRaw with | none => false | some l => !isNL l)
def qstepC (q : Q) (c : C) : Q :=
  if absorbed q c then { q with lastRaw := some c }
  else ⟨some c, some c, absL1 q.l0, if c == ri then !q.riOdd else false⟩
def qstep (q : Q) (x : Ch) : Q := qstepC q x.cls
def summC : List C → Q
  | [] => q0
  | c :: cs => qstepC (summC cs) c
def summ (l : List Ch) : Q := summC (clss l)

def qout (q : Q) (r : Ch) (nx : Option C) : Bool :=
  match q.lastRaw with
  | none => true
  | some l =>
    if l == cr && r.cls == lf then false
    else if isNL l then true
    else if isNL r.cls then true
    else if l == zwj && r.ep then false
    else if l == wsegspace && r.cls == wsegspace then false
    else if isIgn r.cls then false
    else
      let l0 := q.l0
      let l1 := q.l1
      let r := r.cls
      if opt isAHL l0 && isAHL r then false
      else if opt isAHL l0 && isMidL r && opt isAHL nx then false
      else if (l1 == .aletter || l1 == .hebrew) && opt isMidL l0 && isAHL r then false
      else if l0 == some hebrew && r == singlequote then false
      else if l0 == some hebrew && r == doublequote && nx == some hebrew then false
      else if l1 == .hebrew && l0 == some doublequote && r == hebrew then false
      else if l0 == some numeric && r == numeric then false
      else if opt isAHL l0 && r == numeric then false
      else if l0 == some numeric && isAHL r then false
      else if l1 == .numeric && opt isMidN l0 && r == numeric then false
      else if l0 == some numeric && isMidN r && nx == some numeric then false
      else if l0 == some katakana && r == katakana then false
      else if opt isWord13a l0 && r == extendnumlet then false
      else if l0 == some extendnumlet && isWord13b r then false
      else if l0 == some ri && r == ri && q.riOdd then false
      else true

theorem strip_cons (x : C) (xs : List C) :
    strip (x :: xs) = if isIgn x && (match xs.head? with | none => false | some y => !isNL y) then strip xs else x :: strip xs := by
  cases xs <;> simp [strip]

theorem parity (n : Nat) : (!(n % 2 == 1)) = ((n + 1) % 2 == 1) := by
  rcases Nat.mod_two_eq_zero_or_one n with h | h <;> simp [h, Nat.add_mod]

structure Inv (left : List C) : Prop where
  lastRaw : (summC left).lastRaw = left.head?
  l0 : (summC left).l0 = (strip left).head?
  l1 : (summC left).l1 = absL1 (strip left).tail.head?
  odd : (summC left).riOdd = (riRun (strip left) % 2 == 1)

theorem inv_all (left : List C) : Inv left := by
  induction left with
  | nil => constructor <;> rfl
  | cons x xs ih =>
    obtain ⟨h1, h2, h3, h4⟩ := ih
    have hs : summC (x :: xs) = qstepC (summC xs) x := rfl
    by_cases hab : absorbed (summC xs) x = true
    · have hst : strip (x :: xs) = strip xs := by
        rw [strip_cons]; simp only [absorbed, h1] at hab; simp [hab]
      have hq : summC (x :: xs) = { summC xs with lastRaw := some x } := by rw [hs, qstepC]; simp [hab]
      constructor
      · rw [hq]; rfl
      · rw [hq, hst]; exact h2
      · rw [hq, hst]; exact h3
      · rw [hq, hst]; exact h4
    · have hab' : absorbed (summC xs) x = false := by simpa using hab
      have hst : strip (x :: xs) = x :: strip xs := by
        rw [strip_cons]; simp only [absorbed, h1] at hab'; simp [hab']
      have hq : summC (x :: xs) = ⟨some x, some x, absL1 (summC xs).l0, if x == ri then !(summC xs).riOdd else false⟩ := by
        rw [hs, qstepC]; simp [hab']
      constructor
      · rw [hq]; rfl
      · rw [hq, hst]; rfl
      · rw [hq, hst, h2]; rfl
      · rw [hq, hst, h4]
        cases x <;> simp [riRun, parity]

theorem absL1_ahl (o : Option C) : (absL1 o == .aletter || absL1 o == .hebrew) = opt isAHL o := by
  cases o with
  | none => rfl
  | some c => cases c <;> rfl
theorem absL1_ahl' (o : Option C) : (absL1 o == .aletter || o == some hebrew) = opt isAHL o := by
  cases o with
  | none => rfl
  | some c => cases c <;> rfl
theorem absL1_hebrew (o : Option C) : (absL1 o == .hebrew) = (o == some hebrew) := by
  cases o with
  | none => rfl
  | some c => cases c <;> rfl
theorem absL1_numeric (o : Option C) : (absL1 o == .numeric) = (o == some numeric) := by
  cases o with
  | none => rfl
  | some c => cases c <;> rfl

/-- factorisation: the declarative reading depends on the left context only through `summ` and on
the text after `r` only through the first class that WB4 does not ignore -/
theorem wbBreak_factor (left : List Ch) (r : Ch) (rs : List Ch) :
    wbBreak left (r :: rs) = qout (summ left) r (nextNonIgn (clss rs)) := by
  cases left with
  | nil => rfl
  | cons l ls =>
    obtain ⟨h1, h2, h3, h4⟩ := inv_all (clss (l :: ls))
    simp only [clss, List.map_cons] at h1 h2 h3 h4
    simp only [wbBreak, qout, summ, clss, List.map_cons, h1, h2, h3, h4, List.head?_cons, absL1_ahl', absL1_hebrew, absL1_numeric]

end Uniseg.Spec.WB
