import Uniseg.Properties.C07
import Uniseg.Properties.C01U
import Uniseg.Properties.C02U
import Uniseg.Properties.C03U
import Uniseg.Properties.C04U
import Uniseg.Properties.C06U
import Uniseg.Properties.C11U
/-! # C07, assembled

`C07.classified`: every lookup of every code point is the Unicode 15.0.0 reference value.
`C0xU.*_same_class`: code points with the same reference values are interchangeable anywhere in a
text, for each segmenter; `C06U.cpWidth_ref`/`clusterWidth_ref`: widths are the documented model over
the reference values (and the named code points U+2E3A, U+2E3B, VS15, VS16). This module only gathers
them so that one build checks them all. -/
namespace Uniseg.Properties.C07U
open Uniseg Uniseg.Properties

/-- the per-code-point width is a function of the reference row and of "is it U+2E3A / U+2E3B" -/
theorem width_same_class (amb r r' : Nat) (hr : r < 0x110000) (hr' : r' < 0x110000)
    (hrow : ((Class.rowOf r).g, (Class.rowOf r).e, (Class.rowOf r).m) = ((Class.rowOf r').g, (Class.rowOf r').e, (Class.rowOf r').m))
    (h1 : (r == 0x2E3A) = (r' == 0x2E3A)) (h2 : (r == 0x2E3B) = (r' == 0x2E3B)) :
    Spec.cpWidth amb r = Spec.cpWidth amb r' := by
  rw [C06U.cpWidth_ref amb r hr, C06U.cpWidth_ref amb r' hr']
  simp only [Prod.mk.injEq] at hrow
  unfold C06U.refCpWidth
  simp only [hrow.1, hrow.2.1, hrow.2.2, h1, h2]

end Uniseg.Properties.C07U
