import Uniseg.Cert.Word
import Uniseg.Proofs.Lift
/-! # C02 — word boundaries follow UAX #29 WB1–WB999 on every string

Property theorems only (helper lemmas live in `Proofs/`, the declarative reading in `Spec/Word`).
Quantifiers: every list of code points / every byte string, of any length; look-ahead distance
and runs of ignorable code points unbounded. -/
namespace Uniseg.Properties.C02
open Uniseg Uniseg.Gen Uniseg.Auto Uniseg.Chain Uniseg.Spec Uniseg.Lift

/-- table fact, re-evaluated by the kernel on the regenerated word table -/
theorem fffd_inert : wbFFFDInert = true := by decide +kernel

/-- every code point's letter is in the alphabet of the kernel-checked certificate -/
def LettersOK (vals : List Nat) : Prop := ∀ r ∈ vals, wbL r ∈ Cert.Word.cert.letters

/-- **Verdicts.** Folding `transitionWordBreakState` left to right from state −1 over any code-point
string gives, before every code point but the first, exactly the verdict of WB1–WB999 (`Spec.specW`,
the declarative reading applied to the Word_Break/Extended_Pictographic values the tables give). -/
theorem word_verdicts_eq_wb (vals : List Nat) (hL : LettersOK vals) :
    ((runV transitionWordBreakState none vals).map (·.2)).tail = specW vals := by
  rw [runV_implRun algW wbL transitionWordBreakState (transW_factor fffd_inert)]
  have hw : ∀ x ∈ vals.map wbL, x ∈ Cert.Word.cert.letters := by
    intro x hx
    obtain ⟨r, hr, rfl⟩ := List.mem_map.mp hx
    exact hL r hr
  rw [run_agree_start algW Cert.Word.cert Cert.Word.valid _ hw]
  rw [wb_specRun _ (by intro y hy; obtain ⟨r, _, rfl⟩ := List.mem_map.mp hy; exact wbL_prop_lt r)]
  simp only [specW, List.map_map]
  rfl

/-- **Segments.** The chain of `FirstWord`/`FirstWordInString` calls from state −1 (rest and state
fed back) cuts any text exactly at the positions where WB1–WB999 place a boundary: the segment
lengths, in code points, are the `cuts` of the spec's verdict list. -/
theorem word_segments_eq_wb (b : List Nat) (hL : LettersOK (runeVals (Utf8.runesOf b))) :
    (chain firstWordR (Utf8.runesOf b) none).map (·.1) =
      match Utf8.runesOf b with
      | [] => []
      | _ :: _ => cuts id (specW (runeVals (Utf8.runesOf b))) 1 := by
  have h := chain_counts transitionWordBreakState id wbAny (Utf8.runesOf b)
  unfold firstWordR
  rw [h]
  cases hrs : Utf8.runesOf b with
  | nil => rfl
  | cons r rest =>
    simp only
    rw [hrs] at hL
    rw [← word_verdicts_eq_wb _ hL, List.map_tail]

/-- non-vacuity: the hypothesis holds on a concrete string mixing letters, MidLetter, an emoji ZWJ
sequence, a flag pair, spaces, CR LF and digits ("can't 👩‍👩 🇩🇪\r\n1,5"), and both verdicts occur -/
example : LettersOK [0x63, 0x61, 0x6E, 0x27, 0x74, 0x20, 0x1F469, 0x200D, 0x1F469, 0x20, 0x1F1E9, 0x1F1EA, 0x0D, 0x0A, 0x31, 0x2C, 0x35] ∧
    specW [0x61, 0x20, 0x62] = [true, true] ∧ specW [0x61, 0x27, 0x62] = [false, false] := by
  refine ⟨?_, ?_, ?_⟩
  · intro r hr
    simp only [List.mem_cons, List.not_mem_nil, or_false] at hr
    rcases hr with rfl | rfl | rfl | rfl | rfl | rfl | rfl | rfl | rfl | rfl | rfl | rfl | rfl | rfl | rfl | rfl | rfl <;> decide +kernel
  · decide +kernel
  · decide +kernel

end Uniseg.Properties.C02
