import Uniseg.Properties.C03
import Uniseg.Properties.CodePoints
import Uniseg.Class.S
/-! # C03 without side conditions -/
namespace Uniseg.Properties.C03U
open Uniseg Uniseg.Gen Uniseg.Ref Uniseg.Class Uniseg.Chain Uniseg.Spec Uniseg.Auto Uniseg.Properties

theorem rows_letters : sig.all (fun row => decide (row.s ∈ Cert.Sentence.cert.letters)) = true := by decide +kernel

theorem letter_ok (r : Nat) (hr : r < 0x110000) : sbL r ∈ Cert.Sentence.cert.letters := by
  obtain ⟨row, hm, h1, h2⟩ := row_exists r hr
  show property sentenceTable r ∈ _
  rw [s_class r row hm h1 h2]
  exact of_decide_eq_true (List.all_eq_true.mp rows_letters row hm)

theorem lettersOK (vals : List Nat) (h : CodePoints vals) : C03.LettersOK vals := fun r hr => letter_ok r (h r hr)

/-- **C03, verdicts**, every code-point string -/
theorem sentence_verdicts (vals : List Nat) (h : CodePoints vals) :
    ((runV transitionSentenceBreakState none vals).map (·.2)).tail = specS vals :=
  C03.sentence_verdicts_eq_sb vals (lettersOK vals h)

/-- **C03, segments**, every byte string -/
theorem sentence_segments (b : List Nat) :
    (chain firstSentenceR (Utf8.runesOf b) none).map (·.1) =
      match Utf8.runesOf b with
      | [] => []
      | _ :: _ => cuts id (specS (runeVals (Utf8.runesOf b))) 1 :=
  C03.sentence_segments_eq_sb b (lettersOK _ (decoded_codepoints b))


/-! ## stated over the reference classification alone -/

def refS (r : Nat) : SB.C := SB.ofProp (rowOf r).s

theorem refS_eq (r : Nat) (hr : r < 0x110000) : sbLetter r = refS r := by
  obtain ⟨hm, h1, h2⟩ := rowOf_spec r hr
  unfold sbLetter refS
  rw [s_class r _ hm h1 h2]

theorem specS_ref (vals : List Nat) (h : CodePoints vals) : specS vals = interior SB.sbBreak [] (vals.map refS) := by
  unfold specS
  rw [List.map_congr_left (fun r hr => refS_eq r (h r hr))]

/-- **C03 in absolute terms** -/
theorem sentence_verdicts_ref (vals : List Nat) (h : CodePoints vals) :
    ((runV transitionSentenceBreakState none vals).map (·.2)).tail = interior SB.sbBreak [] (vals.map refS) := by
  rw [sentence_verdicts vals h, specS_ref vals h]

theorem sentence_same_class (vals vals' : List Nat) (h : CodePoints vals) (h' : CodePoints vals')
    (hsame : vals.map refS = vals'.map refS) :
    ((runV transitionSentenceBreakState none vals).map (·.2)).tail = ((runV transitionSentenceBreakState none vals').map (·.2)).tail := by
  rw [sentence_verdicts_ref vals h, sentence_verdicts_ref vals' h', hsame]

end Uniseg.Properties.C03U
