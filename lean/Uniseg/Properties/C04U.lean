import Uniseg.Properties.C04
import Uniseg.Properties.CodePoints
import Uniseg.Class.G
import Uniseg.Class.L
import Uniseg.Class.E
/-! # C04 without side conditions -/
namespace Uniseg.Properties.C04U
open Uniseg Uniseg.Gen Uniseg.Ref Uniseg.Class Uniseg.Chain Uniseg.Spec Uniseg.Auto Uniseg.Properties

/-- the line letter of a code point, read off its reference row -/
def rowL (row : Row) : LbIn :=
  { prop := lbResolve row.l row.gc
    eaFWH := row.e == prF || row.e == prW || row.e == prH
    extPicCn := row.g == prExtendedPictographic && row.gc == gcCn }

theorem rows_letters : sig.all (fun row => decide (rowL row ∈ Cert.Line.cert.letters)) = true := by decide +kernel

theorem lbIn_row (r : Nat) (row : Row) (hm : row ∈ sig) (h1 : row.lo ≤ r) (h2 : r ≤ row.hi) : lbIn r = rowL row := by
  unfold lbIn rowL
  simp only
  rw [g_ep r row hm h1 h2, e_fwh r row hm h1 h2, ← (l_class r row hm h1 h2).2, bucket_cn, lbResolve_bucket,
    (l_class r row hm h1 h2).1]

theorem letter_ok (r : Nat) (hr : r < 0x110000) : lbIn r ∈ Cert.Line.cert.letters := by
  obtain ⟨row, hm, h1, h2⟩ := row_exists r hr
  rw [lbIn_row r row hm h1 h2]
  exact of_decide_eq_true (List.all_eq_true.mp rows_letters row hm)

theorem lettersOK (vals : List Nat) (h : CodePoints vals) : C04.LettersOK vals := fun r hr => letter_ok r (h r hr)

/-- **C04, verdicts**, every code-point string -/
theorem line_verdicts (vals : List Nat) (h : CodePoints vals) :
    ((runV transitionLineBreakState none vals).map (fun t => lvOfNat t.2)).tail = specL vals :=
  C04.line_verdicts_eq_uax14 vals (lettersOK vals h)

/-- **C04, segments and mustBreak**, every byte string -/
theorem line_segments (b : List Nat) :
    (chain firstLineR (Utf8.runesOf b) none).map (fun x => (x.1, x.2.1.map lvOfNat)) =
      match Utf8.runesOf b with
      | [] => []
      | _ :: _ => cutsV (fun v => v != LB.V.no) (specL (runeVals (Utf8.runesOf b))) 1 :=
  C04.line_segments_eq_uax14 b (lettersOK _ (decoded_codepoints b))


/-! ## stated over the reference classification alone -/

/-- how UAX #14 sees a code point, from the committed Unicode 15.0.0 reference data: Line_Break after
the LB1 resolution (which needs General_Category Mn/Mc for SA), East_Asian_Width ∈ {F, W, H} (LB30),
Extended_Pictographic ∧ General_Category = Cn (LB30b) -/
def refL (r : Nat) : LB.Ch :=
  ⟨LB.ofProp (rowL (rowOf r)).prop, (rowL (rowOf r)).eaFWH, (rowL (rowOf r)).extPicCn⟩

theorem refL_eq (r : Nat) (hr : r < 0x110000) : lbLetter r = refL r := by
  obtain ⟨hm, h1, h2⟩ := rowOf_spec r hr
  unfold lbLetter refL
  simp only
  rw [lbIn_row r _ hm h1 h2]

theorem specL_ref (vals : List Nat) (h : CodePoints vals) : specL vals = interior LB.lbVerdict [] (vals.map refL) := by
  unfold specL
  rw [List.map_congr_left (fun r hr => refL_eq r (h r hr))]

/-- **C04 in absolute terms** -/
theorem line_verdicts_ref (vals : List Nat) (h : CodePoints vals) :
    ((runV transitionLineBreakState none vals).map (fun t => lvOfNat t.2)).tail = interior LB.lbVerdict [] (vals.map refL) := by
  rw [line_verdicts vals h, specL_ref vals h]

theorem line_same_class (vals vals' : List Nat) (h : CodePoints vals) (h' : CodePoints vals')
    (hsame : vals.map refL = vals'.map refL) :
    ((runV transitionLineBreakState none vals).map (fun t => lvOfNat t.2)).tail =
      ((runV transitionLineBreakState none vals').map (fun t => lvOfNat t.2)).tail := by
  rw [line_verdicts_ref vals h, line_verdicts_ref vals' h', hsame]

end Uniseg.Properties.C04U
