import Uniseg.Proofs.Bytes
import Uniseg.Proofs.ChainG
import Uniseg.Proofs.ChainStep
/-! # C05 — every segmenter losslessly partitions arbitrary bytes and always makes progress

All statements hold for every byte list (well-formed UTF-8 or not), every value of the state
argument (−1 = `none`, or any `some s`), and every value of `EastAsianAmbiguousWidth`.
A result's first component is the segment length `n`: `segment = b.take n`, `rest = b.drop n`
(that segment and rest are sub-slices of the argument's memory is checked on the real code by the
harness's aliasing monitor, not here). -/
namespace Uniseg.Properties.C05
open Uniseg Uniseg.Gen Uniseg.Utf8 Uniseg.Chain Uniseg.ChainG Uniseg.ChainStep Uniseg.Bytes

/-! ## one call, code-point level: at least one code point, never more than there are -/

theorem word_call (rs : List Rune) (st : Option Nat) (h : rs ≠ []) :
    1 ≤ (firstWordR rs st).1 ∧ (firstWordR rs st).1 ≤ rs.length := firstSeg_bounds _ _ _ rs st h
theorem sentence_call (rs : List Rune) (st : Option Nat) (h : rs ≠ []) :
    1 ≤ (firstSentenceR rs st).1 ∧ (firstSentenceR rs st).1 ≤ rs.length := firstSeg_bounds _ _ _ rs st h
theorem line_call (rs : List Rune) (st : Option Nat) (h : rs ≠ []) :
    1 ≤ (firstLineR rs st).1 ∧ (firstLineR rs st).1 ≤ rs.length := firstSeg_bounds _ _ _ rs st h
theorem grapheme_call (amb : Nat) (rs : List Rune) (st : Option Nat) (h : rs ≠ []) :
    1 ≤ (firstGraphemeClusterR amb rs st).1 ∧ (firstGraphemeClusterR amb rs st).1 ≤ rs.length :=
  ⟨gen_pos _ _ _ _ _ _ (fg_isFirstCut amb) rs st h, (gen_le _ _ _ _ _ _ (fg_isFirstCut amb) rs st).resolve_right h⟩
theorem step_call (isString : Bool) (amb : Nat) (rs : List Rune) (st : Option Nat) (h : rs ≠ []) :
    1 ≤ (stepR isString amb rs st).1 ∧ (stepR isString amb rs st).1 ≤ rs.length :=
  ⟨gen_pos _ _ _ _ _ _ (step_isFirstCut isString amb) rs st h,
   (gen_le _ _ _ _ _ _ (step_isFirstCut isString amb) rs st).resolve_right h⟩

/-! ## one call, byte level -/

/-- generic: a byte-level result built from a code-point-level count `k` with `1 ≤ k ≤ #runes` is a
non-empty prefix of the input made of whole decoded runes -/
theorem bytes_of_count (b : List Nat) (hb : b ≠ []) (k : Nat) (h1 : 1 ≤ k) :
    1 ≤ segBytes (runesOf b) k ∧ segBytes (runesOf b) k ≤ b.length ∧
    segBytes (runesOf b) k = sizeSum ((runesOf b).take k) := by
  have hrs : runesOf b ≠ [] := by rw [runesOf_cons b hb]; simp
  refine ⟨sizeSum_take_pos _ (runesOf_size_pos b.length b (Nat.le_refl _)) k h1 hrs, ?_, rfl⟩
  have := sizeSum_take_le (runesOf b) k
  rw [sizeSum_runesOf b.length b (Nat.le_refl _)] at this
  exact this

theorem runes_ne (b : List Nat) (hb : b ≠ []) : runesOf b ≠ [] := by rw [runesOf_cons b hb]; simp

/-- `FirstWord(InString)`: non-empty segment, inside the input, ending at a rune boundary -/
theorem firstWord_len (b : List Nat) (st : Option Nat) (hb : b ≠ []) :
    1 ≤ (firstWord b st).1 ∧ (firstWord b st).1 ≤ b.length ∧
    ∃ k, 1 ≤ k ∧ (firstWord b st).1 = sizeSum ((runesOf b).take k) := by
  have hc := word_call (runesOf b) st (runes_ne b hb)
  obtain ⟨h1, h2, h3⟩ := bytes_of_count b hb _ hc.1
  exact ⟨h1, h2, _, hc.1, h3⟩
theorem firstSentence_len (b : List Nat) (st : Option Nat) (hb : b ≠ []) :
    1 ≤ (firstSentence b st).1 ∧ (firstSentence b st).1 ≤ b.length ∧
    ∃ k, 1 ≤ k ∧ (firstSentence b st).1 = sizeSum ((runesOf b).take k) := by
  have hc := sentence_call (runesOf b) st (runes_ne b hb)
  obtain ⟨h1, h2, h3⟩ := bytes_of_count b hb _ hc.1
  exact ⟨h1, h2, _, hc.1, h3⟩
theorem firstLineSegment_len (b : List Nat) (st : Option Nat) (hb : b ≠ []) :
    1 ≤ (firstLineSegment b st).1 ∧ (firstLineSegment b st).1 ≤ b.length ∧
    ∃ k, 1 ≤ k ∧ (firstLineSegment b st).1 = sizeSum ((runesOf b).take k) := by
  have hc := line_call (runesOf b) st (runes_ne b hb)
  obtain ⟨h1, h2, h3⟩ := bytes_of_count b hb _ hc.1
  exact ⟨h1, h2, _, hc.1, h3⟩
theorem firstGraphemeCluster_len (amb : Nat) (b : List Nat) (st : Option Nat) (hb : b ≠ []) :
    1 ≤ (firstGraphemeCluster amb b st).1 ∧ (firstGraphemeCluster amb b st).1 ≤ b.length ∧
    ∃ k, 1 ≤ k ∧ (firstGraphemeCluster amb b st).1 = sizeSum ((runesOf b).take k) := by
  have hc := grapheme_call amb (runesOf b) st (runes_ne b hb)
  obtain ⟨h1, h2, h3⟩ := bytes_of_count b hb _ hc.1
  exact ⟨h1, h2, _, hc.1, h3⟩
theorem step_len (isString : Bool) (amb : Nat) (b : List Nat) (st : Option Nat) (hb : b ≠ []) :
    1 ≤ (step isString amb b st).1 ∧ (step isString amb b st).1 ≤ b.length ∧
    ∃ k, 1 ≤ k ∧ (step isString amb b st).1 = sizeSum ((runesOf b).take k) := by
  have hc := step_call isString amb (runesOf b) st (runes_ne b hb)
  obtain ⟨h1, h2, h3⟩ := bytes_of_count b hb _ hc.1
  exact ⟨h1, h2, _, hc.1, h3⟩

/-- an empty input yields zero values, whatever the state -/
theorem empty_zero (amb : Nat) (isString : Bool) (st : Option Nat) :
    firstWord [] st = (0, 0) ∧ firstSentence [] st = (0, 0) ∧ firstLineSegment [] st = (0, false, 0) ∧
    firstGraphemeCluster amb [] st = (0, 0, 0) ∧ step isString amb [] st = (0, 0, 0) := by
  simp only [firstWord, firstSentence, firstLineSegment, firstGraphemeCluster, step, runesOf_nil]
  exact ⟨rfl, rfl, rfl, rfl, rfl⟩

/-! ## the whole chain -/

/-- for any loop that consumes between 1 and all code points per call: every segment of the chain
is non-empty, the segments add up to the whole text, and there are at most as many calls as code
points (hence at most `len(input)` calls) -/
def Partitions {X : Type} (f : List Rune → Option Nat → Nat × X × Nat) (b : List Nat) (st : Option Nat) : Prop :=
    (∀ x ∈ chain f (runesOf b) st, 1 ≤ x.1) ∧
    ((chain f (runesOf b) st).map (·.1)).sum = (runesOf b).length ∧
    (chain f (runesOf b) st).length ≤ b.length

theorem partition_of {X : Type} (f : List Rune → Option Nat → Nat × X × Nat)
    (hpos : ∀ rs st, rs ≠ [] → 1 ≤ (f rs st).1) (hle : ∀ rs st, (f rs st).1 ≤ rs.length)
    (b : List Nat) (st : Option Nat) : Partitions f b st := by
  unfold Partitions
  obtain ⟨h1, h2, h3⟩ := chain_partition f hpos hle (runesOf b).length (runesOf b) st (Nat.le_refl _)
  refine ⟨h1, h2, Nat.le_trans h3 ?_⟩
  -- #runes ≤ #bytes because every size is ≥ 1
  have hs := sizeSum_runesOf b.length b (Nat.le_refl _)
  have hp := runesOf_size_pos b.length b (Nat.le_refl _)
  rw [← hs]
  clear hs h1 h2 h3
  generalize runesOf b = rs at hp
  induction rs with
  | nil => simp [sizeSum]
  | cons r rs ih =>
    simp only [List.length_cons, sizeSum]
    have := hp r (List.mem_cons_self ..)
    have := ih (fun x hx => hp x (List.mem_cons_of_mem _ hx))
    omega

theorem le_of_call {X : Type} (f : List Rune → Option Nat → Nat × X × Nat)
    (h0 : ∀ st, (f [] st).1 = 0) (h : ∀ rs st, rs ≠ [] → (f rs st).1 ≤ rs.length) (rs : List Rune) (st : Option Nat) :
    (f rs st).1 ≤ rs.length := by
  cases rs with
  | nil => rw [h0]; exact Nat.le_refl _
  | cons r rest => exact h _ _ (by simp)

/-- **Partition and progress** of the five chains, from any starting state -/
theorem word_partition (b : List Nat) (st : Option Nat) : Partitions firstWordR b st :=
  partition_of firstWordR (fun rs st h => (word_call rs st h).1)
    (le_of_call _ (fun _ => rfl) (fun rs st h => (word_call rs st h).2)) b st
theorem sentence_partition (b : List Nat) (st : Option Nat) : Partitions firstSentenceR b st :=
  partition_of firstSentenceR (fun rs st h => (sentence_call rs st h).1)
    (le_of_call _ (fun _ => rfl) (fun rs st h => (sentence_call rs st h).2)) b st
theorem line_partition (b : List Nat) (st : Option Nat) : Partitions firstLineR b st :=
  partition_of firstLineR (fun rs st h => (line_call rs st h).1)
    (le_of_call _ (fun _ => rfl) (fun rs st h => (line_call rs st h).2)) b st
theorem grapheme_partition (amb : Nat) (b : List Nat) (st : Option Nat) : Partitions (firstGraphemeClusterR amb) b st :=
  partition_of (firstGraphemeClusterR amb) (fun rs st h => (grapheme_call amb rs st h).1)
    (le_of_call _ (fun _ => rfl) (fun rs st h => (grapheme_call amb rs st h).2)) b st
theorem step_partition (isString : Bool) (amb : Nat) (b : List Nat) (st : Option Nat) :
    Partitions (stepR isString amb) b st :=
  partition_of (stepR isString amb) (fun rs st h => (step_call isString amb rs st h).1)
    (le_of_call _ (fun _ => rfl) (fun rs st h => (step_call isString amb rs st h).2)) b st

/-- the byte-level chain (feed back `b[n:]` and the state) is the code-point-level chain with
lengths converted to bytes; with `fuel = len b` it never runs out of fuel (termination after at
most `len(input)` calls) -/
theorem word_byte_chain (b : List Nat) (st : Option Nat) :
    chainBFuel firstWordR b.length b st = groupBytes (runesOf b) (chain firstWordR (runesOf b) st) :=
  chainB_eq firstWordR (fun rs st h => (word_call rs st h).1) b.length b st (Nat.le_refl _)
theorem step_byte_chain (isString : Bool) (amb : Nat) (b : List Nat) (st : Option Nat) :
    chainBFuel (stepR isString amb) b.length b st =
      groupBytes (runesOf b) (chain (stepR isString amb) (runesOf b) st) :=
  chainB_eq _ (fun rs st h => (step_call isString amb rs st h).1) b.length b st (Nat.le_refl _)

/-- non-vacuity: on a concrete ill-formed input (a stray continuation byte, a truncated sequence and an
overlong form around "a") the decoded runes are the expected five, each byte accounted for -/
example : (runesOf [0x80, 0x61, 0xE2, 0x82, 0xC0, 0x80]).map (·.2) = [1, 1, 1, 1, 1, 1] ∧
    (runesOf [0x61, 0xE2, 0x82, 0xAC]).map (·.2) = [1, 3] := by
  refine ⟨?_, ?_⟩ <;> (simp [runesOf, decodeRune, cont])

end Uniseg.Properties.C05
