import Uniseg.Cert.Grapheme
import Uniseg.Proofs.Lift
import Uniseg.Proofs.ChainG
/-! # C01 — grapheme clusters follow UAX #29 GB1–GB999 on every string

Quantifiers: every list of code points / every byte string, of any length and any mix of classes,
segmented from state −1 through the chain of returned states. -/
namespace Uniseg.Properties.C01
open Uniseg Uniseg.Gen Uniseg.Auto Uniseg.Chain Uniseg.ChainG Uniseg.Spec Uniseg.Lift

/-- every code point's class is in the alphabet of the kernel-checked certificate -/
def LettersOK (vals : List Nat) : Prop := ∀ r ∈ vals, gbLetter r ∈ Cert.Grapheme.cert.letters

theorem mask_small (s : Nat) (h : s < 16) : s &&& maskGraphemeState = s := by
  show s &&& 15 = s
  rw [show (15 : Nat) = 2 ^ 4 - 1 from rfl, Nat.and_two_pow_sub_one_eq_mod]; omega

/-- masking is invisible along a run: all automaton states are below 16 -/
theorem runV_mask : ∀ (vals : List Nat) (st : Option Nat), (∀ s, st = some s → s < 16) →
    runV trGm st vals = runV trG st vals := by
  intro vals
  induction vals with
  | nil => intro _ _; rfl
  | cons r rest ih =>
    intro st hst
    have hm : st.map (· &&& maskGraphemeState) = st := by
      cases st with
      | none => rfl
      | some s => simp only [Option.map_some, mask_small s (hst s rfl)]
    simp only [runV, trGm, trG, hm]
    rw [ih]
    intro s hs
    cases hs
    exact trans_state_lt _ _

/-- **Verdicts.** Folding `transitionGraphemeState` (as the loops do, masking the carried state)
left to right from state −1 gives, before every code point but the first, exactly the verdict of
GB1–GB999. -/
theorem grapheme_verdicts_eq_gb (vals : List Nat) (hL : LettersOK vals) :
    ((runV trGm none vals).map (·.2)).tail = specG vals := by
  rw [runV_mask vals none (by intro s h; cases h)]
  rw [runV_implRun algG gbLetter trG (fun st r rest => rfl)]
  have hw : ∀ x ∈ vals.map gbLetter, x ∈ Cert.Grapheme.cert.letters := by
    intro x hx
    obtain ⟨r, hr, rfl⟩ := List.mem_map.mp hx
    exact hL r hr
  rw [run_agree_start algG Cert.Grapheme.cert Cert.Grapheme.valid _ hw, gb_specRun]
  rfl

/-- **Clusters.** The chain of `FirstGraphemeCluster`/`FirstGraphemeClusterInString` calls from state
−1 (rest and state fed back), for any value of `EastAsianAmbiguousWidth`, cuts any text exactly at
the positions where GB1–GB999 place a boundary. -/
theorem grapheme_clusters_eq_gb (amb : Nat) (b : List Nat) (hL : LettersOK (runeVals (Utf8.runesOf b))) :
    (chain (firstGraphemeClusterR amb) (Utf8.runesOf b) none).map (·.1) =
      match Utf8.runesOf b with
      | [] => []
      | _ :: _ => cuts id (specG (runeVals (Utf8.runesOf b))) 1 := by
  rw [gen_chain trGm id (firstGraphemeClusterR amb) decG _ _ (fg_isFirstCut amb)]
  cases hrs : Utf8.runesOf b with
  | nil => rfl
  | cons r rest =>
    simp only
    rw [hrs] at hL
    rw [← grapheme_verdicts_eq_gb _ hL, List.map_tail]

/-- non-vacuity: CR LF, a Hangul L V T sequence, an emoji ZWJ sequence, a flag pair followed by a
third Regional Indicator, Prepend, SpacingMark -/
example : LettersOK [0x0D, 0x0A, 0x1100, 0x1161, 0x11A8, 0x1F469, 0x200D, 0x1F469, 0x1F1E9, 0x1F1EA, 0x1F1EB, 0x0600, 0x61, 0x0903] ∧
    specG [0x0D, 0x0A, 0x61] = [false, true] ∧
    specG [0x1F469, 0x200D, 0x1F469, 0x61] = [false, false, true] ∧
    specG [0x1F1E9, 0x1F1EA, 0x1F1EB] = [false, true] := by
  refine ⟨?_, ?_, ?_, ?_⟩
  · intro r hr
    simp only [List.mem_cons, List.not_mem_nil, or_false] at hr
    rcases hr with rfl | rfl | rfl | rfl | rfl | rfl | rfl | rfl | rfl | rfl | rfl | rfl | rfl | rfl <;> decide +kernel
  · decide +kernel
  · decide +kernel
  · decide +kernel

end Uniseg.Properties.C01
