import Uniseg.Proofs.Vals
import Uniseg.Proofs.Bytes
import Uniseg.Proofs.Table
/-! # C10 — ill-formed UTF-8 is handled byte by byte as U+FFFD and never panics

* Totality: every model function is a total Lean function (structural recursion or explicit fuel
  that provably suffices, `C05`), so no input loops; the only indexing operations of the Go code are
  `b[length:]`-style re-slices, whose bounds are the `≤ len b` statements of `C05`, and
  `dictionary[middle]`, in range by `Table.search_mid_lt`.
* Equivalence: for every byte string `b`, let `fix b` be `b` with every byte that is not part of a
  well-formed sequence replaced by an encoded U+FFFD. Every segmenter gives on `b` and on `fix b`
  the same segments counted in code points, the same widths/flags and the same states — including
  when the offending byte lies inside a look-ahead span, because look-ahead also only sees the
  decoded code points. -/
namespace Uniseg.Properties.C10
open Uniseg Uniseg.Utf8 Uniseg.Chain Uniseg.Vals Uniseg.Bytes

/-- `b` with every ill-formed byte replaced by U+FFFD -/
def fix (b : List Nat) : List Nat := encodeAll (runeVals (runesOf b))

/-- the repaired text decodes to the same code points -/
theorem fix_vals (b : List Nat) : runeVals (runesOf (fix b)) = runeVals (runesOf b) := reencode_vals b

/-- **the chain of any segmenter** (segments in code points, widths / flags / mustBreak, states) is
the same on `b` and on `fix b`, from any starting state -/
theorem word_fix (b : List Nat) (st : Option Nat) :
    chain firstWordR (runesOf (fix b)) st = chain firstWordR (runesOf b) st :=
  chain_valOnly _ (firstSeg_valOnly _ _ _) _ _ st (fix_vals b)
theorem sentence_fix (b : List Nat) (st : Option Nat) :
    chain firstSentenceR (runesOf (fix b)) st = chain firstSentenceR (runesOf b) st :=
  chain_valOnly _ (firstSeg_valOnly _ _ _) _ _ st (fix_vals b)
theorem line_fix (b : List Nat) (st : Option Nat) :
    chain firstLineR (runesOf (fix b)) st = chain firstLineR (runesOf b) st :=
  chain_valOnly _ (firstSeg_valOnly _ _ _) _ _ st (fix_vals b)
theorem grapheme_fix (amb : Nat) (b : List Nat) (st : Option Nat) :
    chain (firstGraphemeClusterR amb) (runesOf (fix b)) st = chain (firstGraphemeClusterR amb) (runesOf b) st :=
  chain_valOnly _ (fg_valOnly amb) _ _ st (fix_vals b)
theorem step_fix (isString : Bool) (amb : Nat) (b : List Nat) (st : Option Nat) :
    chain (stepR isString amb) (runesOf (fix b)) st = chain (stepR isString amb) (runesOf b) st :=
  chain_valOnly _ (step_valOnly isString amb) _ _ st (fix_vals b)

/-- every byte is consumed by exactly one decoded rune, of size 1 to 4: ill-formed bytes are
consumed one at a time (`Utf8.decodeRune` yields size 1 on every ill-formed prefix, tied to
`utf8.DecodeRune` by correspondence stage E4) -/
theorem sizes (b : List Nat) : ∀ r ∈ runesOf b, 1 ≤ r.2 :=
  runesOf_size_pos b.length b (Nat.le_refl _)

/-- index safety of the table search: the probed index is inside the table -/
theorem search_index_safe (fr to n : Nat) (h : fr < to) (hto : to ≤ n) : (fr + to) / 2 < n :=
  Table.search_mid_lt fr to n h hto

/-- non-vacuity: a stray continuation byte inside the look-ahead span of SB8 ("A. \x80 a"), and the
same text with U+FFFD, decode to the same code points -/
example : runeVals (runesOf [0x41, 0x2E, 0x20, 0x80, 0x20, 0x61]) = [0x41, 0x2E, 0x20, 0xFFFD, 0x20, 0x61] ∧
    runeVals (runesOf [0x41, 0x2E, 0x20, 0xEF, 0xBF, 0xBD, 0x20, 0x61]) = [0x41, 0x2E, 0x20, 0xFFFD, 0x20, 0x61] := by
  refine ⟨?_, ?_⟩ <;> simp [runeVals, runesOf, decodeRune, cont]

end Uniseg.Properties.C10
