import Uniseg.Properties.C04
import Uniseg.ClassCur.G
import Uniseg.ClassCur.L
import Uniseg.ClassCur.E
import Uniseg.Properties.CodePoints
namespace Uniseg.Properties.LettersCur
open Uniseg Uniseg.Gen Uniseg.ClassCur Uniseg.Chain Uniseg.Spec Uniseg.Auto Uniseg.Properties
open Uniseg.Ref (Row)
open Uniseg.Gen.SigCur (sig)

/-! ## lines -/
def rowL (row : Row) : LbIn :=
  { prop := lbResolve row.l row.gc
    eaFWH := row.e == prF || row.e == prW || row.e == prH
    extPicCn := row.g == prExtendedPictographic && row.gc == gcCn }

theorem l_rows_letters : sig.all (fun row => decide (rowL row ∈ Cert.Line.cert.letters)) = true := by decide +kernel

theorem l_letter_ok (r : Nat) (hr : r < 0x110000) : lbIn r ∈ Cert.Line.cert.letters := by
  obtain ⟨row, hm, h1, h2⟩ := row_exists r hr
  have : lbIn r = rowL row := by
    unfold lbIn rowL
    simp only
    rw [g_ep r row hm h1 h2, e_fwh r row hm h1 h2, ← (l_class r row hm h1 h2).2, bucket_cn, lbResolve_bucket,
      (l_class r row hm h1 h2).1]
  rw [this]
  exact of_decide_eq_true (List.all_eq_true.mp l_rows_letters row hm)

theorem l_lettersOK (vals : List Nat) (h : CodePoints vals) : C04.LettersOK vals := fun r hr => l_letter_ok r (h r hr)


end Uniseg.Properties.LettersCur
