import Uniseg.Properties.C03
import Uniseg.ClassCur.S
import Uniseg.Properties.CodePoints
namespace Uniseg.Properties.LettersCur
open Uniseg Uniseg.Gen Uniseg.ClassCur Uniseg.Chain Uniseg.Spec Uniseg.Auto Uniseg.Properties
open Uniseg.Ref (Row)
open Uniseg.Gen.SigCur (sig)

/-! ## sentences -/
theorem s_rows_letters : sig.all (fun row => decide (row.s ∈ Cert.Sentence.cert.letters)) = true := by decide +kernel

theorem s_letter_ok (r : Nat) (hr : r < 0x110000) : sbL r ∈ Cert.Sentence.cert.letters := by
  obtain ⟨row, hm, h1, h2⟩ := row_exists r hr
  show property sentenceTable r ∈ _
  rw [s_class r row hm h1 h2]
  exact of_decide_eq_true (List.all_eq_true.mp s_rows_letters row hm)

theorem s_lettersOK (vals : List Nat) (h : CodePoints vals) : C03.LettersOK vals := fun r hr => s_letter_ok r (h r hr)


end Uniseg.Properties.LettersCur
