import Uniseg.Properties.C01
import Uniseg.ClassCur.G
import Uniseg.Properties.CodePoints
namespace Uniseg.Properties.LettersCur
open Uniseg Uniseg.Gen Uniseg.ClassCur Uniseg.Chain Uniseg.Spec Uniseg.Auto Uniseg.Properties
open Uniseg.Ref (Row)
open Uniseg.Gen.SigCur (sig)

/-! ## graphemes -/
theorem g_rows_letters : sig.all (fun row => decide (row.g ∈ Cert.Grapheme.cert.letters)) = true := by decide +kernel
theorem g_any_letter : prAny ∈ Cert.Grapheme.cert.letters := by decide +kernel

theorem g_letter_ok (r : Nat) (hr : r < 0x110000) : gbLetter r ∈ Cert.Grapheme.cert.letters := by
  obtain ⟨row, hm, h1, h2⟩ := row_exists r hr
  have hg := g_class r row hm h1 h2
  have rg := of_decide_eq_true (List.all_eq_true.mp g_rows_letters row hm)
  show propertyGraphemes r ∈ _
  by_cases ha : propertyGraphemes r = prAny
  · rw [ha]; exact g_any_letter
  · have : normG (propertyGraphemes r) = propertyGraphemes r := by
      unfold normG; rw [if_neg (by simpa using ha)]
    rw [← this, hg]; exact rg

theorem g_lettersOK (vals : List Nat) (h : CodePoints vals) : C01.LettersOK vals := fun r hr => g_letter_ok r (h r hr)


end Uniseg.Properties.LettersCur
