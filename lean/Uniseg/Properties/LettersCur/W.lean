import Uniseg.Properties.C02
import Uniseg.ClassCur.G
import Uniseg.ClassCur.W
import Uniseg.Properties.CodePoints
namespace Uniseg.Properties.LettersCur
open Uniseg Uniseg.Gen Uniseg.ClassCur Uniseg.Chain Uniseg.Spec Uniseg.Auto Uniseg.Properties
open Uniseg.Ref (Row)
open Uniseg.Gen.SigCur (sig)

/-! ## words -/
def rowW (row : Row) : WbL := ⟨row.w, row.g == prExtendedPictographic⟩

theorem w_rows_letters : sig.all (fun row => decide (rowW row ∈ Cert.Word.cert.letters)) = true := by decide +kernel

theorem w_letter_ok (r : Nat) (hr : r < 0x110000) : wbL r ∈ Cert.Word.cert.letters := by
  obtain ⟨row, hm, h1, h2⟩ := row_exists r hr
  have : wbL r = rowW row := by unfold wbL rowW; rw [w_class r row hm h1 h2, g_ep r row hm h1 h2]
  rw [this]
  exact of_decide_eq_true (List.all_eq_true.mp w_rows_letters row hm)

theorem w_lettersOK (vals : List Nat) (h : CodePoints vals) : C02.LettersOK vals := fun r hr => w_letter_ok r (h r hr)


end Uniseg.Properties.LettersCur
