import Uniseg.Class.G
import Uniseg.Class.W
import Uniseg.Class.S
import Uniseg.Class.L
import Uniseg.Class.E
import Uniseg.Class.M
/-! # C07 — every code point is classified exactly as Unicode 15.0.0 prescribes

For all 1,114,112 code points, without enumerating them:

1. each of the six tables is sorted and non-overlapping (kernel check of the regenerated table), so
   the binary search is the interval lookup (`Table.search_eq_lookup`, for every `r`);
2. every lookup of the package — including the ASCII fast paths — returns the value of the committed
   Unicode 15.0.0 reference classification (`Ref.sig`, generated from /verif/refdata): kernel-checked
   walks over the ≈5.5 k reference rows and the table (`Walk.walk_sound`), plus a finite check of the
   128 code points the fast paths can touch (`Class.g_class … m_class`, combined in `classified`);
3. hence every boundary and width result depends on the code point only through its reference row:
   the model's transition and width functions take the code point only through these lookups and the
   named code points VS15, VS16, U+2E3A, U+2E3B (`same_row_same_lookups`), and every code point's
   letter lies in the alphabet of the kernel-checked product certificates, which makes C01–C04
   unconditional for every decoded text (`Properties/C01U … C04U`).

Trusted: the reference data itself (provenance and cross-checks in /verif/refdata/provenance). -/
namespace Uniseg.Properties.C07
open Uniseg Uniseg.Gen Uniseg.Table Uniseg.Walk Uniseg.Ref Uniseg.Class

/-- what it means for the package's lookups at `r` to agree with a reference row -/
def Agrees (r : Nat) (row : Row) : Prop :=
  normG (propertyGraphemes r) = row.g ∧ property wordTable r = row.w ∧ property sentenceTable r = row.s ∧
  (propertyLineBreak r).1 = row.l ∧ bucket (propertyLineBreak r).2 = row.gc ∧
  normE (propertyEastAsianWidth r) = row.e ∧ property emojiTable r = row.m

/-- **every lookup of the package returns the Unicode 15.0.0 reference value**, for every code point -/
theorem classified (r : Nat) (hr : r < 0x110000) : ∃ row ∈ sig, row.lo ≤ r ∧ r ≤ row.hi ∧ Agrees r row := by
  obtain ⟨row, hm, h1, h2⟩ := row_exists r hr
  exact ⟨row, hm, h1, h2, g_class r row hm h1 h2, w_class r row hm h1 h2, s_class r row hm h1 h2,
    (l_class r row hm h1 h2).1, (l_class r row hm h1 h2).2, e_class r row hm h1 h2, m_class r row hm h1 h2⟩

/-- two code points with the same reference values get the same lookups (up to the normalisations
"unlisted = Other/Neutral" and "general category only as far as Mn/Mc/Cn") -/
theorem same_values_same_lookups (r r' : Nat)
    (row row' : Row) (hm : row ∈ sig) (hm' : row' ∈ sig) (h1 : row.lo ≤ r) (h2 : r ≤ row.hi) (h1' : row'.lo ≤ r') (h2' : r' ≤ row'.hi)
    (hsame : (row.g, row.w, row.s, row.l, row.gc, row.e, row.m) = (row'.g, row'.w, row'.s, row'.l, row'.gc, row'.e, row'.m)) :
    normG (propertyGraphemes r) = normG (propertyGraphemes r') ∧ property wordTable r = property wordTable r' ∧
    property sentenceTable r = property sentenceTable r' ∧ (propertyLineBreak r).1 = (propertyLineBreak r').1 ∧
    bucket (propertyLineBreak r).2 = bucket (propertyLineBreak r').2 ∧
    normE (propertyEastAsianWidth r) = normE (propertyEastAsianWidth r') ∧ property emojiTable r = property emojiTable r' := by
  simp only [Prod.mk.injEq] at hsame
  obtain ⟨e1, e2, e3, e4, e5, e6, e7⟩ := hsame
  refine ⟨?_, ?_, ?_, ?_, ?_, ?_, ?_⟩
  · rw [g_class r row hm h1 h2, g_class r' row' hm' h1' h2', e1]
  · rw [w_class r row hm h1 h2, w_class r' row' hm' h1' h2', e2]
  · rw [s_class r row hm h1 h2, s_class r' row' hm' h1' h2', e3]
  · rw [(l_class r row hm h1 h2).1, (l_class r' row' hm' h1' h2').1, e4]
  · rw [(l_class r row hm h1 h2).2, (l_class r' row' hm' h1' h2').2, e5]
  · rw [e_class r row hm h1 h2, e_class r' row' hm' h1' h2', e6]
  · rw [m_class r row hm h1 h2, m_class r' row' hm' h1' h2', e7]

/-- non-vacuity: U+0041 and U+1F600 sit in rows with the expected values -/
example : (rowAt 0x41 sig).map (fun x => (x.g, x.w, x.s, x.l, x.e)) = some (prXX, prALetter, prUpper, prAL, prNa) := by decide +kernel
example : (rowAt 0x1F600 sig).map (fun x => (x.g, x.w, x.l, x.e, x.m)) = some (prExtendedPictographic, prExtendedPictographic, prID, prW, prEmojiPresentation) := by decide +kernel

end Uniseg.Properties.C07
