import Uniseg.Properties.C11U
/-! # C11 at the level of bytes: cut the *byte string* at a reported boundary

The statements of `C11U` are about the decoded code points. Here they are carried to what a caller
does: `b` is any byte string (well-formed or not), `k` a position in its decoding at which the
segmenter reports a boundary, `p` the byte offset of that position; then the chain of calls on `b`
yields the byte lengths of the chain on `b[:p]` followed by those of the chain on `b[p:]`, each
from state −1. Uses `Bytes.cut_bytes` (cutting the bytes at a rune boundary cuts the rune list) and
`Bytes.chainB_eq` (byte chain = rune chain with lengths converted). -/
namespace Uniseg.Properties.C11B
open Uniseg Uniseg.Gen Uniseg.Auto Uniseg.Chain Uniseg.Spec Uniseg.Lift Uniseg.Properties Uniseg.Bytes Uniseg.Utf8

/-- byte lengths of consecutive groups of `ns` runes of `rs` -/
def lensB : List Rune → List Nat → List Nat
  | _, [] => []
  | rs, n :: ns => segBytes rs n :: lensB (rs.drop n) ns

theorem groupBytes_lens {X : Type} : ∀ (l : List (Nat × X × Nat)) (rs : List Rune),
    (groupBytes rs l).map (·.1) = lensB rs (l.map (·.1)) := by
  intro l
  induction l with
  | nil => intro _; rfl
  | cons x xs ih => intro rs; simp only [groupBytes, List.map_cons, lensB]; rw [ih]

theorem lensB_append (rs : List Rune) : ∀ (l1 : List Nat) (rp : List Rune) (l2 : List Nat), l1.sum = rp.length →
    lensB (rp ++ rs) (l1 ++ l2) = lensB rp l1 ++ lensB rs l2 := by
  intro l1
  induction l1 with
  | nil =>
    intro rp l2 h
    have : rp = [] := List.eq_nil_of_length_eq_zero (by simpa using h.symm)
    subst this; rfl
  | cons n ns ih =>
    intro rp l2 h
    simp only [List.sum_cons] at h
    have hn : n ≤ rp.length := by omega
    simp only [List.cons_append, lensB, segBytes]
    rw [List.take_append_of_le_length hn, List.drop_append_of_le_length hn]
    rw [ih (rp.drop n) l2 (by simp only [List.length_drop]; omega)]

section Generic
variable {X : Type} (f : List Rune → Option Nat → Nat × X × Nat)
variable (hpos : ∀ rs st, rs ≠ [] → 1 ≤ (f rs st).1) (hle : ∀ rs st, (f rs st).1 ≤ rs.length)
include hpos hle

omit hle in
/-- byte lengths of the byte-level chain from −1 -/
theorem byte_lens (b : List Nat) :
    (chainBFuel f b.length b none).map (·.1) = lensB (runesOf b) ((chain f (runesOf b) none).map (·.1)) := by
  rw [chainB_eq f hpos b.length b none (Nat.le_refl _), groupBytes_lens]

/-- if the code-point-level segment lengths compose at position `k`, the byte-level ones compose at
the byte offset of `k` -/
theorem bytes_compose_of (b : List Nat) (k : Nat)
    (hlen : (chain f (runesOf b) none).map (·.1) =
      (chain f ((runesOf b).take k) none).map (·.1) ++ (chain f ((runesOf b).drop k) none).map (·.1)) :
    (chainBFuel f b.length b none).map (·.1) =
      (chainBFuel f (b.take (sizeSum ((runesOf b).take k))).length (b.take (sizeSum ((runesOf b).take k))) none).map (·.1) ++
      (chainBFuel f (b.drop (sizeSum ((runesOf b).take k))).length (b.drop (sizeSum ((runesOf b).take k))) none).map (·.1) := by
  rw [byte_lens f hpos b, byte_lens f hpos (b.take _), byte_lens f hpos (b.drop _)]
  rw [(cut_bytes k b).1, (cut_bytes k b).2, hlen]
  have hsum : ((chain f ((runesOf b).take k) none).map (·.1)).sum = ((runesOf b).take k).length :=
    (chain_partition f hpos hle _ _ none (Nat.le_refl _)).2.1
  have := lensB_append ((runesOf b).drop k) _ ((runesOf b).take k) ((chain f ((runesOf b).drop k) none).map (·.1)) hsum
  rw [List.take_append_drop] at this
  exact this

end Generic

/-- the verdict index of a split decoding -/
theorem split_runes (R : List Rune) (k : Nat) (hk : k < R.length) :
    ∃ ry rs, R.drop k = ry :: rs ∧ R = R.take k ++ ry :: rs ∧ (runeVals (R.take k)).length = k ∧
      runeVals R = runeVals (R.take k) ++ ry.1 :: runeVals rs := by
  have hne : R.drop k ≠ [] := by
    intro h
    have := congrArg List.length h
    simp only [List.length_drop, List.length_nil] at this
    omega
  obtain ⟨ry, rs, hd⟩ := List.exists_cons_of_ne_nil hne
  refine ⟨ry, rs, hd, ?_, ?_, ?_⟩
  · rw [← hd, List.take_append_drop]
  · simp only [runeVals, List.length_map, List.length_take]; omega
  · have : R = R.take k ++ ry :: rs := by rw [← hd, List.take_append_drop]
    conv => lhs; rw [this]
    simp [runeVals]

/-- **words**: any byte string, any interior position `k` of its decoding where the run reports a
word boundary; `p` = byte offset of `k` -/
theorem word_bytes_compose (b : List Nat) (k : Nat) (hk1 : 1 ≤ k) (hk : k < (runesOf b).length)
    (hb : ((runV transitionWordBreakState none (runeVals (runesOf b))).map (·.2))[k]? = some true) :
    (chainBFuel firstWordR b.length b none).map (·.1) =
      (chainBFuel firstWordR (b.take (sizeSum ((runesOf b).take k))).length (b.take (sizeSum ((runesOf b).take k))) none).map (·.1) ++
      (chainBFuel firstWordR (b.drop (sizeSum ((runesOf b).take k))).length (b.drop (sizeSum ((runesOf b).take k))) none).map (·.1) := by
  apply bytes_compose_of firstWordR (fun rs st h => (C05.word_call rs st h).1)
    (C05.le_of_call _ (fun _ => rfl) (fun rs st h => (C05.word_call rs st h).2)) b k
  obtain ⟨ry, rs, hd, hR, hlen, hvals⟩ := split_runes (runesOf b) k hk
  have hrp : (runesOf b).take k ≠ [] := by
    intro h
    have := congrArg List.length h
    simp only [List.length_take, List.length_nil] at this
    omega
  have hcp : CodePoints (runeVals ((runesOf b).take k) ++ ry.1 :: runeVals rs) := by
    rw [← hvals]; exact C11U.runeVals_codepoints b
  have h := C11U.word_segments_compose ((runesOf b).take k) ry rs hrp hcp (by rw [← hvals, hlen]; exact hb)
  have h2 := congrArg (List.map (·.1)) h
  simp only [List.map_map, List.map_append, C11U.setEnd_lengths] at h2
  rw [hd]
  conv => lhs; rw [hR]
  exact h2

/-- **sentences** -/
theorem sentence_bytes_compose (b : List Nat) (k : Nat) (hk1 : 1 ≤ k) (hk : k < (runesOf b).length)
    (hb : ((runV transitionSentenceBreakState none (runeVals (runesOf b))).map (·.2))[k]? = some true) :
    (chainBFuel firstSentenceR b.length b none).map (·.1) =
      (chainBFuel firstSentenceR (b.take (sizeSum ((runesOf b).take k))).length (b.take (sizeSum ((runesOf b).take k))) none).map (·.1) ++
      (chainBFuel firstSentenceR (b.drop (sizeSum ((runesOf b).take k))).length (b.drop (sizeSum ((runesOf b).take k))) none).map (·.1) := by
  apply bytes_compose_of firstSentenceR (fun rs st h => (C05.sentence_call rs st h).1)
    (C05.le_of_call _ (fun _ => rfl) (fun rs st h => (C05.sentence_call rs st h).2)) b k
  obtain ⟨ry, rs, hd, hR, hlen, hvals⟩ := split_runes (runesOf b) k hk
  have hrp : (runesOf b).take k ≠ [] := by
    intro h
    have := congrArg List.length h
    simp only [List.length_take, List.length_nil] at this
    omega
  have hcp : CodePoints (runeVals ((runesOf b).take k) ++ ry.1 :: runeVals rs) := by
    rw [← hvals]; exact C11U.runeVals_codepoints b
  have h := C11U.sentence_segments_compose ((runesOf b).take k) ry rs hrp hcp (by rw [← hvals, hlen]; exact hb)
  have h2 := congrArg (List.map (·.1)) h
  simp only [List.map_map, List.map_append, C11U.setEnd_lengths] at h2
  rw [hd]
  conv => lhs; rw [hR]
  exact h2

/-- **lines**: `v` is the verdict at `k`, an optional or a mandatory break -/
theorem line_bytes_compose (b : List Nat) (k : Nat) (hk1 : 1 ≤ k) (hk : k < (runesOf b).length) (v : LB.V)
    (hv : ((runV trL none (runeVals (runesOf b))).map (·.2))[k]? = some v) (hb : (v != LB.V.no) = true) :
    (chainBFuel firstLineR b.length b none).map (·.1) =
      (chainBFuel firstLineR (b.take (sizeSum ((runesOf b).take k))).length (b.take (sizeSum ((runesOf b).take k))) none).map (·.1) ++
      (chainBFuel firstLineR (b.drop (sizeSum ((runesOf b).take k))).length (b.drop (sizeSum ((runesOf b).take k))) none).map (·.1) := by
  apply bytes_compose_of firstLineR (fun rs st h => (C05.line_call rs st h).1)
    (C05.le_of_call _ (fun _ => rfl) (fun rs st h => (C05.line_call rs st h).2)) b k
  obtain ⟨ry, rs, hd, hR, hlen, hvals⟩ := split_runes (runesOf b) k hk
  have hrp : (runesOf b).take k ≠ [] := by
    intro h
    have := congrArg List.length h
    simp only [List.length_take, List.length_nil] at this
    omega
  have hcp : CodePoints (runeVals ((runesOf b).take k) ++ ry.1 :: runeVals rs) := by
    rw [← hvals]; exact C11U.runeVals_codepoints b
  have h := C11U.line_segments_compose ((runesOf b).take k) ry rs hrp hcp v (by rw [← hvals, hlen]; exact hv) hb
  have h2 := congrArg (List.map (·.1)) h
  simp only [List.map_map, List.map_append, C11U.setEnd_lengths] at h2
  rw [hd]
  conv => lhs; rw [hR]
  exact h2

/-- **grapheme clusters** (byte lengths; the widths compose by `C11U.grapheme_segments_widths_compose`) -/
theorem grapheme_bytes_compose (amb : Nat) (b : List Nat) (k : Nat) (hk1 : 1 ≤ k) (hk : k < (runesOf b).length)
    (hb : ((runV trG none (runeVals (runesOf b))).map (·.2))[k]? = some true) :
    (chainBFuel (firstGraphemeClusterR amb) b.length b none).map (·.1) =
      (chainBFuel (firstGraphemeClusterR amb) (b.take (sizeSum ((runesOf b).take k))).length (b.take (sizeSum ((runesOf b).take k))) none).map (·.1) ++
      (chainBFuel (firstGraphemeClusterR amb) (b.drop (sizeSum ((runesOf b).take k))).length (b.drop (sizeSum ((runesOf b).take k))) none).map (·.1) := by
  apply bytes_compose_of (firstGraphemeClusterR amb) (fun rs st h => (C05.grapheme_call amb rs st h).1)
    (C05.le_of_call _ (fun _ => rfl) (fun rs st h => (C05.grapheme_call amb rs st h).2)) b k
  obtain ⟨ry, rs, hd, hR, hlen, hvals⟩ := split_runes (runesOf b) k hk
  have hrp : (runesOf b).take k ≠ [] := by
    intro h
    have := congrArg List.length h
    simp only [List.length_take, List.length_nil] at this
    omega
  have hcp : CodePoints (runeVals ((runesOf b).take k) ++ ry.1 :: runeVals rs) := by
    rw [← hvals]; exact C11U.runeVals_codepoints b
  have h := C11U.grapheme_segments_compose amb ((runesOf b).take k) ry rs hrp hcp (by rw [← hvals, hlen]; exact hb)
  rw [hd]
  conv => lhs; rw [hR]
  exact h

/-- non-vacuity: in "a b" (bytes 61 20 62) the run reports a word boundary at position 1, and the text
decodes to three runes, so `word_bytes_compose` applies with `k = 1` -/
example : runeVals (runesOf [0x61, 0x20, 0x62]) = [0x61, 0x20, 0x62] ∧
    ((runV transitionWordBreakState none [0x61, 0x20, 0x62]).map (·.2))[1]? = some true := by
  refine ⟨by simp [runeVals, runesOf, decodeRune], by decide +kernel⟩

end Uniseg.Properties.C11B
