import Uniseg.Properties.C01
import Uniseg.Properties.C02
import Uniseg.Properties.C03
import Uniseg.Properties.C04
/-! # C11 — segmentation is compositional at its own boundaries (suffix half)

If the verdict before code point `x` (at some position ≥ 1 of a text `pre ++ x :: suf`) is a reported
boundary, then the run continues after `x` exactly as a fresh run (from state −1) on the suffix
`x :: suf` does: same state after `x`, hence same states and verdicts for all of `suf`. With the
"chain = cuts of one run" theorems (C01–C04) this says: the segments (and, for lines, the verdicts
ending them) reported after a boundary `p` are those of segmenting `s[p:]` on its own.

The certificate obligation behind it ("after a boundary verdict the new state equals the state a
fresh start reaches", for every reachable product node, letter and promise) is part of the
kernel-checked closure of each algorithm (`Closure.checkPair`).

The prefix half (cutting at `p` does not change the verdicts before `p`, although it shortens the
look-ahead) is decided on the real code by the C11 monitor; see DESIGN.md. -/
namespace Uniseg.Properties.C11
open Uniseg Uniseg.Gen Uniseg.Auto Uniseg.Chain Uniseg.Spec Uniseg.Lift

section Generic
variable {L R Q V : Type} [DecidableEq L] [DecidableEq R] [DecidableEq Q] [DecidableEq V]
variable (A : Alg L R Q V) (φ : Nat → L) (tr : Option Nat → Nat → List Nat → Nat × V)

/-- the implementation state reached after `pre` is the state component of the product node -/
theorem stateAfter_node (h : ∀ st r rest, tr st r rest = A.trans st (φ r) (la A (rest.map φ))) :
    ∀ (pre suf : List Nat) (s : Option Nat) (q : Q),
      (nodeAfter A s q (pre.map φ) (suf.map φ)).s = stateAfter tr s pre suf := by
  intro pre
  induction pre with
  | nil => intro _ _ _; rfl
  | cons r pre ih =>
    intro suf s q
    simp only [List.map_cons, nodeAfter, stateAfter]
    rw [ih, h, List.map_append]

/-- **restart at a reported boundary**, for any algorithm with a valid certificate -/
theorem restart (c : Cert L R Q) (hv : c.Valid A)
    (h : ∀ st r rest, tr st r rest = A.trans st (φ r) (la A (rest.map φ)))
    (pre : List Nat) (x : Nat) (suf : List Nat) (hpre : pre ≠ [])
    (hw : ∀ r ∈ pre ++ x :: suf, φ r ∈ c.letters)
    (hb : A.isB (tr (stateAfter tr none pre (x :: suf)) x suf).2 = true) :
    (tr none x suf).1 = (tr (stateAfter tr none pre (x :: suf)) x suf).1 ∧
    runV tr (some (tr none x suf).1) suf = runV tr (some (tr (stateAfter tr none pre (x :: suf)) x suf).1) suf := by
  have hs := stateAfter_node A φ tr h pre (x :: suf) none A.q0
  have hw' : ∀ y ∈ pre.map φ ++ φ x :: suf.map φ, y ∈ c.letters := by
    intro y hy
    rw [← List.map_cons, ← List.map_append] at hy
    obtain ⟨r, hr, rfl⟩ := List.mem_map.mp hy
    exact hw r hr
  have hb' : A.isB (A.trans (nodeAfter A none A.q0 (pre.map φ) (φ x :: suf.map φ)).s (φ x) (la A (suf.map φ))).2 = true := by
    rw [← List.map_cons, hs, ← h]; exact hb
  have := restart_at_boundary A c hv (pre.map φ) (φ x) (suf.map φ) (by simpa using hpre) hw' hb'
  rw [← List.map_cons, hs, ← h, ← h] at this
  exact ⟨this, by rw [this]⟩
end Generic

/-- words -/
theorem word_restart (pre : List Nat) (x : Nat) (suf : List Nat) (hpre : pre ≠ [])
    (hL : C02.LettersOK (pre ++ x :: suf))
    (hb : (transitionWordBreakState (stateAfter transitionWordBreakState none pre (x :: suf)) x suf).2 = true) :
    runV transitionWordBreakState (some (transitionWordBreakState none x suf).1) suf =
      runV transitionWordBreakState (some (transitionWordBreakState (stateAfter transitionWordBreakState none pre (x :: suf)) x suf).1) suf :=
  (restart algW wbL transitionWordBreakState Cert.Word.cert Cert.Word.valid (transW_factor C02.fffd_inert) pre x suf hpre hL hb).2

/-- sentences -/
theorem sentence_restart (pre : List Nat) (x : Nat) (suf : List Nat) (hpre : pre ≠ [])
    (hL : C03.LettersOK (pre ++ x :: suf))
    (hb : (transitionSentenceBreakState (stateAfter transitionSentenceBreakState none pre (x :: suf)) x suf).2 = true) :
    runV transitionSentenceBreakState (some (transitionSentenceBreakState none x suf).1) suf =
      runV transitionSentenceBreakState (some (transitionSentenceBreakState (stateAfter transitionSentenceBreakState none pre (x :: suf)) x suf).1) suf :=
  (restart algS sbL transitionSentenceBreakState Cert.Sentence.cert Cert.Sentence.valid transS_factor pre x suf hpre hL hb).2

/-- lines (optional and mandatory breaks alike) -/
theorem line_restart (pre : List Nat) (x : Nat) (suf : List Nat) (hpre : pre ≠ [])
    (hL : C04.LettersOK (pre ++ x :: suf))
    (hb : ((trL (stateAfter trL none pre (x :: suf)) x suf).2 != LB.V.no) = true) :
    runV trL (some (trL none x suf).1) suf = runV trL (some (trL (stateAfter trL none pre (x :: suf)) x suf).1) suf :=
  (restart algL lbIn trL Cert.Line.cert Cert.Line.valid transL_factor pre x suf hpre hL hb).2

/-- graphemes (the automaton part; the class field of the carried state is re-derived from the code
point, C06 `coherent_next`) -/
theorem grapheme_restart (pre : List Nat) (x : Nat) (suf : List Nat) (hpre : pre ≠ [])
    (hL : C01.LettersOK (pre ++ x :: suf))
    (hb : (trG (stateAfter trG none pre (x :: suf)) x suf).2 = true) :
    runV trG (some (trG none x suf).1) suf = runV trG (some (trG (stateAfter trG none pre (x :: suf)) x suf).1) suf :=
  (restart algG gbLetter trG Cert.Grapheme.cert Cert.Grapheme.valid (fun _ _ _ => rfl) pre x suf hpre hL hb).2

end Uniseg.Properties.C11
