import Uniseg.Properties.C01
import Uniseg.Properties.C02
import Uniseg.Properties.C03
import Uniseg.Properties.C04
import Uniseg.Proofs.Cut
import Uniseg.Cert.GraphemeCut
import Uniseg.Cert.WordCut
import Uniseg.Cert.SentenceCut
import Uniseg.Cert.LineCut
/-! # C11 — segmentation is compositional at its own boundaries

If the verdict before code point `x` (at some position ≥ 1 of a text `pre ++ x :: suf`) is a reported
boundary, then the run continues after `x` exactly as a fresh run (from state −1) on the suffix
`x :: suf` does: same state after `x`, hence same states and verdicts for all of `suf`. With the
"chain = cuts of one run" theorems (C01–C04) this says: the segments (and, for lines, the verdicts
ending them) reported after a boundary `p` are those of segmenting `s[p:]` on its own.

The certificate obligation behind it ("after a boundary verdict the new state equals the state a
fresh start reaches", for every reachable product node, letter and promise) is part of the
kernel-checked closure of each algorithm (`Closure.checkPair`).

The prefix half: cutting at a reported boundary `p` shortens the look-ahead of the positions before
`p`, but does not change their verdicts (`prefix_cut`, `word_prefix`, …). It is a statement about the
annex itself — if the look-ahead of a rule reaches across `p` and matters, the rules place no
boundary at `p` — proved for the spec automaton by a second kernel-checked certificate
(`Proofs/Cut`: two runs, full text and cut text, over the same letters) and carried over to the
implementation by C01–C04. -/
namespace Uniseg.Properties.C11
open Uniseg Uniseg.Gen Uniseg.Auto Uniseg.Chain Uniseg.Spec Uniseg.Lift

section Generic
variable {L R Q V : Type} [DecidableEq L] [DecidableEq R] [DecidableEq Q] [DecidableEq V]
variable (A : Alg L R Q V) (φ : Nat → L) (tr : Option Nat → Nat → List Nat → Nat × V)

/-- the implementation state reached after `pre` is the state component of the product node -/
theorem stateAfter_node (h : ∀ st r rest, tr st r rest = A.trans st (φ r) (la A (rest.map φ))) :
    ∀ (pre suf : List Nat) (s : Option Nat) (q : Q),
      (nodeAfter A s q (pre.map φ) (suf.map φ)).s = stateAfter tr s pre suf := by
  intro pre
  induction pre with
  | nil => intro _ _ _; rfl
  | cons r pre ih =>
    intro suf s q
    simp only [List.map_cons, nodeAfter, stateAfter]
    rw [ih, h, List.map_append]

/-- **restart at a reported boundary**, for any algorithm with a valid certificate -/
theorem restart (c : Cert L R Q) (hv : c.Valid A)
    (h : ∀ st r rest, tr st r rest = A.trans st (φ r) (la A (rest.map φ)))
    (pre : List Nat) (x : Nat) (suf : List Nat) (hpre : pre ≠ [])
    (hw : ∀ r ∈ pre ++ x :: suf, φ r ∈ c.letters)
    (hb : A.isB (tr (stateAfter tr none pre (x :: suf)) x suf).2 = true) :
    (tr none x suf).1 = (tr (stateAfter tr none pre (x :: suf)) x suf).1 ∧
    runV tr (some (tr none x suf).1) suf = runV tr (some (tr (stateAfter tr none pre (x :: suf)) x suf).1) suf := by
  have hs := stateAfter_node A φ tr h pre (x :: suf) none A.q0
  have hw' : ∀ y ∈ pre.map φ ++ φ x :: suf.map φ, y ∈ c.letters := by
    intro y hy
    rw [← List.map_cons, ← List.map_append] at hy
    obtain ⟨r, hr, rfl⟩ := List.mem_map.mp hy
    exact hw r hr
  have hb' : A.isB (A.trans (nodeAfter A none A.q0 (pre.map φ) (φ x :: suf.map φ)).s (φ x) (la A (suf.map φ))).2 = true := by
    rw [← List.map_cons, hs, ← h]; exact hb
  have := restart_at_boundary A c hv (pre.map φ) (φ x) (suf.map φ) (by simpa using hpre) hw' hb'
  rw [← List.map_cons, hs, ← h, ← h] at this
  exact ⟨this, by rw [this]⟩

theorem tail_take {α : Type} : ∀ (l : List α) (n : Nat), (l.take n).tail = l.tail.take (n - 1) := by
  intro l n
  cases l with
  | nil => simp
  | cons a as =>
    cases n with
    | zero => simp
    | succ n => simp

theorem tail_getElem? {α : Type} (l1 l2 : List α) (h : l1.tail = l2.tail) (p : Nat) (hp : 1 ≤ p) : l1[p]? = l2[p]? := by
  obtain ⟨k, rfl⟩ : ∃ k, p = k + 1 := ⟨p - 1, by omega⟩
  have h1 : ∀ (l : List α), l[k + 1]? = l.tail[k]? := by
    intro l; cases l <;> simp
  rw [h1 l1, h1 l2, h]

/-- **cutting at a reported boundary**, for any algorithm with valid certificates: the verdicts the
implementation reports inside `pre` when run over `pre ++ y :: ys` are those it reports for `pre`
alone, provided it reports a boundary before `y` -/
theorem prefix_cut (c : Cert L R Q) (hv : c.Valid A) (cc : CutCert L R Q) (hcv : cc.Valid A)
    (h : ∀ st r rest, tr st r rest = A.trans st (φ r) (la A (rest.map φ)))
    (pre : List Nat) (y : Nat) (ys : List Nat) (hpre : pre ≠ [])
    (hw : ∀ r ∈ pre ++ y :: ys, φ r ∈ c.letters) (hw2 : ∀ r ∈ pre ++ y :: ys, φ r ∈ cc.letters)
    (v : V) (hv1 : ((runV tr none (pre ++ y :: ys)).map (·.2))[pre.length]? = some v) (hb : A.isB v = true) :
    ((runV tr none pre).map (·.2)).tail = (((runV tr none (pre ++ y :: ys)).map (·.2)).tail).take (pre.length - 1) := by
  have hwl : ∀ x ∈ (pre ++ y :: ys).map φ, x ∈ c.letters := by
    intro x hx; obtain ⟨r, hr, rfl⟩ := List.mem_map.mp hx; exact hw r hr
  have hwl2 : ∀ x ∈ pre.map φ ++ φ y :: ys.map φ, x ∈ cc.letters := by
    intro x hx
    rw [← List.map_cons, ← List.map_append] at hx
    obtain ⟨r, hr, rfl⟩ := List.mem_map.mp hx; exact hw2 r hr
  have hpl : ∀ x ∈ pre.map φ, x ∈ c.letters := by
    intro x hx; obtain ⟨r, hr, rfl⟩ := List.mem_map.mp hx; exact hw r (by simp [hr])
  have efull := run_agree_start A c hv _ hwl
  have epre := run_agree_start A c hv _ hpl
  rw [← runV_implRun A φ tr h] at efull epre
  -- the verdict at the cut, on the spec side
  have hp1 : 1 ≤ pre.length := by
    cases pre with
    | nil => exact absurd rfl hpre
    | cons _ _ => simp
  have hat := tail_getElem? _ _ efull pre.length hp1
  rw [hv1, List.map_append, List.map_cons] at hat
  have hlen : pre.length = (pre.map φ).length := by simp
  rw [hlen, specRun_at] at hat
  have hb' : A.isB (A.qout (summAfter A A.q0 (pre.map φ)) (φ y) (la A (ys.map φ))) = true := by
    cases hat; exact hb
  have hcut := cut_at_boundary A cc hcv (pre.map φ) (φ y) (ys.map φ) hwl2 hb'
  rw [epre, efull, hcut, tail_take, List.map_append, List.map_cons, List.length_map]

/-- **both halves together, verdict level**: the verdicts of the run over `pre ++ y :: ys` (all but the
unused first) are those of `pre` alone, then the boundary verdict, then those of `y :: ys` alone -/
theorem verdicts_compose (c : Cert L R Q) (hv : c.Valid A) (cc : CutCert L R Q) (hcv : cc.Valid A)
    (h : ∀ st r rest, tr st r rest = A.trans st (φ r) (la A (rest.map φ)))
    (pre : List Nat) (y : Nat) (ys : List Nat) (hpre : pre ≠ [])
    (hw : ∀ r ∈ pre ++ y :: ys, φ r ∈ c.letters) (hw2 : ∀ r ∈ pre ++ y :: ys, φ r ∈ cc.letters)
    (v : V) (hv1 : ((runV tr none (pre ++ y :: ys)).map (·.2))[pre.length]? = some v) (hb : A.isB v = true) :
    ((runV tr none (pre ++ y :: ys)).map (·.2)).tail =
      ((runV tr none pre).map (·.2)).tail ++ v :: ((runV tr none (y :: ys)).map (·.2)).tail := by
  have hp1 : 1 ≤ pre.length := by
    cases pre with
    | nil => exact absurd rfl hpre
    | cons _ _ => simp
  have hpc := prefix_cut A φ tr c hv cc hcv h pre y ys hpre hw hw2 v hv1 hb
  -- the verdict at the cut is the head of the run from the state reached after `pre`
  have hdrop := runV_drop tr none pre (y :: ys)
  have hv2 : (tr (stateAfter tr none pre (y :: ys)) y ys).2 = v := by
    have := congrArg (fun l => (l.map (·.2))[0]?) hdrop
    simp only [List.map_drop, List.getElem?_drop, Nat.add_zero, runV, List.map_cons, List.getElem?_cons_zero] at this
    rw [hv1] at this
    cases this; rfl
  have hrs := restart A φ tr c hv h pre y ys hpre hw (by rw [hv2]; exact hb)
  -- split the full run at |pre|
  have hsplit : (runV tr none (pre ++ y :: ys)).map (·.2) =
      ((runV tr none (pre ++ y :: ys)).map (·.2)).take pre.length ++ ((runV tr none (pre ++ y :: ys)).map (·.2)).drop pre.length :=
    (List.take_append_drop _ _).symm
  have htl : ∀ (l1 l2 : List V), l1 ≠ [] → (l1 ++ l2).tail = l1.tail ++ l2 := by
    intro l1 l2 hne; cases l1 with
    | nil => exact absurd rfl hne
    | cons _ _ => rfl
  have hne : ((runV tr none (pre ++ y :: ys)).map (·.2)).take pre.length ≠ [] := by
    intro hnil
    have := congrArg List.length hnil
    simp only [List.length_take, List.length_map, runV_length, List.length_append, List.length_cons, List.length_nil] at this
    omega
  rw [hsplit, htl _ _ hne, tail_take, ← hpc]
  congr 1
  rw [← List.map_drop, hdrop]
  simp only [runV, List.map_cons, List.tail_cons, hv2]
  rw [← hrs.2]
end Generic

/-- words -/
theorem word_restart (pre : List Nat) (x : Nat) (suf : List Nat) (hpre : pre ≠ [])
    (hL : C02.LettersOK (pre ++ x :: suf))
    (hb : (transitionWordBreakState (stateAfter transitionWordBreakState none pre (x :: suf)) x suf).2 = true) :
    runV transitionWordBreakState (some (transitionWordBreakState none x suf).1) suf =
      runV transitionWordBreakState (some (transitionWordBreakState (stateAfter transitionWordBreakState none pre (x :: suf)) x suf).1) suf :=
  (restart algW wbL transitionWordBreakState Cert.Word.cert Cert.Word.valid (transW_factor C02.fffd_inert) pre x suf hpre hL hb).2

/-- sentences -/
theorem sentence_restart (pre : List Nat) (x : Nat) (suf : List Nat) (hpre : pre ≠ [])
    (hL : C03.LettersOK (pre ++ x :: suf))
    (hb : (transitionSentenceBreakState (stateAfter transitionSentenceBreakState none pre (x :: suf)) x suf).2 = true) :
    runV transitionSentenceBreakState (some (transitionSentenceBreakState none x suf).1) suf =
      runV transitionSentenceBreakState (some (transitionSentenceBreakState (stateAfter transitionSentenceBreakState none pre (x :: suf)) x suf).1) suf :=
  (restart algS sbL transitionSentenceBreakState Cert.Sentence.cert Cert.Sentence.valid transS_factor pre x suf hpre hL hb).2

/-- lines (optional and mandatory breaks alike) -/
theorem line_restart (pre : List Nat) (x : Nat) (suf : List Nat) (hpre : pre ≠ [])
    (hL : C04.LettersOK (pre ++ x :: suf))
    (hb : ((trL (stateAfter trL none pre (x :: suf)) x suf).2 != LB.V.no) = true) :
    runV trL (some (trL none x suf).1) suf = runV trL (some (trL (stateAfter trL none pre (x :: suf)) x suf).1) suf :=
  (restart algL lbIn trL Cert.Line.cert Cert.Line.valid transL_factor pre x suf hpre hL hb).2

/-- graphemes (the automaton part; the class field of the carried state is re-derived from the code
point, C06 `coherent_next`) -/
theorem grapheme_restart (pre : List Nat) (x : Nat) (suf : List Nat) (hpre : pre ≠ [])
    (hL : C01.LettersOK (pre ++ x :: suf))
    (hb : (trG (stateAfter trG none pre (x :: suf)) x suf).2 = true) :
    runV trG (some (trG none x suf).1) suf = runV trG (some (trG (stateAfter trG none pre (x :: suf)) x suf).1) suf :=
  (restart algG gbLetter trG Cert.Grapheme.cert Cert.Grapheme.valid (fun _ _ _ => rfl) pre x suf hpre hL hb).2


/-! ## segments -/

/-- replace the "end of text" mark of the last segment by the verdict that ends it -/
def setEnd {V : Type} (v : V) : List (Nat × Option V) → List (Nat × Option V)
  | [] => []
  | [a] => [(a.1, some v)]
  | a :: b :: rest => a :: setEnd v (b :: rest)

theorem cutsV_ne_nil {V : Type} (isB : V → Bool) : ∀ (vs : List V) (acc : Nat), cutsV isB vs acc ≠ [] := by
  intro vs
  induction vs with
  | nil => intro acc; simp [cutsV]
  | cons u vs ih =>
    intro acc
    simp only [cutsV]
    split
    · simp
    · exact ih _

/-- the segments of a verdict list with a boundary verdict `v` in the middle are the segments of the
part before it (its last segment now ended by `v`) followed by the segments of the part after it -/
theorem cutsV_compose {V : Type} (isB : V → Bool) (v : V) (hb : isB v = true) (v2 : List V) :
    ∀ (v1 : List V) (acc : Nat), cutsV isB (v1 ++ v :: v2) acc = setEnd v (cutsV isB v1 acc) ++ cutsV isB v2 1 := by
  intro v1
  induction v1 with
  | nil => intro acc; simp [cutsV, hb, setEnd]
  | cons u v1 ih =>
    intro acc
    simp only [List.cons_append, cutsV]
    split
    · rw [ih 1]
      cases hc : cutsV isB v1 1 with
      | nil => exact absurd hc (cutsV_ne_nil isB v1 1)
      | cons a as => simp [setEnd]
    · exact ih _

/-- segment lists compose at a reported boundary, for any chain that is "the cuts of one run" -/
theorem chain_compose {V : Type} (tr : Option Nat → Nat → List Nat → Nat × V) (isB : V → Bool)
    (CH : List Rune → List (Nat × Option V))
    (hcuts : ∀ rs, CH rs = match rs with
      | [] => []
      | _ :: _ => cutsV isB ((runV tr none (runeVals rs)).map (·.2)).tail 1)
    (rp : List Rune) (ry : Rune) (rs : List Rune) (hrp : rp ≠ []) (v : V) (hb : isB v = true)
    (hcomp : ((runV tr none (runeVals rp ++ ry.1 :: runeVals rs)).map (·.2)).tail =
      ((runV tr none (runeVals rp)).map (·.2)).tail ++ v :: ((runV tr none (ry.1 :: runeVals rs)).map (·.2)).tail) :
    CH (rp ++ ry :: rs) = setEnd v (CH rp) ++ CH (ry :: rs) := by
  rw [hcuts (rp ++ ry :: rs), hcuts rp, hcuts (ry :: rs)]
  cases rp with
  | nil => exact absurd rfl hrp
  | cons r0 rp' =>
    have e1 : runeVals (r0 :: rp' ++ ry :: rs) = runeVals (r0 :: rp') ++ ry.1 :: runeVals rs := by
      simp [runeVals]
    have e2 : runeVals (ry :: rs) = ry.1 :: runeVals rs := by simp [runeVals]
    simp only [List.cons_append]
    rw [← List.cons_append, e1, e2, hcomp, cutsV_compose isB v hb]

/-! ## prefix half -/

/-- the cut certificates use the alphabets of the product certificates -/
theorem cut_letters : Cert.GraphemeCut.cert.letters = Cert.Grapheme.cert.letters ∧ Cert.WordCut.cert.letters = Cert.Word.cert.letters ∧
    Cert.SentenceCut.cert.letters = Cert.Sentence.cert.letters ∧ Cert.LineCut.cert.letters = Cert.Line.cert.letters := by
  decide +kernel

/-- words: verdicts before a reported boundary do not depend on what follows it -/
theorem word_prefix (pre : List Nat) (y : Nat) (ys : List Nat) (hpre : pre ≠ [])
    (hL : C02.LettersOK (pre ++ y :: ys))
    (hb : ((runV transitionWordBreakState none (pre ++ y :: ys)).map (·.2))[pre.length]? = some true) :
    ((runV transitionWordBreakState none pre).map (·.2)).tail =
      (((runV transitionWordBreakState none (pre ++ y :: ys)).map (·.2)).tail).take (pre.length - 1) :=
  prefix_cut algW wbL transitionWordBreakState Cert.Word.cert Cert.Word.valid Cert.WordCut.cert Cert.WordCut.valid
    (transW_factor C02.fffd_inert) pre y ys hpre hL (by rw [cut_letters.2.1]; exact hL) true hb rfl

/-- sentences -/
theorem sentence_prefix (pre : List Nat) (y : Nat) (ys : List Nat) (hpre : pre ≠ [])
    (hL : C03.LettersOK (pre ++ y :: ys))
    (hb : ((runV transitionSentenceBreakState none (pre ++ y :: ys)).map (·.2))[pre.length]? = some true) :
    ((runV transitionSentenceBreakState none pre).map (·.2)).tail =
      (((runV transitionSentenceBreakState none (pre ++ y :: ys)).map (·.2)).tail).take (pre.length - 1) :=
  prefix_cut algS sbL transitionSentenceBreakState Cert.Sentence.cert Cert.Sentence.valid Cert.SentenceCut.cert Cert.SentenceCut.valid
    transS_factor pre y ys hpre hL (by rw [cut_letters.2.2.1]; exact hL) true hb rfl

/-- lines: optional and mandatory breaks alike; the verdicts (×, ÷, !) before the cut are unchanged -/
theorem line_prefix (pre : List Nat) (y : Nat) (ys : List Nat) (hpre : pre ≠ [])
    (hL : C04.LettersOK (pre ++ y :: ys)) (v : LB.V)
    (hv : ((runV trL none (pre ++ y :: ys)).map (·.2))[pre.length]? = some v) (hb : (v != LB.V.no) = true) :
    ((runV trL none pre).map (·.2)).tail = (((runV trL none (pre ++ y :: ys)).map (·.2)).tail).take (pre.length - 1) :=
  prefix_cut algL lbIn trL Cert.Line.cert Cert.Line.valid Cert.LineCut.cert Cert.LineCut.valid
    transL_factor pre y ys hpre hL (by rw [cut_letters.2.2.2]; exact hL) v hv hb

/-- graphemes -/
theorem grapheme_prefix (pre : List Nat) (y : Nat) (ys : List Nat) (hpre : pre ≠ [])
    (hL : C01.LettersOK (pre ++ y :: ys))
    (hb : ((runV trG none (pre ++ y :: ys)).map (·.2))[pre.length]? = some true) :
    ((runV trG none pre).map (·.2)).tail = (((runV trG none (pre ++ y :: ys)).map (·.2)).tail).take (pre.length - 1) :=
  prefix_cut algG gbLetter trG Cert.Grapheme.cert Cert.Grapheme.valid Cert.GraphemeCut.cert Cert.GraphemeCut.valid
    (fun _ _ _ => rfl) pre y ys hpre hL (by rw [cut_letters.1]; exact hL) true hb rfl

end Uniseg.Properties.C11
