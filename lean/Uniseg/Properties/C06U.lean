import Uniseg.Properties.C06
import Uniseg.Properties.CodePoints
import Uniseg.Class.G
import Uniseg.Class.E
import Uniseg.Class.M
/-! # C06 stated over the reference classification alone

The width of a code point and of a cluster, as `Spec.cpWidth`/`Spec.clusterWidth` compute them from
the package's lookups, are the documented model applied to the Unicode 15.0.0 reference values
(`Class.g_class`, `e_class`, `m_class`, for every code point). -/
namespace Uniseg.Properties.C06U
open Uniseg Uniseg.Gen Uniseg.Ref Uniseg.Class Uniseg.Spec Uniseg.Properties

/-- the documented per-code-point width, over the reference values -/
def refCpWidth (amb r : Nat) : Nat :=
  let g := (rowOf r).g
  if g == prControl || g == prCR || g == prLF || g == prExtend || g == prZWJ then 0
  else if g == prRegionalIndicator then 2
  else if g == prExtendedPictographic then (if (rowOf r).m == prEmojiPresentation then 2 else 1)
  else if r == 0x2E3A then 3
  else if r == 0x2E3B then 4
  else
    let ea := (rowOf r).e
    if ea == prW || ea == prF then 2 else if ea == prA then amb else 1

theorem cpWidth_ref (amb r : Nat) (hr : r < 0x110000) : cpWidth amb r = refCpWidth amb r := by
  obtain ⟨hm, h1, h2⟩ := rowOf_spec r hr
  unfold cpWidth refCpWidth
  simp only
  rw [← g_class r _ hm h1 h2, ← e_class r _ hm h1 h2, ← m_class r _ hm h1 h2]
  simp only [normG_beq prControl rfl rfl, normG_beq prCR rfl rfl, normG_beq prLF rfl rfl, normG_beq prExtend rfl rfl,
    normG_beq prZWJ rfl rfl, normG_beq prRegionalIndicator rfl rfl, normG_beq prExtendedPictographic rfl rfl,
    normE_beq prW rfl rfl, normE_beq prF rfl rfl, normE_beq prA rfl rfl]

/-- the documented per-cluster width, over the reference values -/
def refClusterWidth (amb : Nat) : List Nat → Nat
  | [] => 0
  | r0 :: rest =>
    let p0 := (rowOf r0).g
    if p0 == prExtendedPictographic then lastVS (refCpWidth amb r0) rest
    else if p0 == prRegionalIndicator || p0 == prL then refCpWidth amb r0
    else refCpWidth amb r0 + (rest.map (refCpWidth amb)).sum

theorem clusterWidth_ref (amb : Nat) (vals : List Nat) (h : CodePoints vals) : clusterWidth amb vals = refClusterWidth amb vals := by
  cases vals with
  | nil => rfl
  | cons r0 rest =>
    have h0 : r0 < 0x110000 := h r0 (List.mem_cons_self ..)
    obtain ⟨hm, h1, h2⟩ := rowOf_spec r0 h0
    have hrest : rest.map (cpWidth amb) = rest.map (refCpWidth amb) :=
      List.map_congr_left (fun r hr => cpWidth_ref amb r (h r (List.mem_cons_of_mem _ hr)))
    unfold clusterWidth refClusterWidth
    simp only
    rw [cpWidth_ref amb r0 h0, hrest, ← g_class r0 _ hm h1 h2]
    simp only [normG_beq prExtendedPictographic rfl rfl, normG_beq prRegionalIndicator rfl rfl, normG_beq prL rfl rfl]

end Uniseg.Properties.C06U
