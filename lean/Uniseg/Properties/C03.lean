import Uniseg.Cert.Sentence
import Uniseg.Proofs.Lift
/-! # C03 — sentence boundaries follow UAX #29 SB1–SB998 on every string

Quantifiers: every list of code points / every byte string, of any length; the SB8 look-ahead is
unbounded and U+FFFD / ill-formed bytes are ordinary `Other` code points inside it. -/
namespace Uniseg.Properties.C03
open Uniseg Uniseg.Gen Uniseg.Auto Uniseg.Chain Uniseg.Spec Uniseg.Lift

/-- every code point's letter is in the alphabet of the kernel-checked certificate -/
def LettersOK (vals : List Nat) : Prop := ∀ r ∈ vals, sbL r ∈ Cert.Sentence.cert.letters

/-- **Verdicts.** Folding `transitionSentenceBreakState` left to right from state −1 gives, before
every code point but the first, exactly the verdict of SB1–SB998. -/
theorem sentence_verdicts_eq_sb (vals : List Nat) (hL : LettersOK vals) :
    ((runV transitionSentenceBreakState none vals).map (·.2)).tail = specS vals := by
  rw [runV_implRun algS sbL transitionSentenceBreakState transS_factor]
  have hw : ∀ x ∈ vals.map sbL, x ∈ Cert.Sentence.cert.letters := by
    intro x hx
    obtain ⟨r, hr, rfl⟩ := List.mem_map.mp hx
    exact hL r hr
  rw [run_agree_start algS Cert.Sentence.cert Cert.Sentence.valid _ hw, sb_specRun]
  simp only [specS, List.map_map]
  rfl

/-- **Segments.** The chain of `FirstSentence`/`FirstSentenceInString` calls from state −1 cuts any
text exactly where SB1–SB998 place a boundary. -/
theorem sentence_segments_eq_sb (b : List Nat) (hL : LettersOK (runeVals (Utf8.runesOf b))) :
    (chain firstSentenceR (Utf8.runesOf b) none).map (·.1) =
      match Utf8.runesOf b with
      | [] => []
      | _ :: _ => cuts id (specS (runeVals (Utf8.runesOf b))) 1 := by
  have h := chain_counts transitionSentenceBreakState id sbAny (Utf8.runesOf b)
  unfold firstSentenceR
  rw [h]
  cases hrs : Utf8.runesOf b with
  | nil => rfl
  | cons r rest =>
    simp only
    rw [hrs] at hL
    rw [← sentence_verdicts_eq_sb _ hL, List.map_tail]

/-- non-vacuity: `A. � a` (SB8 scans over U+FFFD: no break) vs `A. B` (break), CR LF kept -/
example : LettersOK [0x41, 0x2E, 0x20, 0xFFFD, 0x20, 0x61, 0x0D, 0x0A, 0x21, 0x29, 0x3042] ∧
    specS [0x41, 0x2E, 0x20, 0xFFFD, 0x20, 0x61] = [false, false, false, false, false] ∧
    specS [0x41, 0x2E, 0x20, 0x42] = [false, false, true] ∧
    specS [0x41, 0x2E, 0x0D, 0x0A, 0x42] = [false, false, false, true] := by
  refine ⟨?_, ?_, ?_, ?_⟩
  · intro r hr
    simp only [List.mem_cons, List.not_mem_nil, or_false] at hr
    rcases hr with rfl | rfl | rfl | rfl | rfl | rfl | rfl | rfl | rfl | rfl | rfl <;> decide +kernel
  · decide +kernel
  · decide +kernel
  · decide +kernel

end Uniseg.Properties.C03
