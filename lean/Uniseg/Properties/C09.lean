import Uniseg.Proofs.ChainStep
/-! # C09 — byte-slice and string variants are observationally identical

In the model, `FirstGraphemeCluster`/`…InString`, `FirstWord`/`…InString`, `FirstSentence`/`…InString`,
`FirstLineSegment`/`…InString` and `HasTrailingLineBreak`/`…InString` are *one* definition each: the Go
twins are the same text up to `[]byte`↔`string`, `DecodeRune`↔`DecodeRuneInString`, `nil`↔`""` (checked
on every run by the translator's twin normalisation, obligation "twins", and sampled by stage E5 and
the C09 monitor on both real variants). The one textual difference is the single-rune early return of
`StepString`, which recomputes the class of the rune instead of reading it from the state and omits
it from the new state. The theorems below show that this difference is unobservable in everything
C09 compares, for every state reachable by chaining from −1. -/
namespace Uniseg.Properties.C09
open Uniseg Uniseg.Gen Uniseg.Chain Uniseg.ChainStep

/-- a carried state is coherent with the text it is used on: its class field is the grapheme class
of the first code point -/
def Coherent (st : Option Nat) (rs : List Rune) : Prop :=
  ∀ s r rest, st = some s → rs = r :: rest → s >>> shiftPropState = propertyGraphemes r.1

/-- **One call.** From a coherent state (in particular from −1), `StepString` and `Step` return the
same cluster and the same `boundaries`, and the same new state whenever the rest is non-empty. -/
theorem step_variants (amb : Nat) (rs : List Rune) (st : Option Nat) (h : Coherent st rs) :
    (stepR true amb rs st).1 = (stepR false amb rs st).1 ∧
    (stepR true amb rs st).2.1 = (stepR false amb rs st).2.1 ∧
    ((stepR false amb rs st).1 < rs.length → (stepR true amb rs st).2.2 = (stepR false amb rs st).2.2) := by
  cases rs with
  | nil => exact ⟨rfl, rfl, fun _ => rfl⟩
  | cons r rest =>
    cases rest with
    | nil =>
      cases st with
      | none => exact ⟨rfl, rfl, fun hlt => by simp [stepR] at hlt⟩
      | some s =>
        have := h s r [] rfl rfl
        simp only [stepR, this]
        exact ⟨rfl, rfl, fun hlt => by simp at hlt⟩
    | cons r2 rest2 => exact ⟨rfl, rfl, fun _ => rfl⟩

/-- **Coherence is preserved.** If a call from a well-formed chain position ends before the end of
the text, the state it returns is coherent with the rest: its class field is the class of the first
code point of the rest. -/
theorem stepLoop_coherent (amb fp : Nat) : ∀ (rest : List Rune) (x : StepSt) (width : Nat), WFS x →
    (stepLoop amb fp x width rest).1 < rest.length →
    Coherent (some (stepLoop amb fp x width rest).2.2) (rest.drop (stepLoop amb fp x width rest).1) := by
  intro rest
  induction rest with
  | nil => intro _ _ _ h; simp at h
  | cons r rest ih =>
    intro x width hx hlt
    have hwf := trStep_wf (some x) (fun y hy => by cases hy; exact hx) r.1 (runeVals rest)
    simp only [trStep, Option.map_some] at hwf
    simp only [stepLoop] at hlt ⊢
    by_cases hb : (transitionGraphemeState (some x.g) r.1).2.2 = true
    · simp only [hb, ↓reduceIte, List.drop_zero]
      intro s r' rest' hs hr
      cases hs; cases hr
      exact (unpack_pack _ _ hwf).2
    · simp only [hb, Bool.false_eq_true, ↓reduceIte] at hlt ⊢
      cases rest with
      | nil => simp at hlt
      | cons r2 rest2 =>
        simp only [List.drop_succ_cons] at hlt ⊢
        exact ih _ _ hwf (by simp only [List.length_cons] at hlt ⊢; omega)

theorem step_coherent (isString : Bool) (amb : Nat) (rs : List Rune) (st : Option Nat)
    (hlt : (stepR isString amb rs st).1 < rs.length) :
    Coherent (some (stepR isString amb rs st).2.2) (rs.drop (stepR isString amb rs st).1) := by
  cases rs with
  | nil => simp at hlt
  | cons r rest =>
    cases rest with
    | nil => cases isString <;> simp [stepR] at hlt
    | cons r2 rest2 =>
      cases st with
      | none =>
        have hwf := trStep_wf none (fun y hy => by cases hy) r.1 (runeVals (r2 :: rest2))
        simp only [stepR] at hlt ⊢
        simp only [List.drop_succ_cons]
        exact stepLoop_coherent amb _ (r2 :: rest2) _ _ hwf (by simp only [List.length_cons] at hlt ⊢; omega)
      | some s =>
        simp only [stepR] at hlt ⊢
        simp only [List.drop_succ_cons]
        exact stepLoop_coherent amb _ (r2 :: rest2) _ _ (decS_wf s) (by simp only [List.length_cons] at hlt ⊢; omega)

/-- **The whole chain.** Chaining `StepString` and chaining `Step` from a coherent state (so from −1)
give the same clusters and `boundaries` at every position, and the same state after every cluster
but the last. -/
theorem step_chain_variants (amb : Nat) : ∀ (n : Nat) (rs : List Rune) (st : Option Nat), rs.length ≤ n →
    Coherent st rs →
    (chain (stepR true amb) rs st).map (fun x => (x.1, x.2.1)) = (chain (stepR false amb) rs st).map (fun x => (x.1, x.2.1)) ∧
    ((chain (stepR true amb) rs st).map (·.2.2)).dropLast = ((chain (stepR false amb) rs st).map (·.2.2)).dropLast := by
  intro n
  induction n with
  | zero =>
    intro rs st h _
    have : rs = [] := List.eq_nil_of_length_eq_zero (by omega)
    subst this
    exact ⟨rfl, rfl⟩
  | succ n ih =>
    intro rs st hn hc
    cases rs with
    | nil => exact ⟨rfl, rfl⟩
    | cons r rest =>
      have ht := gen_pos _ _ _ _ _ _ (step_isFirstCut true amb)
      have hf := gen_pos _ _ _ _ _ _ (step_isFirstCut false amb)
      rw [chain_cons _ ht, chain_cons _ hf]
      obtain ⟨v1, v2, v3⟩ := step_variants amb (r :: rest) st hc
      have hle := (gen_le _ _ _ _ _ _ (step_isFirstCut false amb) (r :: rest) st).resolve_right (by simp)
      have hpos := hf (r :: rest) st (by simp)
      by_cases hend : (stepR false amb (r :: rest) st).1 = (r :: rest).length
      · -- last cluster: nothing follows
        have hd : (r :: rest).drop (stepR false amb (r :: rest) st).1 = [] := by rw [hend]; simp
        rw [v1, hd, chain_nil, chain_nil]
        simp only [List.map_cons, List.map_nil, v1, v2, List.dropLast_singleton, and_self]
      · have hlt : (stepR false amb (r :: rest) st).1 < (r :: rest).length := by omega
        have hs := v3 hlt
        rw [v1, hs]
        have hco := step_coherent false amb (r :: rest) st hlt
        have hlen : ((r :: rest).drop (stepR false amb (r :: rest) st).1).length ≤ n := by
          simp only [List.length_drop, List.length_cons] at hn ⊢; omega
        obtain ⟨i1, i2⟩ := ih _ _ hlen hco
        refine ⟨?_, ?_⟩
        · simp only [List.map_cons, v1, v2, i1]
        · simp only [List.map_cons]
          -- the tails are non-empty chains, so dropLast distributes over cons
          have hne : (r :: rest).drop (stepR false amb (r :: rest) st).1 ≠ [] := by
            intro h0
            have := congrArg List.length h0
            simp only [List.length_drop, List.length_cons, List.length_nil] at this
            simp only [List.length_cons] at hlt
            omega
          obtain ⟨r', rest', hr'⟩ := List.exists_cons_of_ne_nil hne
          rw [hr'] at i2 ⊢
          rw [chain_cons _ ht] at i2 ⊢
          rw [chain_cons _ hf] at i2 ⊢
          simp only [List.map_cons, List.dropLast_cons_cons] at i2 ⊢
          rw [hs, i2]

/-- from −1 every text is coherent -/
theorem coherent_none (rs : List Rune) : Coherent none rs := by
  intro s r rest h; cases h

/-- non-vacuity: a coherent carried state — the state `Step` returns for "a" followed by text has the
class of the next code point in its upper bits -/
example : Coherent (some (packStep ⟨grAny, wbALetter, sbLower, lbAL⟩ (propertyGraphemes 0x62))) [(0x62, 1), (0x63, 1)] := by
  intro s r rest hs hr
  cases hs; cases hr
  decide

end Uniseg.Properties.C09
