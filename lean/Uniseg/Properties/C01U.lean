import Uniseg.Properties.C01
import Uniseg.Properties.CodePoints
import Uniseg.Class.G
/-! # C01 without side conditions

Every code point's grapheme letter lies in the alphabet of the kernel-checked certificate
(`Class.g_class` + a kernel check of the reference rows), so `C01.grapheme_verdicts_eq_gb` and
`C01.grapheme_clusters_eq_gb` hold for every text of code points — in particular for everything
`utf8.DecodeRune` returns, i.e. for every byte string. -/
namespace Uniseg.Properties.C01U
open Uniseg Uniseg.Gen Uniseg.Ref Uniseg.Class Uniseg.Chain Uniseg.Spec Uniseg.Properties

theorem rows_letters : sig.all (fun row => decide (row.g ∈ Cert.Grapheme.cert.letters)) = true := by decide +kernel
theorem any_letter : prAny ∈ Cert.Grapheme.cert.letters := by decide +kernel

theorem letter_ok (r : Nat) (hr : r < 0x110000) : gbLetter r ∈ Cert.Grapheme.cert.letters := by
  obtain ⟨row, hm, h1, h2⟩ := row_exists r hr
  have hg := g_class r row hm h1 h2
  have rg := of_decide_eq_true (List.all_eq_true.mp rows_letters row hm)
  show propertyGraphemes r ∈ _
  by_cases ha : propertyGraphemes r = prAny
  · rw [ha]; exact any_letter
  · have : normG (propertyGraphemes r) = propertyGraphemes r := by
      unfold normG; rw [if_neg (by simpa using ha)]
    rw [← this, hg]; exact rg

theorem lettersOK (vals : List Nat) (h : CodePoints vals) : C01.LettersOK vals := fun r hr => letter_ok r (h r hr)

/-- **C01, verdicts**, every code-point string -/
theorem grapheme_verdicts (vals : List Nat) (h : CodePoints vals) :
    ((runV ChainG.trGm none vals).map (·.2)).tail = specG vals :=
  C01.grapheme_verdicts_eq_gb vals (lettersOK vals h)

/-- **C01, clusters**, every byte string, every ambiguous-width setting -/
theorem grapheme_clusters (amb : Nat) (b : List Nat) :
    (chain (firstGraphemeClusterR amb) (Utf8.runesOf b) none).map (·.1) =
      match Utf8.runesOf b with
      | [] => []
      | _ :: _ => cuts id (specG (runeVals (Utf8.runesOf b))) 1 :=
  C01.grapheme_clusters_eq_gb amb b (lettersOK _ (decoded_codepoints b))


/-! ## stated over the reference classification alone -/

/-- the Unicode 15.0.0 Grapheme_Cluster_Break / Extended_Pictographic class of a code point, from the
committed reference data -/
def refG (r : Nat) : Nat := (rowOf r).g

theorem riRun_norm (l : List Nat) : GB.riRun (l.map normG) = GB.riRun l := by
  induction l with
  | nil => rfl
  | cons c cs ih => simp only [List.map_cons, GB.riRun, ih, normG_beq prRegionalIndicator rfl rfl]

theorem epExt_norm (l : List Nat) : GB.epExt (l.map normG) = GB.epExt l := by
  induction l with
  | nil => rfl
  | cons c cs ih =>
    simp only [List.map_cons, GB.epExt, ih, normG_beq prExtendedPictographic rfl rfl, normG_beq prExtend rfl rfl]

/-- GB1–GB999 do not distinguish "unlisted" (`prXX`) from the fast path's `prAny`: both are Other -/
theorem gb_norm (l r : List Nat) : GB.gbBreak (l.map normG) (r.map normG) = GB.gbBreak l r := by
  cases l with
  | nil => rfl
  | cons a as =>
    cases r with
    | nil => rfl
    | cons b bs =>
      have hr := riRun_norm (a :: as)
      simp only [List.map_cons] at hr
      simp only [List.map_cons, GB.gbBreak, GB.isCtl, epExt_norm,
        normG_beq prCR rfl rfl, normG_beq prLF rfl rfl, normG_beq prControl rfl rfl, normG_beq prL rfl rfl,
        normG_beq prV rfl rfl, normG_beq prLV rfl rfl, normG_beq prLVT rfl rfl, normG_beq prT rfl rfl,
        normG_beq prExtend rfl rfl, normG_beq prZWJ rfl rfl, normG_beq prSpacingMark rfl rfl,
        normG_beq prPrepend rfl rfl, normG_beq prExtendedPictographic rfl rfl, normG_beq prRegionalIndicator rfl rfl]
      rw [hr]
      rfl

theorem interior_norm : ∀ (rest left : List Nat),
    interior GB.gbBreak (left.map normG) (rest.map normG) = interior GB.gbBreak left rest := by
  intro rest
  induction rest with
  | nil => intro _; rfl
  | cons c cs ih =>
    intro left
    simp only [List.map_cons, interior]
    have h1 := ih (c :: left)
    simp only [List.map_cons] at h1
    rw [h1]
    cases left with
    | nil => rfl
    | cons a as =>
      have := gb_norm (a :: as) (c :: cs)
      simp only [List.map_cons] at this
      simp only [List.map_cons, this]

theorem refG_eq (r : Nat) (hr : r < 0x110000) : refG r = normG (gbLetter r) := by
  obtain ⟨hm, h1, h2⟩ := rowOf_spec r hr
  exact (g_class r _ hm h1 h2).symm

/-- the spec applied to the library's lookups is the spec applied to the reference classes -/
theorem specG_ref (vals : List Nat) (h : CodePoints vals) : specG vals = interior GB.gbBreak [] (vals.map refG) := by
  have : vals.map refG = (vals.map gbLetter).map normG := by
    rw [List.map_map]
    apply List.map_congr_left
    intro r hr
    exact refG_eq r (h r hr)
  rw [this]
  have := interior_norm (vals.map gbLetter) []
  simp only [List.map_nil] at this
  rw [this]; rfl

/-- C07 for graphemes: code points with the same reference values are interchangeable, anywhere -/
theorem grapheme_same_class (vals vals' : List Nat) (h : CodePoints vals) (h' : CodePoints vals')
    (hsame : vals.map refG = vals'.map refG) :
    ((runV ChainG.trGm none vals).map (·.2)).tail = ((runV ChainG.trGm none vals').map (·.2)).tail := by
  rw [grapheme_verdicts vals h, grapheme_verdicts vals' h', specG_ref vals h, specG_ref vals' h', hsame]

/-- **C01 in absolute terms**: the verdicts of the implementation are GB1–GB999 applied to the
Unicode 15.0.0 classes of the code points -/
theorem grapheme_verdicts_ref (vals : List Nat) (h : CodePoints vals) :
    ((runV ChainG.trGm none vals).map (·.2)).tail = interior GB.gbBreak [] (vals.map refG) := by
  rw [grapheme_verdicts vals h, specG_ref vals h]

end Uniseg.Properties.C01U
