import Uniseg.Properties.C11
import Uniseg.Properties.LettersCur
import Uniseg.Properties.C06
/-! # C11 without side conditions: every text of code points

The side condition of `C11` (every letter of the text is in the certificates' alphabets) is discharged
from the *current* tables alone (`LettersCur`), not from the Unicode reference: compositionality does not
depend on which class a code point has. -/
namespace Uniseg.Properties.C11U
open Uniseg Uniseg.Gen Uniseg.Auto Uniseg.Chain Uniseg.Spec Uniseg.Lift Uniseg.Properties

theorem word_restart (pre : List Nat) (x : Nat) (suf : List Nat) (hpre : pre ≠ []) (hcp : CodePoints (pre ++ x :: suf))
    (hb : (transitionWordBreakState (stateAfter transitionWordBreakState none pre (x :: suf)) x suf).2 = true) :
    runV transitionWordBreakState (some (transitionWordBreakState none x suf).1) suf =
      runV transitionWordBreakState (some (transitionWordBreakState (stateAfter transitionWordBreakState none pre (x :: suf)) x suf).1) suf :=
  C11.word_restart pre x suf hpre (LettersCur.w_lettersOK _ hcp) hb

theorem sentence_restart (pre : List Nat) (x : Nat) (suf : List Nat) (hpre : pre ≠ []) (hcp : CodePoints (pre ++ x :: suf))
    (hb : (transitionSentenceBreakState (stateAfter transitionSentenceBreakState none pre (x :: suf)) x suf).2 = true) :
    runV transitionSentenceBreakState (some (transitionSentenceBreakState none x suf).1) suf =
      runV transitionSentenceBreakState (some (transitionSentenceBreakState (stateAfter transitionSentenceBreakState none pre (x :: suf)) x suf).1) suf :=
  C11.sentence_restart pre x suf hpre (LettersCur.s_lettersOK _ hcp) hb

theorem line_restart (pre : List Nat) (x : Nat) (suf : List Nat) (hpre : pre ≠ []) (hcp : CodePoints (pre ++ x :: suf))
    (hb : ((trL (stateAfter trL none pre (x :: suf)) x suf).2 != LB.V.no) = true) :
    runV trL (some (trL none x suf).1) suf = runV trL (some (trL (stateAfter trL none pre (x :: suf)) x suf).1) suf :=
  C11.line_restart pre x suf hpre (LettersCur.l_lettersOK _ hcp) hb

theorem grapheme_restart (pre : List Nat) (x : Nat) (suf : List Nat) (hpre : pre ≠ []) (hcp : CodePoints (pre ++ x :: suf))
    (hb : (trG (stateAfter trG none pre (x :: suf)) x suf).2 = true) :
    runV trG (some (trG none x suf).1) suf = runV trG (some (trG (stateAfter trG none pre (x :: suf)) x suf).1) suf :=
  C11.grapheme_restart pre x suf hpre (LettersCur.g_lettersOK _ hcp) hb


/-! ## both halves, every text of code points: verdicts and segments compose at a reported boundary -/

theorem word_verdicts_compose (pre : List Nat) (y : Nat) (ys : List Nat) (hpre : pre ≠ []) (hcp : CodePoints (pre ++ y :: ys))
    (hb : ((runV transitionWordBreakState none (pre ++ y :: ys)).map (·.2))[pre.length]? = some true) :
    ((runV transitionWordBreakState none (pre ++ y :: ys)).map (·.2)).tail =
      ((runV transitionWordBreakState none pre).map (·.2)).tail ++ true :: ((runV transitionWordBreakState none (y :: ys)).map (·.2)).tail :=
  C11.verdicts_compose algW wbL transitionWordBreakState Cert.Word.cert Cert.Word.valid Cert.WordCut.cert Cert.WordCut.valid
    (transW_factor C02.fffd_inert) pre y ys hpre (LettersCur.w_lettersOK _ hcp) (by rw [C11.cut_letters.2.1]; exact LettersCur.w_lettersOK _ hcp) true hb rfl

theorem sentence_verdicts_compose (pre : List Nat) (y : Nat) (ys : List Nat) (hpre : pre ≠ []) (hcp : CodePoints (pre ++ y :: ys))
    (hb : ((runV transitionSentenceBreakState none (pre ++ y :: ys)).map (·.2))[pre.length]? = some true) :
    ((runV transitionSentenceBreakState none (pre ++ y :: ys)).map (·.2)).tail =
      ((runV transitionSentenceBreakState none pre).map (·.2)).tail ++ true :: ((runV transitionSentenceBreakState none (y :: ys)).map (·.2)).tail :=
  C11.verdicts_compose algS sbL transitionSentenceBreakState Cert.Sentence.cert Cert.Sentence.valid Cert.SentenceCut.cert Cert.SentenceCut.valid
    transS_factor pre y ys hpre (LettersCur.s_lettersOK _ hcp) (by rw [C11.cut_letters.2.2.1]; exact LettersCur.s_lettersOK _ hcp) true hb rfl

theorem line_verdicts_compose (pre : List Nat) (y : Nat) (ys : List Nat) (hpre : pre ≠ []) (hcp : CodePoints (pre ++ y :: ys))
    (v : LB.V) (hv : ((runV trL none (pre ++ y :: ys)).map (·.2))[pre.length]? = some v) (hb : (v != LB.V.no) = true) :
    ((runV trL none (pre ++ y :: ys)).map (·.2)).tail =
      ((runV trL none pre).map (·.2)).tail ++ v :: ((runV trL none (y :: ys)).map (·.2)).tail :=
  C11.verdicts_compose algL lbIn trL Cert.Line.cert Cert.Line.valid Cert.LineCut.cert Cert.LineCut.valid
    transL_factor pre y ys hpre (LettersCur.l_lettersOK _ hcp) (by rw [C11.cut_letters.2.2.2]; exact LettersCur.l_lettersOK _ hcp) v hv hb

theorem grapheme_verdicts_compose (pre : List Nat) (y : Nat) (ys : List Nat) (hpre : pre ≠ []) (hcp : CodePoints (pre ++ y :: ys))
    (hb : ((runV trG none (pre ++ y :: ys)).map (·.2))[pre.length]? = some true) :
    ((runV trG none (pre ++ y :: ys)).map (·.2)).tail =
      ((runV trG none pre).map (·.2)).tail ++ true :: ((runV trG none (y :: ys)).map (·.2)).tail :=
  C11.verdicts_compose algG gbLetter trG Cert.Grapheme.cert Cert.Grapheme.valid Cert.GraphemeCut.cert Cert.GraphemeCut.valid
    (fun _ _ _ => rfl) pre y ys hpre (LettersCur.g_lettersOK _ hcp) (by rw [C11.cut_letters.1]; exact LettersCur.g_lettersOK _ hcp) true hb rfl

/-- the code points of a decoded text -/
theorem runeVals_codepoints (b : List Nat) : CodePoints (runeVals (Utf8.runesOf b)) := decoded_codepoints b

/-- **C11 for words, segment level**: if the run over the decoded text reports a word boundary
between `rp` and `ry :: rs`, the chain of `FirstWord` calls on the whole text yields the segments of
the chain on `rp`, then those of the chain on `ry :: rs` -/
theorem word_segments_compose (rp : List Rune) (ry : Rune) (rs : List Rune) (hrp : rp ≠ [])
    (hcp : CodePoints (runeVals rp ++ ry.1 :: runeVals rs))
    (hb : ((runV transitionWordBreakState none (runeVals rp ++ ry.1 :: runeVals rs)).map (·.2))[(runeVals rp).length]? = some true) :
    (chain firstWordR (rp ++ ry :: rs) none).map (fun x => (x.1, x.2.1)) =
      C11.setEnd true ((chain firstWordR rp none).map (fun x => (x.1, x.2.1))) ++ (chain firstWordR (ry :: rs) none).map (fun x => (x.1, x.2.1)) := by
  have hne : runeVals rp ≠ [] := by
    cases rp with
    | nil => exact absurd rfl hrp
    | cons _ _ => simp [runeVals]
  apply C11.chain_compose transitionWordBreakState id (fun rs => (chain firstWordR rs none).map (fun x => (x.1, x.2.1)))
    (fun rs => by
      have := chain_cuts transitionWordBreakState id wbAny rs
      unfold firstWordR
      rw [this]
      cases rs with
      | nil => rfl
      | cons _ _ => simp only [List.map_tail])
    rp ry rs hrp true rfl
  exact word_verdicts_compose (runeVals rp) ry.1 (runeVals rs) hne hcp hb

theorem sentence_segments_compose (rp : List Rune) (ry : Rune) (rs : List Rune) (hrp : rp ≠ [])
    (hcp : CodePoints (runeVals rp ++ ry.1 :: runeVals rs))
    (hb : ((runV transitionSentenceBreakState none (runeVals rp ++ ry.1 :: runeVals rs)).map (·.2))[(runeVals rp).length]? = some true) :
    (chain firstSentenceR (rp ++ ry :: rs) none).map (fun x => (x.1, x.2.1)) =
      C11.setEnd true ((chain firstSentenceR rp none).map (fun x => (x.1, x.2.1))) ++ (chain firstSentenceR (ry :: rs) none).map (fun x => (x.1, x.2.1)) := by
  have hne : runeVals rp ≠ [] := by
    cases rp with
    | nil => exact absurd rfl hrp
    | cons _ _ => simp [runeVals]
  apply C11.chain_compose transitionSentenceBreakState id (fun rs => (chain firstSentenceR rs none).map (fun x => (x.1, x.2.1)))
    (fun rs => by
      have := chain_cuts transitionSentenceBreakState id sbAny rs
      unfold firstSentenceR
      rw [this]
      cases rs with
      | nil => rfl
      | cons _ _ => simp only [List.map_tail])
    rp ry rs hrp true rfl
  exact sentence_verdicts_compose (runeVals rp) ry.1 (runeVals rs) hne hcp hb


/-- the line chain as cuts of the `trL` run (three-valued verdicts) -/
theorem line_chain_cuts (rs : List Rune) :
    (chain firstLineR rs none).map (fun x => (x.1, x.2.1.map lvOfNat)) =
      match rs with
      | [] => []
      | _ :: _ => cutsV (fun v => v != LB.V.no) ((runV trL none (runeVals rs)).map (·.2)).tail 1 := by
  have h := chain_cuts transitionLineBreakState (fun v => v != LineDontBreak) lbAny rs
  have h2 := congrArg (List.map (fun (x : Nat × Option Nat) => (x.1, x.2.map lvOfNat))) h
  simp only [List.map_map] at h2
  unfold firstLineR
  refine Eq.trans ?_ (Eq.trans h2 ?_)
  · rfl
  · cases rs with
    | nil => rfl
    | cons r rest =>
      simp only
      rw [cutsV_map (fun v => v != LineDontBreak) (fun v => v != LB.V.no) lvOfNat C04.isB_lv]
      have := runV_map transitionLineBreakState lvOfNat none (runeVals (r :: rest))
      unfold trL
      rw [this, List.map_tail, List.map_tail, List.map_map, List.map_map]
      rfl

/-- **C11 for lines, segment level** (lengths and the ×/÷/! verdict ending each segment) -/
theorem line_segments_compose (rp : List Rune) (ry : Rune) (rs : List Rune) (hrp : rp ≠ [])
    (hcp : CodePoints (runeVals rp ++ ry.1 :: runeVals rs)) (v : LB.V)
    (hv : ((runV trL none (runeVals rp ++ ry.1 :: runeVals rs)).map (·.2))[(runeVals rp).length]? = some v) (hb : (v != LB.V.no) = true) :
    (chain firstLineR (rp ++ ry :: rs) none).map (fun x => (x.1, x.2.1.map lvOfNat)) =
      C11.setEnd v ((chain firstLineR rp none).map (fun x => (x.1, x.2.1.map lvOfNat))) ++
        (chain firstLineR (ry :: rs) none).map (fun x => (x.1, x.2.1.map lvOfNat)) := by
  have hne : runeVals rp ≠ [] := by
    cases rp with
    | nil => exact absurd rfl hrp
    | cons _ _ => simp [runeVals]
  apply C11.chain_compose trL (fun v => v != LB.V.no) (fun rs => (chain firstLineR rs none).map (fun x => (x.1, x.2.1.map lvOfNat)))
    line_chain_cuts rp ry rs hrp v hb
  exact line_verdicts_compose (runeVals rp) ry.1 (runeVals rs) hne hcp v hv hb


theorem setEnd_lengths {V : Type} (v : V) : ∀ (l : List (Nat × Option V)), (C11.setEnd v l).map (·.1) = l.map (·.1) := by
  intro l
  induction l with
  | nil => rfl
  | cons a as ih =>
    cases as with
    | nil => rfl
    | cons b bs => simp only [C11.setEnd, List.map_cons] at ih ⊢; rw [ih]

/-- **C11 for grapheme clusters, segment level** (cluster lengths in code points; the width of a
cluster is a function of its code points, C06): for every ambiguous-width setting -/
theorem grapheme_segments_compose (amb : Nat) (rp : List Rune) (ry : Rune) (rs : List Rune) (hrp : rp ≠ [])
    (hcp : CodePoints (runeVals rp ++ ry.1 :: runeVals rs))
    (hb : ((runV trG none (runeVals rp ++ ry.1 :: runeVals rs)).map (·.2))[(runeVals rp).length]? = some true) :
    (chain (firstGraphemeClusterR amb) (rp ++ ry :: rs) none).map (·.1) =
      (chain (firstGraphemeClusterR amb) rp none).map (·.1) ++ (chain (firstGraphemeClusterR amb) (ry :: rs) none).map (·.1) := by
  have hne : runeVals rp ≠ [] := by
    cases rp with
    | nil => exact absurd rfl hrp
    | cons _ _ => simp [runeVals]
  have hcuts : ∀ rs : List Rune, (chain (firstGraphemeClusterR amb) rs none).map (·.1) =
      (match rs with
       | [] => []
       | _ :: _ => cutsV id ((runV trG none (runeVals rs)).map (fun (t : Nat × Bool) => t.2)).tail 1).map (fun (x : Nat × Option Bool) => x.1) := by
    intro rs
    rw [gen_chain ChainG.trGm id (firstGraphemeClusterR amb) ChainG.decG _ _ (ChainG.fg_isFirstCut amb)]
    cases rs with
    | nil => rfl
    | cons r rest =>
      simp only [cuts]
      rw [C01.runV_mask _ none (by intro s h; cases h), List.map_tail]
  have hcomp := grapheme_verdicts_compose (runeVals rp) ry.1 (runeVals rs) hne hcp hb
  rw [hcuts (rp ++ ry :: rs), hcuts rp, hcuts (ry :: rs)]
  cases rp with
  | nil => exact absurd rfl hrp
  | cons r0 rp' =>
    have e1 : runeVals (r0 :: rp' ++ ry :: rs) = runeVals (r0 :: rp') ++ ry.1 :: runeVals rs := by
      simp [runeVals]
    have e2 : runeVals (ry :: rs) = ry.1 :: runeVals rs := by simp [runeVals]
    simp only [List.cons_append]
    rw [← List.cons_append, e1, e2, hcomp, C11.cutsV_compose id true rfl, List.map_append, setEnd_lengths]


/-! ## cluster widths compose as well -/

/-- the documented widths of consecutive groups of `ns` code points of `rs` -/
def widthsOf (amb : Nat) : List Rune → List Nat → List Nat
  | _, [] => []
  | rs, n :: ns => clusterWidth amb (runeVals (rs.take n)) :: widthsOf amb (rs.drop n) ns

theorem groupWidths_eq (amb : Nat) : ∀ (l : List (Nat × Nat × Nat)) (rs : List Rune),
    C06.groupWidths amb rs l = widthsOf amb rs (l.map (·.1)) := by
  intro l
  induction l with
  | nil => intro _; rfl
  | cons x xs ih => intro rs; simp only [C06.groupWidths, List.map_cons, widthsOf]; rw [ih]

theorem widthsOf_append (amb : Nat) (rs : List Rune) : ∀ (l1 : List Nat) (rp : List Rune) (l2 : List Nat), l1.sum = rp.length →
    widthsOf amb (rp ++ rs) (l1 ++ l2) = widthsOf amb rp l1 ++ widthsOf amb rs l2 := by
  intro l1
  induction l1 with
  | nil =>
    intro rp l2 h
    have : rp = [] := List.eq_nil_of_length_eq_zero (by simpa using h.symm)
    subst this; rfl
  | cons n ns ih =>
    intro rp l2 h
    simp only [List.sum_cons] at h
    have hn : n ≤ rp.length := by omega
    simp only [List.cons_append, widthsOf]
    rw [List.take_append_of_le_length hn, List.drop_append_of_le_length hn]
    rw [ih (rp.drop n) l2 (by simp only [List.length_drop]; omega)]

/-- every cluster of the chain from −1 carries the documented width of its code points -/
theorem grapheme_chain_widths (amb : Nat) (rs : List Rune) :
    (chain (firstGraphemeClusterR amb) rs none).map (·.2.1) =
      widthsOf amb rs ((chain (firstGraphemeClusterR amb) rs none).map (·.1)) := by
  rw [← groupWidths_eq]
  exact C06.chain_widths_eq amb rs.length rs none (by intro s r rest hs; cases hs)

/-- **C11 for grapheme clusters, lengths and widths**: at a reported cluster boundary the chain on the
whole text yields the clusters *and widths* of the chain on the prefix followed by those of the chain
on the suffix, each segmented on its own from −1; for every ambiguous-width setting -/
theorem grapheme_segments_widths_compose (amb : Nat) (rp : List Rune) (ry : Rune) (rs : List Rune) (hrp : rp ≠ [])
    (hcp : CodePoints (runeVals rp ++ ry.1 :: runeVals rs))
    (hb : ((runV trG none (runeVals rp ++ ry.1 :: runeVals rs)).map (·.2))[(runeVals rp).length]? = some true) :
    (chain (firstGraphemeClusterR amb) (rp ++ ry :: rs) none).map (fun x => (x.1, x.2.1)) =
      (chain (firstGraphemeClusterR amb) rp none).map (fun x => (x.1, x.2.1)) ++
        (chain (firstGraphemeClusterR amb) (ry :: rs) none).map (fun x => (x.1, x.2.1)) := by
  have hl := grapheme_segments_compose amb rp ry rs hrp hcp hb
  have hsum : ((chain (firstGraphemeClusterR amb) rp none).map (·.1)).sum = rp.length :=
    (chain_partition (firstGraphemeClusterR amb) (fun rs st h => (C05.grapheme_call amb rs st h).1)
      (C05.le_of_call _ (fun _ => rfl) (fun rs st h => (C05.grapheme_call amb rs st h).2)) rp.length rp none (Nat.le_refl _)).2.1
  have hw : (chain (firstGraphemeClusterR amb) (rp ++ ry :: rs) none).map (·.2.1) =
      (chain (firstGraphemeClusterR amb) rp none).map (·.2.1) ++ (chain (firstGraphemeClusterR amb) (ry :: rs) none).map (·.2.1) := by
    rw [grapheme_chain_widths amb (rp ++ ry :: rs), grapheme_chain_widths amb rp, grapheme_chain_widths amb (ry :: rs), hl,
      widthsOf_append amb (ry :: rs) _ rp _ hsum]
  have zip : ∀ (l : List (Nat × Nat × Nat)), l.map (fun x => (x.1, x.2.1)) = (l.map (·.1)).zip (l.map (·.2.1)) := by
    intro l; induction l with
    | nil => rfl
    | cons a as ih => simp only [List.map_cons, List.zip_cons_cons, ih]
  rw [zip, zip, zip, hl, hw, List.zip_append (by simp)]

end Uniseg.Properties.C11U
