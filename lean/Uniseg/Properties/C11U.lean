import Uniseg.Properties.C11
import Uniseg.Properties.C01U
import Uniseg.Properties.C02U
import Uniseg.Properties.C03U
import Uniseg.Properties.C04U
/-! # C11 (suffix half) without side conditions: every text of code points -/
namespace Uniseg.Properties.C11U
open Uniseg Uniseg.Gen Uniseg.Auto Uniseg.Chain Uniseg.Spec Uniseg.Lift Uniseg.Properties

theorem word_restart (pre : List Nat) (x : Nat) (suf : List Nat) (hpre : pre ≠ []) (hcp : CodePoints (pre ++ x :: suf))
    (hb : (transitionWordBreakState (stateAfter transitionWordBreakState none pre (x :: suf)) x suf).2 = true) :
    runV transitionWordBreakState (some (transitionWordBreakState none x suf).1) suf =
      runV transitionWordBreakState (some (transitionWordBreakState (stateAfter transitionWordBreakState none pre (x :: suf)) x suf).1) suf :=
  C11.word_restart pre x suf hpre (C02U.lettersOK _ hcp) hb

theorem sentence_restart (pre : List Nat) (x : Nat) (suf : List Nat) (hpre : pre ≠ []) (hcp : CodePoints (pre ++ x :: suf))
    (hb : (transitionSentenceBreakState (stateAfter transitionSentenceBreakState none pre (x :: suf)) x suf).2 = true) :
    runV transitionSentenceBreakState (some (transitionSentenceBreakState none x suf).1) suf =
      runV transitionSentenceBreakState (some (transitionSentenceBreakState (stateAfter transitionSentenceBreakState none pre (x :: suf)) x suf).1) suf :=
  C11.sentence_restart pre x suf hpre (C03U.lettersOK _ hcp) hb

theorem line_restart (pre : List Nat) (x : Nat) (suf : List Nat) (hpre : pre ≠ []) (hcp : CodePoints (pre ++ x :: suf))
    (hb : ((trL (stateAfter trL none pre (x :: suf)) x suf).2 != LB.V.no) = true) :
    runV trL (some (trL none x suf).1) suf = runV trL (some (trL (stateAfter trL none pre (x :: suf)) x suf).1) suf :=
  C11.line_restart pre x suf hpre (C04U.lettersOK _ hcp) hb

theorem grapheme_restart (pre : List Nat) (x : Nat) (suf : List Nat) (hpre : pre ≠ []) (hcp : CodePoints (pre ++ x :: suf))
    (hb : (trG (stateAfter trG none pre (x :: suf)) x suf).2 = true) :
    runV trG (some (trG none x suf).1) suf = runV trG (some (trG (stateAfter trG none pre (x :: suf)) x suf).1) suf :=
  C11.grapheme_restart pre x suf hpre (C01U.lettersOK _ hcp) hb

end Uniseg.Properties.C11U
