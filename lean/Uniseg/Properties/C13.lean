import Uniseg.Properties.C05
/-! # C13 — the Graphemes iterator mirrors StepString under any sequence of calls

Refinement proof. The abstract iterator is a cursor into the list `steps s` of `StepString` results
(chained from −1): `fresh` (before the first `Next`), `at i` (after the `(i+1)`-th successful
`Next`), `done` (after a `Next` that returned false). `Rel` relates the six concrete fields to the
cursor; every method preserves `Rel` and returns what the abstract iterator returns, from every
related state — hence for every finite sequence of calls (`run_refines`). -/
namespace Uniseg.Properties.C13
open Uniseg Uniseg.Gen Uniseg.Utf8 Uniseg.Chain

/-- one `StepString` result with its byte interval: (from, length, boundaries, newState) -/
abbrev Item := Nat × Nat × Nat × Nat

/-- the `StepString` results on `rem` from state `st`, the first starting at byte offset `off` -/
def stepsFrom (amb : Nat) : Nat → List Nat → Option Nat → Nat → List Item
  | 0, _, _, _ => []
  | fuel + 1, rem, st, off =>
    match rem with
    | [] => []
    | _ :: _ =>
      let res := step true amb rem st
      (off, res.1, res.2.1, res.2.2) :: stepsFrom amb fuel (rem.drop res.1) (some res.2.2) (off + res.1)

/-- all `StepString` results of a text, chained from −1 -/
def steps (amb : Nat) (s : List Nat) : List Item := stepsFrom amb s.length s none 0

theorem step_pos (amb : Nat) (b : List Nat) (st : Option Nat) (hb : b ≠ []) : 1 ≤ (step true amb b st).1 :=
  (C05.step_len true amb b st hb).1

theorem stepsFrom_mono (amb : Nat) : ∀ (fuel fuel' : Nat) (rem : List Nat) (st : Option Nat) (off : Nat),
    rem.length ≤ fuel → rem.length ≤ fuel' → stepsFrom amb fuel rem st off = stepsFrom amb fuel' rem st off := by
  intro fuel
  induction fuel with
  | zero =>
    intro fuel' rem st off h _
    have : rem = [] := List.eq_nil_of_length_eq_zero (by omega)
    subst this
    cases fuel' <;> rfl
  | succ fuel ih =>
    intro fuel' rem st off h h'
    cases rem with
    | nil => cases fuel' <;> rfl
    | cons x xs =>
      cases fuel' with
      | zero => simp at h'
      | succ fuel' =>
        simp only [stepsFrom]
        have hp := step_pos amb (x :: xs) st (by simp)
        simp only [List.length_cons] at h h'
        rw [ih fuel' _ _ _ (by simp only [List.length_drop, List.length_cons]; omega)
          (by simp only [List.length_drop, List.length_cons]; omega)]

/-! ## the abstract iterator -/

inductive Cursor | fresh | at (i : Nat) | done
deriving DecidableEq, Repr

/-- observable results of the accessors, as a record -/
structure Obs where
  str : List Nat
  runes : Option (List Nat)
  bytes : Option (List Nat)
  positions : Nat × Nat
  isWord : Bool
  isSentence : Bool
  lineBreak : Nat
  width : Nat
deriving DecidableEq, Repr

def observe (g : Graphemes) : Obs :=
  ⟨g.str, g.runes, g.bytes, g.positions, g.isWordBoundary, g.isSentenceBoundary, g.lineBreak, g.width⟩

/-- what the documentation promises for each cursor position -/
def absObserve (s : List Nat) (its : List Item) : Cursor → Obs
  | .fresh => ⟨[], none, none, (0, 0), true, true, LineDontBreak, 0⟩
  | .done => ⟨[], none, none, (1, 1), true, true, LineMustBreak, 0⟩
  | .at i =>
    let it := its.getD i (0, 0, 0, 0)
    let cl := (s.drop it.1).take it.2.1
    ⟨cl, some (runeVals (runesOf cl)), some cl, (it.1, it.1 + it.2.1),
     it.2.2.1 &&& MaskWord != 0, it.2.2.1 &&& MaskSentence != 0, it.2.2.1 &&& MaskLine, it.2.2.1 >>> ShiftWidth⟩

def absNext (its : List Item) : Cursor → Cursor × Bool
  | .fresh => if its.isEmpty then (.done, false) else (.at 0, true)
  | .at i => if i + 1 < its.length then (.at (i + 1), true) else (.done, false)
  | .done => (.done, false)

/-! ## the refinement relation -/

/-- concrete fields vs cursor -/
def Rel (amb : Nat) (s : List Nat) (g : Graphemes) : Cursor → Prop
  | .fresh => g.original = s ∧ g.remaining = s ∧ g.cluster = [] ∧ g.offset = 0 ∧ g.state = -1
  | .done => g.original = s ∧ g.remaining = [] ∧ g.cluster = [] ∧ g.state = -2
  | .at i =>
    ∃ it rest, (steps amb s).drop i = it :: rest ∧
      g.original = s ∧ g.offset = it.1 ∧ g.cluster = (s.drop it.1).take it.2.1 ∧ g.boundaries = it.2.2.1 ∧
      g.state = (it.2.2.2 : Int) ∧ g.remaining = s.drop (it.1 + it.2.1) ∧ it.1 + it.2.1 ≤ s.length ∧
      rest = stepsFrom amb (s.drop (it.1 + it.2.1)).length (s.drop (it.1 + it.2.1)) (some it.2.2.2) (it.1 + it.2.1)

theorem rel_new (amb : Nat) (s : List Nat) : Rel amb s (newGraphemes s) .fresh := ⟨rfl, rfl, rfl, rfl, rfl⟩

theorem rel_reset (amb : Nat) (s : List Nat) (g : Graphemes) (c : Cursor) (h : Rel amb s g c) :
    Rel amb s g.reset .fresh := by
  have ho : g.original = s := by
    cases c with
    | fresh => exact h.1
    | done => exact h.1
    | «at» i => obtain ⟨it, rest, _, h2, _⟩ := h; exact h2
  exact ⟨ho, ho, rfl, rfl, rfl⟩

theorem drop_eq_cons_getD {α : Type} (l : List α) (i : Nat) (x : α) (xs : List α) (d : α) (h : l.drop i = x :: xs) :
    l.getD i d = x ∧ i < l.length := by
  have hlt : i < l.length := by
    apply Nat.lt_of_not_le
    intro hn
    have : l.drop i = [] := List.drop_eq_nil_of_le hn
    rw [this] at h; cases h
  refine ⟨?_, hlt⟩
  rw [List.getD_eq_getElem?_getD, List.getElem?_eq_getElem hlt]
  have := List.drop_eq_getElem_cons hlt
  rw [this] at h
  cases h; rfl

/-- accessors return what the abstract iterator returns -/
theorem observe_refines (amb : Nat) (s : List Nat) (g : Graphemes) (c : Cursor) (h : Rel amb s g c) :
    observe g = absObserve s (steps amb s) c := by
  cases c with
  | fresh =>
    obtain ⟨_, _, h3, _, h5⟩ := h
    simp [observe, absObserve, Graphemes.str, Graphemes.runes, Graphemes.bytes, Graphemes.positions,
      Graphemes.isWordBoundary, Graphemes.isSentenceBoundary, Graphemes.lineBreak, Graphemes.width, h3, h5]
  | done =>
    obtain ⟨_, _, h3, h4⟩ := h
    simp [observe, absObserve, Graphemes.str, Graphemes.runes, Graphemes.bytes, Graphemes.positions,
      Graphemes.isWordBoundary, Graphemes.isSentenceBoundary, Graphemes.lineBreak, Graphemes.width, h3, h4]
  | «at» i =>
    obtain ⟨it, rest, hd, _, h3, h4, h5, h6, _, h8, _⟩ := h
    obtain ⟨hget, _⟩ := drop_eq_cons_getD _ _ _ _ (0, 0, 0, 0) hd
    have hs0 : ¬ ((it.2.2.2 : Int) < 0) := by omega
    have hs1 : ¬ ((it.2.2.2 : Int) = -1) := by omega
    have hs2 : ¬ ((it.2.2.2 : Int) = -2) := by omega
    simp only [absObserve]
    rw [hget]
    have hmin : min it.2.1 (s.length - it.1) = it.2.1 := by omega
    simp [observe, Graphemes.str, Graphemes.runes, Graphemes.bytes, Graphemes.positions,
      Graphemes.isWordBoundary, Graphemes.isSentenceBoundary, Graphemes.lineBreak, Graphemes.width,
      h3, h4, h5, h6, hs0, hs1, hs2, hmin]

theorem steps_unfold (amb : Nat) (x : Nat) (xs : List Nat) :
    steps amb (x :: xs) =
      (0, (step true amb (x :: xs) none).1, (step true amb (x :: xs) none).2.1, (step true amb (x :: xs) none).2.2) ::
        stepsFrom amb ((x :: xs).drop (step true amb (x :: xs) none).1).length ((x :: xs).drop (step true amb (x :: xs) none).1)
          (some (step true amb (x :: xs) none).2.2) (0 + (step true amb (x :: xs) none).1) := by
  unfold steps
  simp only [List.length_cons, stepsFrom]
  have hp := step_pos amb (x :: xs) none (by simp)
  rw [stepsFrom_mono amb xs.length _ _ _ _ (by simp only [List.length_drop, List.length_cons]; omega) (Nat.le_refl _)]

/-- `Next` refines the abstract `Next` -/
theorem next_refines (amb : Nat) (s : List Nat) (g : Graphemes) (c : Cursor) (h : Rel amb s g c) :
    Rel amb s (g.next amb).1 (absNext (steps amb s) c).1 ∧ (g.next amb).2 = (absNext (steps amb s) c).2 := by
  cases c with
  | done =>
    obtain ⟨h1, h2, h3, h4⟩ := h
    simp only [Graphemes.next, h2, List.isEmpty_nil, ↓reduceIte, absNext]
    exact ⟨⟨h1, rfl, rfl, rfl⟩, trivial⟩
  | fresh =>
    obtain ⟨h1, h2, h3, h4, h5⟩ := h
    cases hs : s with
    | nil =>
      subst hs
      simp only [Graphemes.next, h2, List.isEmpty_nil, ↓reduceIte, absNext, steps, stepsFrom, List.length_nil]
      exact ⟨⟨h1, rfl, rfl, rfl⟩, trivial⟩
    | cons x xs =>
      have hne : g.remaining.isEmpty = false := by rw [h2, hs]; rfl
      have hst : (if g.state < 0 then none else some g.state.toNat) = (none : Option Nat) := by rw [h5]; rfl
      have hle := (C05.step_len true amb (x :: xs) none (by simp)).2.1
      simp only [Graphemes.next, hne, Bool.false_eq_true, ↓reduceIte, hst, absNext]
      rw [← hs] at hle ⊢
      have hu : steps amb s =
          (0, (step true amb s none).1, (step true amb s none).2.1, (step true amb s none).2.2) ::
            stepsFrom amb (s.drop (step true amb s none).1).length (s.drop (step true amb s none).1)
              (some (step true amb s none).2.2) (0 + (step true amb s none).1) := by
        rw [hs]; exact steps_unfold amb x xs
      have hne2 : (steps amb s).isEmpty = false := by rw [hu]; rfl
      simp only [hne2, Bool.false_eq_true, ↓reduceIte]
      refine ⟨⟨_, _, by rw [List.drop_zero]; exact hu, h1, ?_, ?_, ?_, ?_, ?_, ?_, ?_⟩, trivial⟩
      · simp [h4, h3]
      · simp [h2]
      · simp [h2]
      · simp [h2]
      · simp [h2]
      · simpa using hle
      · simp
  | «at» i =>
    obtain ⟨it, rest, hd, h1, h3, h4, h5, h6, h7, h8, h9⟩ := h
    obtain ⟨_, hilt⟩ := drop_eq_cons_getD _ _ _ _ (0, 0, 0, 0) hd
    have hst : (if g.state < 0 then none else some g.state.toNat) = some it.2.2.2 := by
      rw [h6]; simp
    cases hrem : s.drop (it.1 + it.2.1) with
    | nil =>
      -- exhausted
      have hrest : rest = [] := by rw [h9, hrem]; rfl
      have hlen : (steps amb s).length = i + 1 := by
        have := congrArg List.length hd
        simp only [List.length_drop, hrest, List.length_cons, List.length_nil] at this
        omega
      simp only [Graphemes.next, h7, hrem, List.isEmpty_nil, ↓reduceIte, absNext, hlen, Nat.lt_irrefl]
      exact ⟨⟨h1, rfl, rfl, rfl⟩, trivial⟩
    | cons y ys =>
      have hne : g.remaining.isEmpty = false := by rw [h7, hrem]; rfl
      have hrest : rest =
          (it.1 + it.2.1, (step true amb (y :: ys) (some it.2.2.2)).1, (step true amb (y :: ys) (some it.2.2.2)).2.1,
            (step true amb (y :: ys) (some it.2.2.2)).2.2) ::
          stepsFrom amb ys.length ((y :: ys).drop (step true amb (y :: ys) (some it.2.2.2)).1)
            (some (step true amb (y :: ys) (some it.2.2.2)).2.2) (it.1 + it.2.1 + (step true amb (y :: ys) (some it.2.2.2)).1) := by
        rw [h9, hrem]
        simp only [List.length_cons, stepsFrom]
      have hlen : i + 1 < (steps amb s).length := by
        have := congrArg List.length hd
        rw [hrest] at this
        simp only [List.length_drop, List.length_cons] at this
        omega
      have hle := (C05.step_len true amb (y :: ys) (some it.2.2.2) (by simp)).2.1
      have hp := step_pos amb (y :: ys) (some it.2.2.2) (by simp)
      have hd' : (steps amb s).drop (i + 1) = rest := by
        have := congrArg List.tail hd
        simpa [List.tail_drop] using this
      have hlens : (y :: ys).length = s.length - (it.1 + it.2.1) := by
        have := congrArg List.length hrem
        simpa using this.symm
      have hmin : min it.2.1 (s.length - it.1) = it.2.1 := by omega
      simp only [Graphemes.next, hne, Bool.false_eq_true, ↓reduceIte, hst, absNext, hlen]
      rw [h7, hrem]
      refine ⟨⟨_, _, by rw [hd', hrest], h1, ?_, ?_, rfl, rfl, ?_, ?_, ?_⟩, trivial⟩
      · simp [h3, h4, List.length_take, List.length_drop, hmin]
      · simp only; rw [hrem]
      · simp only; rw [← hrem, List.drop_drop]
      · simp only [List.length_cons] at hle hlens ⊢; omega
      · simp only
        have e1 : s.drop (it.1 + it.2.1 + (step true amb (y :: ys) (some it.2.2.2)).1) =
            (y :: ys).drop (step true amb (y :: ys) (some it.2.2.2)).1 := by
          rw [← hrem, List.drop_drop]
        rw [e1]
        exact stepsFrom_mono amb _ _ _ _ _ (by simp only [List.length_drop, List.length_cons]; omega) (Nat.le_refl _)

/-! ## every call sequence -/

inductive Op | next | reset | observe
deriving DecidableEq, Repr

inductive Out | bool (b : Bool) | unit | obs (o : Obs)
deriving DecidableEq, Repr

def concStep (amb : Nat) (g : Graphemes) : Op → Graphemes × Out
  | .next => ((g.next amb).1, .bool (g.next amb).2)
  | .reset => (g.reset, .unit)
  | .observe => (g, .obs (observe g))

def absStep (s : List Nat) (its : List Item) (c : Cursor) : Op → Cursor × Out
  | .next => ((absNext its c).1, .bool (absNext its c).2)
  | .reset => (.fresh, .unit)
  | .observe => (c, .obs (absObserve s its c))

def concRun (amb : Nat) (g : Graphemes) : List Op → List Out
  | [] => []
  | op :: ops => (concStep amb g op).2 :: concRun amb (concStep amb g op).1 ops

def absRun (s : List Nat) (its : List Item) (c : Cursor) : List Op → List Out
  | [] => []
  | op :: ops => (absStep s its c op).2 :: absRun s its (absStep s its c op).1 ops

/-- **Refinement.** For every string and every finite sequence of `Next`, `Reset` and accessor calls,
the iterator returns exactly what the cursor over the `StepString` results returns. -/
theorem run_refines (amb : Nat) (s : List Nat) : ∀ (ops : List Op) (g : Graphemes) (c : Cursor), Rel amb s g c →
    concRun amb g ops = absRun s (steps amb s) c ops := by
  intro ops
  induction ops with
  | nil => intro _ _ _; rfl
  | cons op ops ih =>
    intro g c h
    cases op with
    | next =>
      obtain ⟨h1, h2⟩ := next_refines amb s g c h
      simp only [concRun, absRun, concStep, absStep, h2]
      rw [ih _ _ h1]
    | reset =>
      simp only [concRun, absRun, concStep, absStep]
      rw [ih _ _ (rel_reset amb s g c h)]
    | observe =>
      simp only [concRun, absRun, concStep, absStep, observe_refines amb s g c h]
      rw [ih _ _ h]

theorem iterator_mirrors_stepstring (amb : Nat) (s : List Nat) (ops : List Op) :
    concRun amb (newGraphemes s) ops = absRun s (steps amb s) .fresh ops :=
  run_refines amb s ops _ _ (rel_new amb s)

/-- from position `i`, `Next` is true for the remaining `len − 1 − i` results and false from then on -/
theorem nexts_from_at (s : List Nat) (its : List Item) : ∀ (n i : Nat), i < its.length →
    absRun s its (.at i) (List.replicate n .next) =
      List.replicate (min n (its.length - 1 - i)) (.bool true) ++ List.replicate (n - (its.length - 1 - i)) (.bool false) := by
  intro n
  induction n with
  | zero => intro i _; simp [absRun]
  | succ n ih =>
    intro i hi
    simp only [List.replicate_succ, absRun, absStep, absNext]
    by_cases h : i + 1 < its.length
    · simp only [h, ↓reduceIte]
      rw [ih (i + 1) h]
      have e1 : min (n + 1) (its.length - 1 - i) = min n (its.length - 1 - (i + 1)) + 1 := by omega
      have e2 : n + 1 - (its.length - 1 - i) = n - (its.length - 1 - (i + 1)) := by omega
      rw [e1, e2, List.replicate_succ, List.cons_append]
    · simp only [h, ↓reduceIte]
      have e1 : min (n + 1) (its.length - 1 - i) = 0 := by omega
      have e2 : n + 1 - (its.length - 1 - i) = n + 1 := by omega
      rw [e1, e2, List.replicate_zero, List.nil_append, List.replicate_succ]
      congr 1
      clear ih e1 e2 h hi
      induction n with
      | zero => rfl
      | succ n ihn => simp only [List.replicate_succ, absRun, absStep, absNext]; rw [ihn]

/-- **`Next` returns true exactly once per `StepString` result** after construction (or after a
`Reset`, which puts the cursor back to `fresh`), and false from then on -/
theorem next_true_exactly_len (s : List Nat) (its : List Item) (n : Nat) :
    absRun s its .fresh (List.replicate n .next) =
      List.replicate (min n its.length) (.bool true) ++ List.replicate (n - its.length) (.bool false) := by
  cases n with
  | zero => simp [absRun]
  | succ n =>
    simp only [List.replicate_succ, absRun, absStep, absNext]
    cases hl : its with
    | nil =>
      simp only [List.isEmpty_nil, ↓reduceIte, List.length_nil, Nat.min_zero, List.replicate_zero, List.nil_append,
        Nat.sub_zero, List.replicate_succ]
      congr 1
      induction n with
      | zero => rfl
      | succ n ihn => simp only [List.replicate_succ, absRun, absStep, absNext]; rw [ihn]
    | cons it its' =>
      simp only [List.isEmpty_cons, Bool.false_eq_true, ↓reduceIte]
      rw [nexts_from_at s (it :: its') n 0 (by simp)]
      simp only [List.length_cons]
      have e1 : min (n + 1) (its'.length + 1) = min n (its'.length + 1 - 1 - 0) + 1 := by omega
      have e2 : n + 1 - (its'.length + 1) = n - (its'.length + 1 - 1 - 0) := by omega
      rw [e1, e2, List.replicate_succ, List.cons_append]

/-- non-vacuity: the relation holds initially and the abstract `Next` is true exactly twice on a
two-item list, then false forever -/
example : (absNext [(0, 1, 0, 0), (1, 1, 0, 0)] .fresh) = (.at 0, true) ∧
    (absNext [(0, 1, 0, 0), (1, 1, 0, 0)] (.at 0)) = (.at 1, true) ∧
    (absNext [(0, 1, 0, 0), (1, 1, 0, 0)] (.at 1)) = (.done, false) ∧
    (absNext [(0, 1, 0, 0), (1, 1, 0, 0)] .done) = (.done, false) := by decide

end Uniseg.Properties.C13
