import Uniseg.Spec.Width
import Uniseg.Properties.C05
import Uniseg.Proofs.ChainG
/-! # C06 — cluster and string widths equal the documented monospace width model

Quantifiers: every code point for the per-code-point part (`cpWidth_eq`: the two definitions are the
same case list, for every `r`); every cluster shape and every chain position for the composition. -/
namespace Uniseg.Properties.C06
open Uniseg Uniseg.Gen Uniseg.Chain Uniseg.Spec Uniseg.Properties

/-- per code point: `runeWidth` called with the code point's own grapheme class is the documented model -/
theorem cpWidth_eq (amb r : Nat) : runeWidth amb r (propertyGraphemes r) = cpWidth amb r := rfl

/-- the width updates of the cluster loops, folded over the code points after the first -/
def foldWidth (amb fp : Nat) (w : Nat) (rs : List Nat) : Nat :=
  rs.foldl (fun w r => widthStep amb fp w r (propertyGraphemes r)) w

/-- the fold is the documented composition rule -/
theorem foldWidth_spec (amb r0 : Nat) (rest : List Nat) :
    foldWidth amb (propertyGraphemes r0) (cpWidth amb r0) rest = clusterWidth amb (r0 :: rest) := by
  unfold clusterWidth foldWidth
  simp only
  by_cases h1 : (propertyGraphemes r0 == prExtendedPictographic) = true
  · have hfun : (fun w r => widthStep amb (propertyGraphemes r0) w r (propertyGraphemes r)) =
        (fun w r => if r == vs15 then 1 else if r == vs16 then 2 else w) := by
      funext w r; simp only [widthStep, h1, ↓reduceIte]
    simp only [h1, ↓reduceIte, hfun]
    generalize cpWidth amb r0 = w
    induction rest generalizing w with
    | nil => rfl
    | cons r rs ih => simp only [List.foldl_cons, lastVS]; exact ih _
  · simp only [h1, Bool.false_eq_true, ↓reduceIte]
    by_cases h2 : (propertyGraphemes r0 == prRegionalIndicator || propertyGraphemes r0 == prL) = true
    · have hne : (propertyGraphemes r0 != prRegionalIndicator && propertyGraphemes r0 != prL) = false := by
        simp only [Bool.or_eq_true, beq_iff_eq] at h2
        rcases h2 with h | h <;> simp [h]
      have hfun : (fun w r => widthStep amb (propertyGraphemes r0) w r (propertyGraphemes r)) = (fun w _ => w) := by
        funext w r; simp only [widthStep, h1, Bool.false_eq_true, ↓reduceIte, hne]
      simp only [h2, ↓reduceIte, hfun]
      generalize cpWidth amb r0 = w
      induction rest generalizing w with
      | nil => rfl
      | cons r rs ih => simp only [List.foldl_cons]; exact ih _
    · have hne : (propertyGraphemes r0 != prRegionalIndicator && propertyGraphemes r0 != prL) = true := by
        simp only [Bool.or_eq_true, beq_iff_eq, not_or] at h2
        simp [h2.1, h2.2]
      have hfun : (fun w r => widthStep amb (propertyGraphemes r0) w r (propertyGraphemes r)) =
          (fun w r => w + cpWidth amb r) := by
        funext w r; simp only [widthStep, h1, Bool.false_eq_true, ↓reduceIte, hne, cpWidth_eq]
      simp only [h2, Bool.false_eq_true, ↓reduceIte, hfun]
      generalize cpWidth amb r0 = w
      induction rest generalizing w with
      | nil => simp
      | cons r rs ih =>
        simp only [List.foldl_cons, List.map_cons, List.sum_cons]
        rw [ih]; omega

/-- the cluster loop accumulates exactly `foldWidth` over the code points it puts into the cluster -/
theorem gcLoop_width (amb fp : Nat) : ∀ (rest : List Rune) (state width : Nat),
    (gcLoop amb fp state width rest).2.1 =
      foldWidth amb fp width (runeVals (rest.take (gcLoop amb fp state width rest).1)) := by
  intro rest
  induction rest with
  | nil => intro _ _; rfl
  | cons r rest ih =>
    intro state width
    simp only [gcLoop]
    split
    · simp [foldWidth, runeVals]
    · cases rest with
      | nil => simp [foldWidth, runeVals, transitionGraphemeState]
      | cons r2 rest2 =>
        simp only
        rw [ih]
        simp [foldWidth, runeVals, transitionGraphemeState]

/-- the state carried into a call agrees with the text: its class field is the class of the first
code point (true for −1 and for every state returned by a previous call of the chain, `coherent_next`) -/
def Coherent (st : Option Nat) (rs : List Rune) : Prop :=
  ∀ s r rest, st = some s → rs = r :: rest → s >>> shiftGraphemePropState = propertyGraphemes r.1

/-- **One call.** From a coherent state, the reported width is the documented width of the cluster's
code points. -/
theorem cluster_width_eq_model (amb : Nat) (rs : List Rune) (st : Option Nat) (h : Coherent st rs) :
    (firstGraphemeClusterR amb rs st).2.1 = clusterWidth amb (runeVals (rs.take (firstGraphemeClusterR amb rs st).1)) := by
  cases rs with
  | nil => rfl
  | cons r rest =>
    have hfp : (match st with | none => (transitionGraphemeState none r.1).2.1 | some s => s >>> shiftGraphemePropState) =
        propertyGraphemes r.1 := by
      cases st with
      | none => rfl
      | some s => exact h s r rest rfl rfl
    cases rest with
    | nil =>
      cases st with
      | none =>
        simp only [firstGraphemeClusterR, runeVals, List.take_succ_cons, List.take_zero, List.map_cons, List.map_nil]
        rw [← foldWidth_spec]; rfl
      | some s =>
        have := h s r [] rfl rfl
        simp only [firstGraphemeClusterR, this, runeVals, List.take_succ_cons, List.take_zero, List.map_cons, List.map_nil]
        rw [← foldWidth_spec]; rfl
    | cons r2 rest2 =>
      cases st with
      | none =>
        simp only [firstGraphemeClusterR, List.take_succ_cons, runeVals, List.map_cons]
        rw [gcLoop_width, ← foldWidth_spec]
        rfl
      | some s =>
        have := h s r (r2 :: rest2) rfl rfl
        simp only [firstGraphemeClusterR, List.take_succ_cons, runeVals, List.map_cons, this]
        rw [gcLoop_width, ← foldWidth_spec]
        rfl

/-- the class field of a packed grapheme state -/
theorem unpack_prop (a p : Nat) (ha : a < 16) : (a ||| (p <<< shiftGraphemePropState)) >>> shiftGraphemePropState = p := by
  show (a ||| (p <<< 4)) >>> 4 = p
  rw [ChainStep.or_shift p a 4 (by omega), Nat.shiftRight_eq_div_pow]
  omega

/-- **Coherence is preserved along the chain**: a call that ends before the end of the text returns a
state whose class field is the class of the first code point of the rest -/
theorem gcLoop_coherent (amb fp : Nat) : ∀ (rest : List Rune) (state width : Nat),
    (gcLoop amb fp state width rest).1 < rest.length →
    Coherent (some (gcLoop amb fp state width rest).2.2) (rest.drop (gcLoop amb fp state width rest).1) := by
  intro rest
  induction rest with
  | nil => intro _ _ h; simp at h
  | cons r rest ih =>
    intro state width hlt
    simp only [gcLoop] at hlt ⊢
    split at hlt
    · rename_i hb
      simp only [hb, ↓reduceIte, List.drop_zero]
      intro s r' rest' hs hr
      cases hs; cases hr
      exact unpack_prop _ _ (Uniseg.ChainG.trans_state_lt _ _)
    · rename_i hb
      simp only [hb, Bool.false_eq_true, ↓reduceIte] at hlt ⊢
      cases rest with
      | nil => simp at hlt
      | cons r2 rest2 =>
        simp only [List.drop_succ_cons] at hlt ⊢
        exact ih _ _ (by simp only [List.length_cons] at hlt ⊢; omega)

theorem coherent_next (amb : Nat) (rs : List Rune) (st : Option Nat)
    (hlt : (firstGraphemeClusterR amb rs st).1 < rs.length) :
    Coherent (some (firstGraphemeClusterR amb rs st).2.2) (rs.drop (firstGraphemeClusterR amb rs st).1) := by
  cases rs with
  | nil => simp at hlt
  | cons r rest =>
    cases rest with
    | nil => simp [firstGraphemeClusterR] at hlt
    | cons r2 rest2 =>
      cases st with
      | none =>
        simp only [firstGraphemeClusterR] at hlt ⊢
        simp only [List.drop_succ_cons]
        exact gcLoop_coherent amb _ (r2 :: rest2) _ _ (by simp only [List.length_cons] at hlt ⊢; omega)
      | some s =>
        simp only [firstGraphemeClusterR] at hlt ⊢
        simp only [List.drop_succ_cons]
        exact gcLoop_coherent amb _ (r2 :: rest2) _ _ (by simp only [List.length_cons] at hlt ⊢; omega)

/-- **The whole chain.** Every cluster of the chain from −1 is reported with the documented width of
its code points — whether reached through chained states or segmented on its own (from −1). -/
def groupWidths (amb : Nat) : List Rune → List (Nat × Nat × Nat) → List Nat
  | _, [] => []
  | rs, x :: xs => clusterWidth amb (runeVals (rs.take x.1)) :: groupWidths amb (rs.drop x.1) xs

theorem chain_widths_eq (amb : Nat) : ∀ (fuel : Nat) (rs : List Rune) (st : Option Nat), Coherent st rs →
    (chainFuel (firstGraphemeClusterR amb) fuel rs st).map (·.2.1) =
      groupWidths amb rs (chainFuel (firstGraphemeClusterR amb) fuel rs st) := by
  intro fuel
  induction fuel with
  | zero => intro _ _ _; rfl
  | succ fuel ih =>
    intro rs st hc
    cases rs with
    | nil => rfl
    | cons r rest =>
      simp only [chainFuel, List.map_cons, groupWidths]
      rw [cluster_width_eq_model amb (r :: rest) st hc]
      congr 1
      by_cases hlt : (firstGraphemeClusterR amb (r :: rest) st).1 < (r :: rest).length
      · exact ih _ _ (coherent_next amb (r :: rest) st hlt)
      · have hle := (C05.grapheme_call amb (r :: rest) st (by simp)).2
        have hnil : (r :: rest).drop (firstGraphemeClusterR amb (r :: rest) st).1 = [] :=
          List.drop_eq_nil_of_le (by omega)
        rw [hnil]
        cases fuel <;> rfl

/-- `StringWidth(s)` is the sum of the cluster widths -/
theorem stringWidth_loop (amb : Nat) : ∀ (fuel : Nat) (s : List Nat) (st : Option Nat) (acc : Nat),
    stringWidthLoop amb fuel s st acc =
      acc + ((Uniseg.Bytes.chainBFuel (firstGraphemeClusterR amb) fuel s st).map (·.2.1)).sum := by
  intro fuel
  induction fuel with
  | zero => intro _ _ _; rfl
  | succ fuel ih =>
    intro s st acc
    cases s with
    | nil => rfl
    | cons x xs =>
      simp only [stringWidthLoop, List.isEmpty_cons, Bool.false_eq_true, ↓reduceIte, Uniseg.Bytes.chainBFuel, List.map_cons, List.sum_cons]
      rw [ih]
      simp only [firstGraphemeCluster, Uniseg.Bytes.wrap]
      omega

theorem stringWidth_eq_sum (amb : Nat) (s : List Nat) :
    stringWidth amb s = ((Uniseg.Bytes.chainBFuel (firstGraphemeClusterR amb) s.length s none).map (·.2.1)).sum := by
  unfold stringWidth
  rw [stringWidth_loop]; omega

/-- non-vacuity: a flag pair counts 2 (first code point only), an emoji + VS15 counts 1, "e" + acute 1 -/
example : clusterWidth 1 [0x1F1E9, 0x1F1EA] = 2 ∧ clusterWidth 1 [0x2764, 0xFE0E] = 1 ∧ clusterWidth 1 [0x65, 0x301] = 1 ∧
    clusterWidth 1 [0x4E16] = 2 := by
  refine ⟨by decide +kernel, by decide +kernel, by decide +kernel, by decide +kernel⟩

end Uniseg.Properties.C06
