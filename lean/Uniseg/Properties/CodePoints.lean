import Uniseg.Proofs.Bytes
/-! # texts of code points -/
namespace Uniseg.Properties
open Uniseg

/-- a list of code points (what Go calls valid runes, surrogates included) -/
def CodePoints (vals : List Nat) : Prop := ∀ r ∈ vals, r < 0x110000

/-- whatever the decoder returns is a code point -/
theorem decoded_codepoints (b : List Nat) : CodePoints (runeVals (Utf8.runesOf b)) := by
  intro v hv
  unfold runeVals at hv
  obtain ⟨r, hr, rfl⟩ := List.mem_map.mp hv
  have := Uniseg.Bytes.runesOf_scalar b.length b (Nat.le_refl _) r hr
  unfold Utf8.isScalar at this
  omega

end Uniseg.Properties
