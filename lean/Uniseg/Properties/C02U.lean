import Uniseg.Properties.C02
import Uniseg.Properties.CodePoints
import Uniseg.Class.G
import Uniseg.Class.W
/-! # C02 without side conditions -/
namespace Uniseg.Properties.C02U
open Uniseg Uniseg.Gen Uniseg.Ref Uniseg.Class Uniseg.Chain Uniseg.Spec Uniseg.Auto Uniseg.Properties

/-- the word letter of a code point, read off its reference row -/
def rowW (row : Row) : WbL := ⟨row.w, row.g == prExtendedPictographic⟩

theorem rows_letters : sig.all (fun row => decide (rowW row ∈ Cert.Word.cert.letters)) = true := by decide +kernel

theorem wbL_row (r : Nat) (row : Row) (hm : row ∈ sig) (h1 : row.lo ≤ r) (h2 : r ≤ row.hi) : wbL r = rowW row := by
  unfold wbL rowW; rw [w_class r row hm h1 h2, g_ep r row hm h1 h2]

theorem letter_ok (r : Nat) (hr : r < 0x110000) : wbL r ∈ Cert.Word.cert.letters := by
  obtain ⟨row, hm, h1, h2⟩ := row_exists r hr
  rw [wbL_row r row hm h1 h2]
  exact of_decide_eq_true (List.all_eq_true.mp rows_letters row hm)

theorem lettersOK (vals : List Nat) (h : CodePoints vals) : C02.LettersOK vals := fun r hr => letter_ok r (h r hr)

/-- **C02, verdicts**, every code-point string -/
theorem word_verdicts (vals : List Nat) (h : CodePoints vals) :
    ((runV transitionWordBreakState none vals).map (·.2)).tail = specW vals :=
  C02.word_verdicts_eq_wb vals (lettersOK vals h)

/-- **C02, segments**, every byte string -/
theorem word_segments (b : List Nat) :
    (chain firstWordR (Utf8.runesOf b) none).map (·.1) =
      match Utf8.runesOf b with
      | [] => []
      | _ :: _ => cuts id (specW (runeVals (Utf8.runesOf b))) 1 :=
  C02.word_segments_eq_wb b (lettersOK _ (decoded_codepoints b))


/-! ## stated over the reference classification alone -/

/-- how UAX #29 words see a code point, from the committed Unicode 15.0.0 reference data: Word_Break
and Extended_Pictographic (which the package keeps partly in the word table, partly in the grapheme
table) -/
def refW (r : Nat) : WB.Ch :=
  ⟨WB.ofProp (rowOf r).w, (rowOf r).w == prExtendedPictographic || (rowOf r).g == prExtendedPictographic⟩

theorem refW_eq (r : Nat) (hr : r < 0x110000) : wbLetter r = refW r := by
  obtain ⟨hm, h1, h2⟩ := rowOf_spec r hr
  unfold wbLetter refW
  simp only
  rw [w_class r _ hm h1 h2, g_ep r _ hm h1 h2]

theorem specW_ref (vals : List Nat) (h : CodePoints vals) : specW vals = interior WB.wbBreak [] (vals.map refW) := by
  unfold specW
  rw [List.map_congr_left (fun r hr => refW_eq r (h r hr))]

/-- **C02 in absolute terms** -/
theorem word_verdicts_ref (vals : List Nat) (h : CodePoints vals) :
    ((runV transitionWordBreakState none vals).map (·.2)).tail = interior WB.wbBreak [] (vals.map refW) := by
  rw [word_verdicts vals h, specW_ref vals h]

/-- C07 for words: code points with the same reference values are interchangeable, anywhere -/
theorem word_same_class (vals vals' : List Nat) (h : CodePoints vals) (h' : CodePoints vals')
    (hsame : vals.map refW = vals'.map refW) :
    ((runV transitionWordBreakState none vals).map (·.2)).tail = ((runV transitionWordBreakState none vals').map (·.2)).tail := by
  rw [word_verdicts_ref vals h, word_verdicts_ref vals' h', hsame]

end Uniseg.Properties.C02U
