import Uniseg.Cert.Line
import Uniseg.Proofs.Lift
/-! # C04 — line-break opportunities and mandatory breaks follow UAX #14 on every string

Quantifiers: every list of code points / every byte string, of any length; unbounded runs of
spaces and combining marks between the context a rule needs and the position it decides. -/
namespace Uniseg.Properties.C04
open Uniseg Uniseg.Gen Uniseg.Auto Uniseg.Chain Uniseg.Spec Uniseg.Lift

/-- every code point's letter (resolved class, East Asian F/W/H, Extended_Pictographic ∧ Cn) is in
the alphabet of the kernel-checked certificate -/
def LettersOK (vals : List Nat) : Prop := ∀ r ∈ vals, lbIn r ∈ Cert.Line.cert.letters

/-- **Verdicts.** Folding `transitionLineBreakState` left to right from state −1 gives, before every
code point but the first, exactly the three-valued verdict (×, ÷, !) of UAX #14. -/
theorem line_verdicts_eq_uax14 (vals : List Nat) (hL : LettersOK vals) :
    ((runV transitionLineBreakState none vals).map (fun t => lvOfNat t.2)).tail = specL vals := by
  have hmap : (runV transitionLineBreakState none vals).map (fun t => lvOfNat t.2) = (runV trL none vals).map (·.2) := by
    have := runV_map transitionLineBreakState lvOfNat none vals
    unfold trL
    rw [this, List.map_map]; rfl
  rw [hmap, runV_implRun algL lbIn trL transL_factor]
  have hw : ∀ x ∈ vals.map lbIn, x ∈ Cert.Line.cert.letters := by
    intro x hx
    obtain ⟨r, hr, rfl⟩ := List.mem_map.mp hx
    exact hL r hr
  rw [run_agree_start algL Cert.Line.cert Cert.Line.valid _ hw, lb_specRun]
  simp only [specL, List.map_map]
  rfl

theorem isB_lv (v : Nat) : (v != LineDontBreak) = (lvOfNat v != LB.V.no) := by
  unfold lvOfNat
  by_cases h : v = LineDontBreak
  · subst h; rfl
  · have h' : (v == LineDontBreak) = false := by simpa using h
    simp only [h', Bool.false_eq_true, ↓reduceIte, bne]
    split <;> simp [h]

/-- **Segments and mustBreak.** The chain of `FirstLineSegment`/`FirstLineSegmentInString` calls from
state −1 ends a segment exactly at the positions whose UAX #14 verdict is ÷ or !, and the verdict
that ends each segment is that verdict (`none` = end of text, where `mustBreak` is true by LB3). -/
theorem line_segments_eq_uax14 (b : List Nat) (hL : LettersOK (runeVals (Utf8.runesOf b))) :
    (chain firstLineR (Utf8.runesOf b) none).map (fun x => (x.1, x.2.1.map lvOfNat)) =
      match Utf8.runesOf b with
      | [] => []
      | _ :: _ => cutsV (fun v => v != LB.V.no) (specL (runeVals (Utf8.runesOf b))) 1 := by
  have h := chain_cuts transitionLineBreakState (fun v => v != LineDontBreak) lbAny (Utf8.runesOf b)
  have h2 := congrArg (List.map (fun (x : Nat × Option Nat) => (x.1, x.2.map lvOfNat))) h
  simp only [List.map_map] at h2
  unfold firstLineR
  refine Eq.trans ?_ (Eq.trans h2 ?_)
  · rfl
  · cases hrs : Utf8.runesOf b with
    | nil => rfl
    | cons r rest =>
      simp only
      rw [hrs] at hL
      rw [cutsV_map (fun v => v != LineDontBreak) (fun v => v != LB.V.no) lvOfNat isB_lv]
      rw [← line_verdicts_eq_uax14 _ hL, List.map_tail, List.map_tail, List.map_map]
      rfl

/-- `mustBreak` of `FirstLineSegment`: true at the end of the text and where the verdict is `!` -/
theorem mustBreak_iff (b : List Nat) (st : Option Nat) (hb : Utf8.runesOf b ≠ []) :
    (firstLineSegment b st).2.1 =
      match (firstLineR (Utf8.runesOf b) st).2.1 with
      | none => true
      | some v => lvOfNat v == LB.V.must := by
  unfold firstLineSegment
  cases hrs : Utf8.runesOf b with
  | nil => exact absurd hrs hb
  | cons r rest =>
    simp only
    cases (firstLineR (r :: rest) st).2.1 with
    | none => rfl
    | some v =>
      simp only [lvOfNat]
      by_cases h1 : v = LineMustBreak
      · subst h1; rfl
      · have h1' : (v == LineMustBreak) = false := by simpa using h1
        simp only [h1', Bool.false_eq_true, ↓reduceIte]
        split <;> rfl

/-- non-vacuity: "a -1" (÷ after the space, × before the digit), "a\n-1" (! after LF),
an emoji modifier sequence followed by text, `( ́一` -/
example : LettersOK [0x61, 0x20, 0x2D, 0x31, 0x0A, 0x1F44D, 0x1F3FD, 0x28, 0x301, 0x4E00, 0x1F02C, 0x25, 0x29, 0x3099] ∧
    specL [0x61, 0x20, 0x2D, 0x31] = [.no, .can, .no] ∧
    specL [0x61, 0x0A, 0x2D, 0x31] = [.no, .must, .no] ∧
    specL [0x1F44D, 0x1F3FD, 0x20, 0x74] = [.no, .no, .can] := by
  refine ⟨?_, ?_, ?_, ?_⟩
  · intro r hr
    simp only [List.mem_cons, List.not_mem_nil, or_false] at hr
    rcases hr with rfl | rfl | rfl | rfl | rfl | rfl | rfl | rfl | rfl | rfl | rfl | rfl | rfl | rfl <;> decide +kernel
  · decide +kernel
  · decide +kernel
  · decide +kernel

end Uniseg.Properties.C04
