import Uniseg.Proofs.ChainStep
import Uniseg.Gen.Facts
/-! # C15 — EastAsianAmbiguousWidth changes only the width of Ambiguous code points

`amb` is the value of the configuration variable; in the model it is an explicit parameter of
exactly the functions that can reach `runeWidth` (that nothing else reads the variable, and nothing
writes it, is the regenerated read/write fact checked by this property's "facts" obligation).

* The four segmentation functions for words, sentences and lines do not take `amb` at all.
* For clusters: the cluster, the new state and (for `Step`) the boundary flags are the same for every
  `amb`, and the width is affine in `amb`:  `width k = width 0 + k · (width 1 − width 0)`, i.e.
  `width k = width 1 + (k − 1) · n` with `n = width 1 − width 0` the number of East-Asian-Ambiguous code
  points of the cluster that the width model counts. -/
namespace Uniseg.Properties.C15
open Uniseg Uniseg.Gen Uniseg.Chain Uniseg.ChainStep

/-- three widths (under 0, 1 and k) lie on a line -/
def Affine (k w0 w1 wk : Nat) : Prop := w0 ≤ w1 ∧ wk = w0 + k * (w1 - w0)

theorem affine_const (k c : Nat) : Affine k c c c := ⟨Nat.le_refl _, by simp⟩

theorem affine_add (k a0 a1 ak b0 b1 bk : Nat) (ha : Affine k a0 a1 ak) (hb : Affine k b0 b1 bk) :
    Affine k (a0 + b0) (a1 + b1) (ak + bk) := by
  obtain ⟨h1, h2⟩ := ha
  obtain ⟨h3, h4⟩ := hb
  refine ⟨by omega, ?_⟩
  rw [h2, h4]
  have : a1 + b1 - (a0 + b0) = (a1 - a0) + (b1 - b0) := by omega
  rw [this, Nat.mul_add]; omega

/-- the one branch of `runeWidth` that reads the variable: none of the earlier cases applies and the
East Asian Width is Ambiguous -/
def ambBranch (r p : Nat) : Bool :=
  !(p == prControl || p == prCR || p == prLF || p == prExtend || p == prZWJ) && !(p == prRegionalIndicator) &&
  !(p == prExtendedPictographic) && !(r == 0x2E3A) && !(r == 0x2E3B) &&
  !(propertyEastAsianWidth r == prW || propertyEastAsianWidth r == prF) && propertyEastAsianWidth r == prA

/-- **one code point**: `runeWidth` is `amb` in exactly one branch and does not depend on it otherwise -/
theorem runeWidth_amb (k r p : Nat) : runeWidth k r p = if ambBranch r p then k else runeWidth 0 r p := by
  unfold runeWidth ambBranch
  by_cases h1 : (p == prControl || p == prCR || p == prLF || p == prExtend || p == prZWJ) = true
  · simp [h1]
  · by_cases h2 : (p == prRegionalIndicator) = true
    · simp [h1, h2]
    · by_cases h3 : (p == prExtendedPictographic) = true
      · simp [h1, h2, h3]
      · by_cases h4 : (r == 0x2E3A) = true
        · simp [h1, h2, h3, h4]
        · by_cases h5 : (r == 0x2E3B) = true
          · simp [h1, h2, h3, h4, h5]
          · by_cases h6 : (propertyEastAsianWidth r == prW || propertyEastAsianWidth r == prF) = true
            · simp [h1, h2, h3, h4, h5, h6]
            · by_cases h7 : (propertyEastAsianWidth r == prA) = true
              · simp [h1, h2, h3, h4, h5, h6, h7]
              · simp [h1, h2, h3, h4, h5, h6, h7]

theorem runeWidth_affine (k r p : Nat) : Affine k (runeWidth 0 r p) (runeWidth 1 r p) (runeWidth k r p) := by
  rw [runeWidth_amb k, runeWidth_amb 1]
  cases hb : ambBranch r p with
  | false => exact affine_const k _
  | true =>
    have h0 : runeWidth 0 r p = 0 := by rw [runeWidth_amb 0, hb]; rfl
    simp only [↓reduceIte, h0]
    exact ⟨by omega, by simp⟩

theorem widthStep_affine (k fp w0 w1 wk r p : Nat) (h : Affine k w0 w1 wk) :
    Affine k (widthStep 0 fp w0 r p) (widthStep 1 fp w1 r p) (widthStep k fp wk r p) := by
  unfold widthStep
  repeat' split
  all_goals first | exact affine_const k _ | exact h | exact affine_add k _ _ _ _ _ _ h (runeWidth_affine k r p)

/-- the cluster loop: same count and state for every `amb`, affine width -/
theorem gcLoop_amb (k fp : Nat) : ∀ (rest : List Rune) (state w0 w1 wk : Nat), Affine k w0 w1 wk →
    (gcLoop k fp state wk rest).1 = (gcLoop 1 fp state w1 rest).1 ∧
    (gcLoop 0 fp state w0 rest).1 = (gcLoop 1 fp state w1 rest).1 ∧
    (gcLoop k fp state wk rest).2.2 = (gcLoop 1 fp state w1 rest).2.2 ∧
    (gcLoop 0 fp state w0 rest).2.2 = (gcLoop 1 fp state w1 rest).2.2 ∧
    Affine k (gcLoop 0 fp state w0 rest).2.1 (gcLoop 1 fp state w1 rest).2.1 (gcLoop k fp state wk rest).2.1 := by
  intro rest
  induction rest with
  | nil => intro state w0 w1 wk h; exact ⟨rfl, rfl, rfl, rfl, h⟩
  | cons r rest ih =>
    intro state w0 w1 wk h
    simp only [gcLoop]
    split
    · exact ⟨rfl, rfl, rfl, rfl, h⟩
    · have hw := widthStep_affine k fp w0 w1 wk r.1 (transitionGraphemeState (some (state &&& maskGraphemeState)) r.1).2.1 h
      cases rest with
      | nil => exact ⟨rfl, rfl, rfl, rfl, hw⟩
      | cons r2 rest2 =>
        obtain ⟨i1, i2, i3, i4, i5⟩ := ih (transitionGraphemeState (some (state &&& maskGraphemeState)) r.1).1 _ _ _ hw
        simp only
        exact ⟨by rw [i1], by rw [i2], i3, i4, i5⟩

/-- **`FirstGraphemeCluster(InString)`**: cluster and new state do not depend on `amb`; the width is
affine in `amb` -/
theorem firstGraphemeCluster_amb (k : Nat) (rs : List Rune) (st : Option Nat) :
    (firstGraphemeClusterR k rs st).1 = (firstGraphemeClusterR 1 rs st).1 ∧
    (firstGraphemeClusterR k rs st).2.2 = (firstGraphemeClusterR 1 rs st).2.2 ∧
    Affine k (firstGraphemeClusterR 0 rs st).2.1 (firstGraphemeClusterR 1 rs st).2.1 (firstGraphemeClusterR k rs st).2.1 := by
  cases rs with
  | nil => exact ⟨rfl, rfl, affine_const k 0⟩
  | cons r rest =>
    cases rest with
    | nil => exact ⟨rfl, rfl, runeWidth_affine k _ _⟩
    | cons r2 rest2 =>
      cases st with
      | none =>
        obtain ⟨i1, _, i3, _, i5⟩ := gcLoop_amb k (transitionGraphemeState none r.1).2.1 (r2 :: rest2)
          (transitionGraphemeState none r.1).1 _ _ _ (runeWidth_affine k r.1 (transitionGraphemeState none r.1).2.1)
        simp only [firstGraphemeClusterR]
        exact ⟨by rw [i1], i3, i5⟩
      | some s =>
        obtain ⟨i1, _, i3, _, i5⟩ := gcLoop_amb k (s >>> shiftGraphemePropState) (r2 :: rest2) s _ _ _
          (runeWidth_affine k r.1 (s >>> shiftGraphemePropState))
        simp only [firstGraphemeClusterR]
        exact ⟨by rw [i1], i3, i5⟩

/-- the whole chain of clusters (lengths and states) is the same for every `amb`: segmentation is
independent of the setting, and restoring the default restores all results (the model has no other
state) -/
theorem grapheme_chain_amb (k : Nat) : ∀ (fuel : Nat) (rs : List Rune) (st : Option Nat),
    (chainFuel (firstGraphemeClusterR k) fuel rs st).map (fun x => (x.1, x.2.2)) =
      (chainFuel (firstGraphemeClusterR 1) fuel rs st).map (fun x => (x.1, x.2.2)) := by
  intro fuel
  induction fuel with
  | zero => intro _ _; rfl
  | succ fuel ih =>
    intro rs st
    cases rs with
    | nil => rfl
    | cons r rest =>
      obtain ⟨h1, h2, _⟩ := firstGraphemeCluster_amb k (r :: rest) st
      simp only [chainFuel, List.map_cons, h1, h2]
      rw [ih]

/-- **`Step`/`StepString`**: cluster length and new state do not depend on `amb` -/
theorem stepLoop_amb (k fp : Nat) : ∀ (rest : List Rune) (x : StepSt) (wk w1 : Nat),
    (stepLoop k fp x wk rest).1 = (stepLoop 1 fp x w1 rest).1 ∧
    (stepLoop k fp x wk rest).2.2 = (stepLoop 1 fp x w1 rest).2.2 := by
  intro rest
  induction rest with
  | nil => intro _ _ _; exact ⟨rfl, rfl⟩
  | cons r rest ih =>
    intro x wk w1
    simp only [stepLoop]
    split
    · exact ⟨rfl, rfl⟩
    · cases rest with
      | nil => exact ⟨rfl, rfl⟩
      | cons r2 rest2 =>
        obtain ⟨i1, i2⟩ := ih ⟨(transitionGraphemeState (some x.g) r.1).1, (transitionWordBreakState (some x.w) r.1 (runeVals (r2 :: rest2))).1,
          (transitionSentenceBreakState (some x.s) r.1 (runeVals (r2 :: rest2))).1,
          (transitionLineBreakState (some x.l) r.1 (runeVals (r2 :: rest2))).1⟩
          (widthStep k fp wk r.1 (transitionGraphemeState (some x.g) r.1).2.1)
          (widthStep 1 fp w1 r.1 (transitionGraphemeState (some x.g) r.1).2.1)
        simp only
        exact ⟨by rw [i1], i2⟩

theorem step_amb (isString : Bool) (k : Nat) (rs : List Rune) (st : Option Nat) :
    (stepR isString k rs st).1 = (stepR isString 1 rs st).1 ∧
    (stepR isString k rs st).2.2 = (stepR isString 1 rs st).2.2 := by
  cases rs with
  | nil => exact ⟨rfl, rfl⟩
  | cons r rest =>
    cases rest with
    | nil => cases isString <;> exact ⟨rfl, rfl⟩
    | cons r2 rest2 =>
      cases st with
      | none =>
        obtain ⟨i1, i2⟩ := stepLoop_amb k (transitionGraphemeState none r.1).2.1 (r2 :: rest2)
          (trStep none r.1 (runeVals (r2 :: rest2))).1 (runeWidth k r.1 (transitionGraphemeState none r.1).2.1)
          (runeWidth 1 r.1 (transitionGraphemeState none r.1).2.1)
        simp only [stepR]
        simp only [trStep, Option.map_none] at i1 i2
        exact ⟨by rw [i1], i2⟩
      | some s =>
        obtain ⟨i1, i2⟩ := stepLoop_amb k (s >>> shiftPropState) (r2 :: rest2) (decS s)
          (runeWidth k r.1 (s >>> shiftPropState)) (runeWidth 1 r.1 (s >>> shiftPropState))
        simp only [stepR]
        simp only [decS] at i1 i2
        exact ⟨by rw [i1], i2⟩

/-- the boundary flags of `Step` (line verdict, word and sentence bits) are those of the lock-step
run, which does not involve `amb` at all (`ChainStep.step_isFirstCut_flags` holds for every `amb`
with the same right-hand side) -/
theorem step_flags_amb (isString : Bool) (k : Nat) (rs : List Rune) :
    (chain (stepR isString k) rs none).map (fun x => (x.1, flagsOf x.2.1)) =
      (chain (stepR isString 1) rs none).map (fun x => (x.1, flagsOf x.2.1)) := by
  rw [gen_chainV trStep isBStep (stepR isString k) decS flagsOf flagsHv (step_isFirstCut_flags isString k),
      gen_chainV trStep isBStep (stepR isString 1) decS flagsOf flagsHv (step_isFirstCut_flags isString 1)]

/-- **facts (regenerated from /repo)**: the configuration variable is read by `runeWidth` only, no
function writes it or takes its address — which is why `amb` is a parameter of exactly the functions
that can reach `runeWidth` and of nothing else in the model -/
theorem config_only_read_in_runeWidth :
    (Uniseg.Gen.fnFacts.all fun f =>
      (!f.globalsRead.contains "EastAsianAmbiguousWidth" || f.name == "runeWidth") &&
      !f.globalsWritten.contains "EastAsianAmbiguousWidth" && !f.globalsAddrTaken.contains "EastAsianAmbiguousWidth") = true := by
  decide +kernel

/-- non-vacuity: U+00A1 (Ambiguous) has width `amb`; "a" has width 1 whatever `amb` is -/
example : runeWidth 7 0xA1 (propertyGraphemes 0xA1) = 7 ∧ runeWidth 7 0x61 (propertyGraphemes 0x61) = 1 ∧
    Affine 7 0 1 7 := by
  refine ⟨by decide +kernel, by decide +kernel, ⟨by decide, by decide⟩⟩

end Uniseg.Properties.C15
