import Uniseg.Gen.CallGraph
/-! # C17 — the functional API never allocates

**Model.** The call graph of the package as compiled into the harness binary (`go tool objdump`,
regenerated on every run): for every function, its direct callees (inlined callees have vanished into
their callers, their own calls remain visible) and the number of indirect call sites.

* `stack_stays_reachable` (generic): every call stack of an execution that starts in function `f`
  and only makes calls the graph lists stays inside the set reachable from `f`.
* `functional_api_reaches_no_allocator` (decided by the kernel on the regenerated graph): from none
  of the functions C17 names is an allocating runtime entry point reachable, and none of the
  functions reachable from them contains an indirect call (whose target the graph would not show).

Only runtime calls on this allow-list may be reached: stack growth (`morestack`), bounds-check
panics (never taken: C05/C10), `deferprocStack`/`deferreturn` (stack-allocated defer record of the
one deferred closure), `memequal`, `memmove`. Trusted: objdump's listing, the allow-list, the
compiler (escape analysis is a property of the binary that was inspected). The check also measures
`testing.AllocsPerRun` on generated inputs as the search for a counterexample. -/
namespace Uniseg.Properties.C17
open Uniseg.Gen

def callees (f : String) : List String := (callEdges.lookup f).getD []

/-- reachable set by bounded iteration (the graph has fewer nodes than the fuel) -/
def reachStep (seen : List String) : List String :=
  seen.foldl (fun acc f => (callees f).foldl (fun a t => if a.contains t then a else a ++ [t]) acc) seen

def reach : Nat → List String → List String
  | 0, seen => seen
  | n + 1, seen => reach n (reachStep seen)

def functionalAPI : List String :=
  ["FirstGraphemeCluster", "FirstGraphemeClusterInString", "FirstWord", "FirstWordInString",
   "FirstSentence", "FirstSentenceInString", "FirstLineSegment", "FirstLineSegmentInString",
   "Step", "StepString", "StringWidth", "GraphemeClusterCount", "HasTrailingLineBreak", "HasTrailingLineBreakInString"]

/-- callees outside the package that are known not to allocate -/
def allowedExternal (t : String) : Bool :=
  ["unicode/utf8.DecodeRune", "unicode/utf8.DecodeRuneInString", "unicode/utf8.DecodeLastRune", "unicode/utf8.DecodeLastRuneInString",
   "runtime.morestack_noctxt.abi0", "runtime.morestack.abi0", "runtime.panicIndex", "runtime.panicSliceB", "runtime.panicSliceAlen",
   "runtime.panicSliceAcap", "runtime.panicSliceBU", "runtime.panicSliceAlenU", "runtime.panicSliceAcapU", "runtime.panicIndexU",
   "runtime.panicdivide", "runtime.deferprocStack", "runtime.deferreturn", "runtime.memequal", "runtime.memmove",
   "runtime.panicSlice3Alen", "runtime.panicSlice3C", "runtime.duffzero", "runtime.duffcopy", "runtime.memclrNoHeapPointers"].contains t

def inPackage (t : String) : Bool := (callEdges.lookup t).isSome

/-- everything reachable is either a function of the package (whose own callees are in the closure)
or an allow-listed non-allocating external; no reachable package function has an indirect call site -/
def apiOK : Bool :=
  let r := reach 12 functionalAPI
  decide (reachStep r = r) &&                         -- the iteration reached its fixed point
  functionalAPI.all inPackage &&                      -- every API function is present in the binary
  r.all (fun t => inPackage t || allowedExternal t) &&
  r.all (fun t => (indirectCallSites.lookup t).getD 0 == 0)

/-- **no allocation site is reachable from the functional API** in the inspected binary -/
theorem functional_api_reaches_no_allocator : apiOK = true := by decide +kernel

/-- generic: a set closed under `callees` contains every function on any call stack that starts
inside it (induction on the stack) -/
theorem stack_stays_reachable (R : List String) (hclosed : ∀ f ∈ R, ∀ t ∈ callees f, t ∈ R) :
    ∀ (stack : List String), (∀ f, stack.getLast? = some f → f ∈ R) →
      (∀ i, (h : i + 1 < stack.length) → stack[i]'(by omega) ∈ callees (stack[i + 1]'h)) →
      ∀ f ∈ stack, f ∈ R := by
  intro stack
  induction stack with
  | nil => intro _ _ f hf; cases hf
  | cons top rest ih =>
    intro hbot hcalls f hf
    cases rest with
    | nil =>
      rcases List.mem_cons.mp hf with rfl | h
      · exact hbot _ rfl
      · cases h
    | cons caller rest' =>
      have hrest : ∀ g ∈ caller :: rest', g ∈ R := by
        apply ih
        · intro g hg; exact hbot g (by simpa [List.getLast?_cons_cons] using hg)
        · intro i hi
          have := hcalls (i + 1) (by simp only [List.length_cons] at hi ⊢; omega)
          simpa using this
      rcases List.mem_cons.mp hf with rfl | h
      · have hc := hcalls 0 (by simp)
        simp only [List.getElem_cons_zero, List.getElem_cons_succ] at hc
        exact hclosed caller (hrest caller (List.mem_cons_self ..)) _ hc
      · exact hrest f h

/-- `ReverseString`, `Graphemes.Runes/Bytes` and `NewGraphemes` are documented to allocate: the graph
shows it (non-vacuity: the allow-list does reject allocators) -/
example : allowedExternal "runtime.makeslice" = false ∧ allowedExternal "runtime.newobject" = false ∧
    ((callees "ReverseString").contains "runtime.makeslice") = true := by
  refine ⟨by decide, by decide, by decide +kernel⟩

end Uniseg.Properties.C17
