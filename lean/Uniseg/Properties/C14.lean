import Uniseg.Properties.C05
/-! # C14 — cluster count and ReverseString agree with the cluster sequence

`clusters s` is the list of clusters `FirstGraphemeClusterInString` yields when rest and state are fed
back from −1 (each as its bytes). Quantifier: every byte string (ill-formed bytes included: they are
carried through as part of their cluster's bytes). -/
namespace Uniseg.Properties.C14
open Uniseg Uniseg.Gen Uniseg.Utf8 Uniseg.Chain

/-- the clusters of `s` from state `st`, as byte lists -/
def clustersFrom : Nat → List Nat → Option Nat → List (List Nat)
  | 0, _, _ => []
  | fuel + 1, s, st =>
    match s with
    | [] => []
    | _ :: _ =>
      let res := firstGraphemeCluster 1 s st
      s.take res.1 :: clustersFrom fuel (s.drop res.1) (some res.2.2)

def clusters (s : List Nat) : List (List Nat) := clustersFrom s.length s none

theorem fg_bounds (s : List Nat) (st : Option Nat) (h : s ≠ []) :
    1 ≤ (firstGraphemeCluster 1 s st).1 ∧ (firstGraphemeCluster 1 s st).1 ≤ s.length :=
  ⟨(C05.firstGraphemeCluster_len 1 s st h).1, (C05.firstGraphemeCluster_len 1 s st h).2.1⟩

/-- the clusters are non-empty and their concatenation is the input, byte for byte -/
theorem clusters_flatten : ∀ (fuel : Nat) (s : List Nat) (st : Option Nat), s.length ≤ fuel →
    (clustersFrom fuel s st).flatten = s ∧ ∀ c ∈ clustersFrom fuel s st, c ≠ [] := by
  intro fuel
  induction fuel with
  | zero =>
    intro s st h
    have : s = [] := List.eq_nil_of_length_eq_zero (by omega)
    subst this
    exact ⟨rfl, fun c hc => by cases hc⟩
  | succ fuel ih =>
    intro s st h
    cases hs : s with
    | nil => exact ⟨rfl, fun c hc => by cases hc⟩
    | cons x xs =>
      obtain ⟨h1, h2⟩ := fg_bounds (x :: xs) st (by simp)
      obtain ⟨i1, i2⟩ := ih ((x :: xs).drop (firstGraphemeCluster 1 (x :: xs) st).1) (some (firstGraphemeCluster 1 (x :: xs) st).2.2)
        (by rw [hs] at h; simp only [List.length_drop, List.length_cons] at h ⊢; omega)
      simp only [clustersFrom, List.flatten_cons, i1, List.take_append_drop, true_and]
      intro c hc
      rcases List.mem_cons.mp hc with rfl | hc'
      · intro h0
        have := congrArg List.length h0
        simp only [List.length_take, List.length_nil, List.length_cons] at this h2
        omega
      · exact i2 c hc'

/-- **Count.** `GraphemeClusterCount(s)` is the number of clusters. -/
theorem count_loop : ∀ (fuel : Nat) (s : List Nat) (st : Option Nat) (n : Nat),
    clusterCountLoop fuel s st n = n + (clustersFrom fuel s st).length := by
  intro fuel
  induction fuel with
  | zero => intro s st n; rfl
  | succ fuel ih =>
    intro s st n
    cases s with
    | nil => rfl
    | cons x xs =>
      simp only [clusterCountLoop, List.isEmpty_cons, Bool.false_eq_true, ↓reduceIte, clustersFrom, List.length_cons]
      rw [ih]; omega

theorem count_eq_clusters (s : List Nat) : graphemeClusterCount s = (clusters s).length := by
  unfold graphemeClusterCount clusters
  rw [count_loop]; omega

/-- the count is 0 exactly for the empty string -/
theorem count_zero_iff (s : List Nat) : graphemeClusterCount s = 0 ↔ s = [] := by
  rw [count_eq_clusters]
  constructor
  · intro h
    cases s with
    | nil => rfl
    | cons x xs => simp [clusters, clustersFrom] at h
  · intro h; subst h; rfl

/-- every cluster holds at least one byte, so there are at most `len s` clusters (and, clusters
being made of whole decoded runes — C05 —, at most as many as code points) -/
theorem count_le_len (s : List Nat) : graphemeClusterCount s ≤ s.length := by
  rw [count_eq_clusters]
  obtain ⟨h1, h2⟩ := clusters_flatten s.length s none (Nat.le_refl _)
  have : ∀ (l : List (List Nat)), (∀ c ∈ l, c ≠ []) → l.length ≤ l.flatten.length := by
    intro l
    induction l with
    | nil => intro _; simp
    | cons c l ih =>
      intro h
      have hc : c ≠ [] := h c (List.mem_cons_self ..)
      have hl : 1 ≤ c.length := by
        cases c with
        | nil => exact absurd rfl hc
        | cons _ _ => simp
      have := ih (fun d hd => h d (List.mem_cons_of_mem _ hd))
      simp only [List.length_cons, List.flatten_cons, List.length_append]; omega
  have := this (clusters s) h2
  unfold clusters at this ⊢
  rw [h1] at this
  exact this

/-- **Reverse.** The loop of `ReverseString`: the early exit `index <= len(str)/2` can only fire when
the rest is empty (`index = len(rest)` is an invariant), so the whole text is processed. -/
theorem reverse_loop : ∀ (fuel : Nat) (str : List Nat) (st : Option Nat) (index : Nat) (acc : List Nat),
    index = str.length → str.length ≤ fuel →
    reverseLoop fuel str st index acc = (0, (clustersFrom fuel str st).reverse.flatten ++ acc) := by
  intro fuel
  induction fuel with
  | zero =>
    intro str st index acc hi hf
    have : str = [] := List.eq_nil_of_length_eq_zero (by omega)
    subst this
    simp [reverseLoop, clustersFrom, hi]
  | succ fuel ih =>
    intro str st index acc hi hf
    cases hs : str with
    | nil => subst hs; simp [reverseLoop, clustersFrom, hi]
    | cons x xs =>
      obtain ⟨h1, h2⟩ := fg_bounds (x :: xs) st (by simp)
      rw [hs] at hi hf
      have hlen : ((x :: xs).take (firstGraphemeCluster 1 (x :: xs) st).1).length = (firstGraphemeCluster 1 (x :: xs) st).1 := by
        simp only [List.length_take]; omega
      have hidx : index - ((x :: xs).take (firstGraphemeCluster 1 (x :: xs) st).1).length =
          ((x :: xs).drop (firstGraphemeCluster 1 (x :: xs) st).1).length := by
        rw [hlen, hi]; simp only [List.length_drop]
      simp only [reverseLoop, List.isEmpty_cons, Bool.false_eq_true, ↓reduceIte, clustersFrom, List.reverse_cons,
        List.flatten_append, List.flatten_cons, List.flatten_nil, List.append_nil, List.append_assoc]
      rw [hidx]
      by_cases hz : ((x :: xs).drop (firstGraphemeCluster 1 (x :: xs) st).1).length ≤
          ((x :: xs).drop (firstGraphemeCluster 1 (x :: xs) st).1).length / 2
      · have h0 : ((x :: xs).drop (firstGraphemeCluster 1 (x :: xs) st).1).length = 0 := by omega
        have hnil : (x :: xs).drop (firstGraphemeCluster 1 (x :: xs) st).1 = [] := List.eq_nil_of_length_eq_zero h0
        rw [if_pos hz, hnil]
        have : clustersFrom fuel [] (some (firstGraphemeCluster 1 (x :: xs) st).2.2) = [] := by cases fuel <;> rfl
        rw [this]
        simp
      · rw [if_neg hz]
        rw [ih _ _ _ _ rfl (by simp only [List.length_drop, List.length_cons] at hf ⊢; omega)]

/-- **`ReverseString(s)` is the concatenation of the clusters in reverse order**: same length, every
cluster's bytes intact and contiguous, first cluster last -/
theorem reverse_eq_clusters_reversed (s : List Nat) : reverseString s = (clusters s).reverse.flatten := by
  unfold reverseString clusters
  rw [reverse_loop s.length s none s.length [] rfl (Nat.le_refl _)]
  simp

theorem reverse_length (s : List Nat) : (reverseString s).length = s.length := by
  rw [reverse_eq_clusters_reversed]
  have h := (clusters_flatten s.length s none (Nat.le_refl _)).1
  have : ∀ l : List (List Nat), l.reverse.flatten.length = l.flatten.length := by
    intro l
    induction l with
    | nil => rfl
    | cons c l ih => simp only [List.reverse_cons, List.flatten_append, List.flatten_cons, List.flatten_nil,
        List.append_nil, List.length_append, ih]; omega
  unfold clusters
  rw [this, h]

/-- non-vacuity: the count of a single ASCII letter is 1 and its reverse is itself -/
example : graphemeClusterCount [0x61] = 1 ∧ reverseString [0x61] = [0x61] := by
  refine ⟨?_, ?_⟩
  · rw [count_eq_clusters]; simp [clusters, clustersFrom]
  · rw [reverse_eq_clusters_reversed]
    simp [clusters, clustersFrom, firstGraphemeCluster, firstGraphemeClusterR, segBytes, runesOf, decodeRune, sizeSum]

end Uniseg.Properties.C14
