import Uniseg.Properties.C04
import Uniseg.Properties.C08
/-! # C12 — hard line breaks, end-of-text flags and CR LF are treated consistently -/
namespace Uniseg.Properties.C12
open Uniseg Uniseg.Gen Uniseg.Auto Uniseg.Chain Uniseg.Spec Uniseg.ChainStep

/-! ## CR LF is never split: in every annex the CR × LF rule comes first -/

theorem gb_cr_lf (ls rs : List Nat) : GB.gbBreak (prCR :: ls) (prLF :: rs) = false := by
  simp [GB.gbBreak]
theorem wb_cr_lf (a b : Bool) (ls rs : List WB.Ch) : WB.wbBreak (⟨.cr, a⟩ :: ls) (⟨.lf, b⟩ :: rs) = false := by
  simp [WB.wbBreak]
theorem sb_cr_lf (ls rs : List SB.C) : SB.sbBreak (.cr :: ls) (.lf :: rs) = false := by
  simp [SB.sbBreak]
theorem lb_cr_lf (a b c d : Bool) (ls rs : List LB.Ch) : LB.lbVerdict (⟨.CR, a, b⟩ :: ls) (⟨.LF, c, d⟩ :: rs) = .no := by
  simp [LB.lbVerdict]

/-- the letters of U+000D and U+000A really are CR and LF in all four tables (kernel-evaluated on the
regenerated tables), so with C01–C04 (implementation = annex at every position) no segmenter reports a
boundary between a CR and a directly following LF -/
theorem cr_lf_letters :
    gbLetter 0x0D = prCR ∧ gbLetter 0x0A = prLF ∧ (wbLetter 0x0D).cls = .cr ∧ (wbLetter 0x0A).cls = .lf ∧
    sbLetter 0x0D = .cr ∧ sbLetter 0x0A = .lf ∧ (lbLetter 0x0D).cls = .CR ∧ (lbLetter 0x0A).cls = .LF := by
  decide +kernel

/-! ## mandatory breaks -/

/-- UAX #14 requires a break (`!`) exactly at the end of the text and after BK, CR (not followed by
LF), LF, NL -/
theorem must_iff (l : LB.Ch) (ls : List LB.Ch) (right : List LB.Ch) :
    LB.lbVerdict (l :: ls) right = .must ↔
      right = [] ∨ (l.cls = .BK ∨ l.cls = .LF ∨ l.cls = .NL ∨ (l.cls = .CR ∧ ¬ ∃ r rs, right = r :: rs ∧ r.cls = .LF)) := by
  cases right with
  | nil => simp [LB.lbVerdict]
  | cons r rs =>
    simp only [List.cons_ne_nil, false_or, LB.lbVerdict]
    by_cases h1 : l.cls = .BK
    · simp [h1]
    · by_cases h2 : l.cls = .CR
      · by_cases h3 : r.cls = .LF
        · simp [h2, h3]
        · simp [h2, h3]
      · by_cases h4 : l.cls = .LF
        · simp [h4]
        · by_cases h5 : l.cls = .NL
          · simp [h5]
          · have e1 : (l.cls == LB.C.BK) = false := by simpa using h1
            have e2 : (l.cls == LB.C.CR) = false := by simpa using h2
            have e3 : (l.cls == LB.C.LF) = false := by simpa using h4
            have e4 : (l.cls == LB.C.NL) = false := by simpa using h5
            simp only [e1, e2, e3, e4, Bool.false_and, Bool.or_self, Bool.false_eq_true, ↓reduceIte, h1, h2, h4, h5,
              false_and, or_self, iff_false]
            split <;> (intro h; cases h)

/-! ## end of text -/

/-- the last line segment has `mustBreak = true` (LB3), whatever the text ends with -/
theorem last_segment_must (b : List Nat) (st : Option Nat) (h : Utf8.runesOf b ≠ [])
    (hend : (firstLineR (Utf8.runesOf b) st).2.1 = none) : (firstLineSegment b st).2.1 = true := by
  rw [C04.mustBreak_iff b st h, hend]

/-- the last `Step` cluster carries the word, sentence and LineMustBreak flags -/
theorem last_cluster_flags (width : Nat) : flagsOf (endBoundaries width) = (LineMustBreak, true, true) := flags_end width

/-- in the chain, the verdict that ends the last segment is "end of text": `cutsV` ends with `none` -/
theorem cutsV_last {V : Type} (isB : V → Bool) : ∀ (vs : List V) (acc : Nat), ((cutsV isB vs acc).getLast?.map (·.2)) = some none := by
  intro vs
  induction vs with
  | nil => intro acc; rfl
  | cons v vs ih =>
    intro acc
    simp only [cutsV]
    split
    · have := ih 1
      cases h : cutsV isB vs 1 with
      | nil => rw [h] at this; cases this
      | cons a as => rw [List.getLast?_cons_cons]; rw [h] at this; exact this
    · exact ih (acc + 1)

end Uniseg.Properties.C12
