import Uniseg.Properties.C04
import Uniseg.Properties.C08
import Uniseg.Class.L
import Uniseg.Proofs.Utf8Last
/-! # C12 — hard line breaks, end-of-text flags and CR LF are treated consistently -/
namespace Uniseg.Properties.C12
open Uniseg Uniseg.Gen Uniseg.Auto Uniseg.Chain Uniseg.Spec Uniseg.ChainStep Uniseg.Ref Uniseg.Class

/-! ## CR LF is never split: in every annex the CR × LF rule comes first -/

theorem gb_cr_lf (ls rs : List Nat) : GB.gbBreak (prCR :: ls) (prLF :: rs) = false := by
  simp [GB.gbBreak]
theorem wb_cr_lf (a b : Bool) (ls rs : List WB.Ch) : WB.wbBreak (⟨.cr, a⟩ :: ls) (⟨.lf, b⟩ :: rs) = false := by
  simp [WB.wbBreak]
theorem sb_cr_lf (ls rs : List SB.C) : SB.sbBreak (.cr :: ls) (.lf :: rs) = false := by
  simp [SB.sbBreak]
theorem lb_cr_lf (a b c d : Bool) (ls rs : List LB.Ch) : LB.lbVerdict (⟨.CR, a, b⟩ :: ls) (⟨.LF, c, d⟩ :: rs) = .no := by
  simp [LB.lbVerdict]

/-- the letters of U+000D and U+000A really are CR and LF in all four tables (kernel-evaluated on the
regenerated tables), so with C01–C04 (implementation = annex at every position) no segmenter reports a
boundary between a CR and a directly following LF -/
theorem cr_lf_letters :
    gbLetter 0x0D = prCR ∧ gbLetter 0x0A = prLF ∧ (wbLetter 0x0D).cls = .cr ∧ (wbLetter 0x0A).cls = .lf ∧
    sbLetter 0x0D = .cr ∧ sbLetter 0x0A = .lf ∧ (lbLetter 0x0D).cls = .CR ∧ (lbLetter 0x0A).cls = .LF := by
  decide +kernel

/-! ## mandatory breaks -/

/-- UAX #14 requires a break (`!`) exactly at the end of the text and after BK, CR (not followed by
LF), LF, NL -/
theorem must_iff (l : LB.Ch) (ls : List LB.Ch) (right : List LB.Ch) :
    LB.lbVerdict (l :: ls) right = .must ↔
      right = [] ∨ (l.cls = .BK ∨ l.cls = .LF ∨ l.cls = .NL ∨ (l.cls = .CR ∧ ¬ ∃ r rs, right = r :: rs ∧ r.cls = .LF)) := by
  cases right with
  | nil => simp [LB.lbVerdict]
  | cons r rs =>
    simp only [List.cons_ne_nil, false_or, LB.lbVerdict]
    by_cases h1 : l.cls = .BK
    · simp [h1]
    · by_cases h2 : l.cls = .CR
      · by_cases h3 : r.cls = .LF
        · simp [h2, h3]
        · simp [h2, h3]
      · by_cases h4 : l.cls = .LF
        · simp [h4]
        · by_cases h5 : l.cls = .NL
          · simp [h5]
          · have e1 : (l.cls == LB.C.BK) = false := by simpa using h1
            have e2 : (l.cls == LB.C.CR) = false := by simpa using h2
            have e3 : (l.cls == LB.C.LF) = false := by simpa using h4
            have e4 : (l.cls == LB.C.NL) = false := by simpa using h5
            simp only [e1, e2, e3, e4, Bool.false_and, Bool.or_self, Bool.false_eq_true, ↓reduceIte, h1, h2, h4, h5,
              false_and, or_self, iff_false]
            split <;> (intro h; cases h)

/-- at a position that is not the end of the text and where a break is allowed or required, the break
is required iff the code point before it is BK, CR, LF or NL — i.e. iff `HasTrailingLineBreak` holds
of the segment that ends there (`hasTrailingLineBreak_iff` below; a CR directly followed by LF is
never such a position, by LB5) -/
theorem nonfinal_must_iff (l : LB.Ch) (ls : List LB.Ch) (r : LB.Ch) (rs : List LB.Ch)
    (hb : LB.lbVerdict (l :: ls) (r :: rs) ≠ .no) :
    LB.lbVerdict (l :: ls) (r :: rs) = .must ↔ (l.cls = .BK ∨ l.cls = .CR ∨ l.cls = .LF ∨ l.cls = .NL) := by
  rw [must_iff]
  constructor
  · rintro (h | h | h | h | ⟨h, _⟩)
    · cases h
    · exact Or.inl h
    · exact Or.inr (Or.inr (Or.inl h))
    · exact Or.inr (Or.inr (Or.inr h))
    · exact Or.inr (Or.inl h)
  · rintro (h | h | h | h)
    · exact Or.inr (Or.inl h)
    · refine Or.inr (Or.inr (Or.inr (Or.inr ⟨h, ?_⟩)))
      rintro ⟨r', rs', he, hlf⟩
      cases he
      apply hb
      obtain ⟨lc, la, lp⟩ := l
      obtain ⟨rc, ra, rp⟩ := r
      simp only at h hlf
      subst h; subst hlf
      exact lb_cr_lf _ _ _ _ _ _
    · exact Or.inr (Or.inr (Or.inl h))
    · exact Or.inr (Or.inr (Or.inr (Or.inl h)))

/-! ## end of text -/

/-- the last line segment has `mustBreak = true` (LB3), whatever the text ends with -/
theorem last_segment_must (b : List Nat) (st : Option Nat) (h : Utf8.runesOf b ≠ [])
    (hend : (firstLineR (Utf8.runesOf b) st).2.1 = none) : (firstLineSegment b st).2.1 = true := by
  rw [C04.mustBreak_iff b st h, hend]

/-- the last `Step` cluster carries the word, sentence and LineMustBreak flags -/
theorem last_cluster_flags (width : Nat) : flagsOf (endBoundaries width) = (LineMustBreak, true, true) := flags_end width

/-- in the chain, the verdict that ends the last segment is "end of text": `cutsV` ends with `none` -/
theorem cutsV_last {V : Type} (isB : V → Bool) : ∀ (vs : List V) (acc : Nat), ((cutsV isB vs acc).getLast?.map (·.2)) = some none := by
  intro vs
  induction vs with
  | nil => intro acc; rfl
  | cons v vs ih =>
    intro acc
    simp only [cutsV]
    split
    · have := ih 1
      cases h : cutsV isB vs 1 with
      | nil => rw [h] at this; cases this
      | cons a as => rw [List.getLast?_cons_cons]; rw [h] at this; exact this
    · exact ih (acc + 1)


/-! ## `HasTrailingLineBreak` is a predicate on the last code point

`HasTrailingLineBreak(InString)` returns true iff the last code point (as `utf8.DecodeLastRune`
returns it: U+FFFD for a trailing ill-formed byte, nothing for the empty input) is one of
U+000A … U+000D, U+0085, U+2028, U+2029. For every byte string, from the classification of every code
point by the line table (`Class.l_class`) and a kernel check of the reference rows. -/

/-- the seven code points of the property -/
def hardSet (r : Nat) : Bool := (0xA ≤ r && r ≤ 0xD) || r == 0x85 || (0x2028 ≤ r && r ≤ 0x2029)

/-- a reference row is either inside the set and of class BK/CR/LF/NL, or disjoint from it and of
another class -/
def rowHard (row : Row) : Bool :=
  if isHardBreak row.l then
    (0xA ≤ row.lo && row.hi ≤ 0xD) || (row.lo == 0x85 && row.hi == 0x85) || (0x2028 ≤ row.lo && row.hi ≤ 0x2029)
  else
    (row.hi < 0xA || 0xD < row.lo) && (row.hi < 0x85 || 0x85 < row.lo) && (row.hi < 0x2028 || 0x2029 < row.lo)

theorem rows_hard : sig.all rowHard = true := by decide +kernel

/-- for every code point: the class is BK, CR, LF or NL iff the code point is one of the seven -/
theorem hard_iff (r : Nat) (hr : r < 0x110000) : isHardBreak (propertyLineBreak r).1 = hardSet r := by
  obtain ⟨row, hm, h1, h2⟩ := row_exists r hr
  have hrow := List.all_eq_true.mp rows_hard row hm
  rw [(l_class r row hm h1 h2).1]
  unfold rowHard at hrow
  unfold hardSet
  split at hrow
  · rename_i hh
    rw [hh]
    simp only [Bool.or_eq_true, Bool.and_eq_true, decide_eq_true_eq, beq_iff_eq] at hrow
    symm
    simp only [Bool.or_eq_true, Bool.and_eq_true, decide_eq_true_eq, beq_iff_eq]
    omega
  · rename_i hh
    have : isHardBreak row.l = false := by simpa using hh
    rw [this]
    simp only [Bool.or_eq_true, Bool.and_eq_true, decide_eq_true_eq] at hrow
    symm
    apply Bool.eq_false_iff.mpr
    simp only [ne_eq, Bool.or_eq_true, Bool.and_eq_true, decide_eq_true_eq, beq_iff_eq]
    omega

/-- **C12, first sentence**: for every byte string -/
theorem hasTrailingLineBreak_iff (b : List Nat) :
    hasTrailingLineBreak b = hardSet (Utf8.decodeLastRune b).1 := by
  unfold hasTrailingLineBreak
  exact hard_iff _ (Utf8.decodeLast_lt b)

/-- … and what `DecodeLastRune` returns is the last rune of the forward decoding (`Utf8Last`), so:
`HasTrailingLineBreak` is true iff the text is non-empty and its last code point — as every loop of the
package decodes it — is one of the seven -/
theorem hasTrailingLineBreak_last (b : List Nat) :
    hasTrailingLineBreak b = match (Utf8.runesOf b).getLast? with
      | none => false
      | some r => hardSet r.1 := by
  by_cases hb : b = []
  · subst hb; rw [Bytes.runesOf_nil, hasTrailingLineBreak_iff]; rfl
  · rw [Utf8Last.decodeLast_eq_last b hb, hasTrailingLineBreak_iff]

/-! ## `mustBreak` of a non-final segment = `HasTrailingLineBreak(segment)` -/

/-- the verdict at interior position `j+1` of a letter string -/
theorem interior_getElem? {α β : Type} (f : List α → List α → β) : ∀ (w left : List α) (j : Nat), j + 1 < left.length + w.length →
    left ≠ [] → j < w.length →
    (interior f left w)[j]? = some (f ((w.take j).reverse ++ left) (w.drop j)) := by
  intro w
  induction w with
  | nil => intro left j _ _ hj; simp at hj
  | cons c rest ih =>
    intro left j hlen hl hj
    cases left with
    | nil => exact absurd rfl hl
    | cons l ls =>
      simp only [interior, List.singleton_append]
      cases j with
      | zero => simp
      | succ j =>
        simp only [List.getElem?_cons_succ, List.take_succ_cons, List.reverse_cons, List.drop_succ_cons, List.append_assoc,
          List.singleton_append]
        exact ih (c :: l :: ls) j (by simp only [List.length_cons] at hlen ⊢; omega) (by simp) (by simpa using hj)

/-- the class of a code point is BK, CR, LF or NL iff the line table says so (LB1 resolution leaves
these four alone); the general category matters to `lbResolve` only as far as `bucket` keeps it -/
theorem hard_cls : ∀ p, p < 256 → [gcMn, gcMc, gcCn, 0].all (fun gc =>
    (LB.ofProp (lbResolve p gc) == LB.C.BK || LB.ofProp (lbResolve p gc) == LB.C.CR ||
     LB.ofProp (lbResolve p gc) == LB.C.LF || LB.ofProp (lbResolve p gc) == LB.C.NL) == isHardBreak p) = true :=
  Lift.forall_lt_of_all 256 _ (by decide +kernel)

theorem bucket_mem (gc : Nat) : bucket gc ∈ [gcMn, gcMc, gcCn, 0] := by
  unfold bucket
  split
  · rename_i h
    simp only [Bool.or_eq_true, beq_iff_eq] at h
    rcases h with (h | h) | h <;> simp [h]
  · simp

theorem lbLetter_hard (r : Nat) (hr : r < 0x110000) :
    ((lbLetter r).cls = .BK ∨ (lbLetter r).cls = .CR ∨ (lbLetter r).cls = .LF ∨ (lbLetter r).cls = .NL) ↔ hardSet r = true := by
  rw [← hard_iff r hr]
  have h1 : (propertyLineBreak r).1 < 256 := by
    unfold propertyLineBreak
    repeat' split
    all_goals first | decide | exact Lift.eProp_lt _
  have h := List.all_eq_true.mp (hard_cls _ h1) _ (bucket_mem (propertyLineBreak r).2)
  simp only [beq_iff_eq] at h
  rw [lbResolve_bucket] at h
  have hcls : (lbLetter r).cls = LB.ofProp (lbResolve (propertyLineBreak r).1 (propertyLineBreak r).2) := rfl
  rw [hcls, ← h]
  simp only [Bool.or_eq_true, beq_iff_eq, or_assoc]

/-- **at every interior position where the line run allows or requires a break, the break is
required iff the code point before it is one of the seven** — i.e. iff `HasTrailingLineBreak` holds of
the segment ending there (`hasTrailingLineBreak_last`; the segment's bytes decode to its runes,
`Bytes.cut_bytes`). With `C04U.line_segments` (segments end exactly at these positions and report
this verdict) this is "every non-final line segment has mustBreak = HasTrailingLineBreak(segment)". -/
theorem nonfinal_must_eq_trailing (vals : List Nat) (hcp : ∀ r ∈ vals, r < 0x110000) (j : Nat) (hj : j + 1 < vals.length)
    (v : LB.V) (hv : (specL vals)[j]? = some v) (hb : v ≠ .no) :
    v = .must ↔ hardSet (vals.getD j 0) = true := by
  unfold specL at hv
  -- interior position j+1: left = first j+1 letters reversed, right = the rest
  cases hvals : vals with
  | nil => rw [hvals] at hj; simp at hj
  | cons r0 rest =>
    rw [hvals] at hv hj hcp
    simp only [List.map_cons, interior, List.nil_append] at hv
    have hlen : j < (rest.map lbLetter).length := by simp only [List.length_map, List.length_cons] at hj ⊢; omega
    rw [interior_getElem? LB.lbVerdict (rest.map lbLetter) [lbLetter r0] j (by simp only [List.length_cons, List.length_nil]; omega) (by simp) hlen] at hv
    cases hv
    -- the right context is non-empty, the left context's head is the letter of `vals[j]`
    have hdrop : ∃ y ys, (rest.map lbLetter).drop j = y :: ys := by
      cases h : (rest.map lbLetter).drop j with
      | nil =>
        have := congrArg List.length h
        simp only [List.length_drop, List.length_nil] at this; omega
      | cons y ys => exact ⟨y, ys, rfl⟩
    obtain ⟨y, ys, hy⟩ := hdrop
    have hleft : ∃ ls, ((rest.map lbLetter).take j).reverse ++ [lbLetter r0] = lbLetter ((r0 :: rest).getD j 0) :: ls := by
      cases j with
      | zero => exact ⟨[], by simp⟩
      | succ j =>
        have hj' : j < rest.length := by simp only [List.length_cons] at hj; omega
        refine ⟨((rest.map lbLetter).take j).reverse ++ [lbLetter r0], ?_⟩
        rw [List.take_add_one]
        simp only [List.getElem?_map, List.getElem?_eq_getElem hj', Option.map_some, Option.toList_some, List.reverse_append,
          List.reverse_cons, List.reverse_nil, List.nil_append, List.singleton_append, List.cons_append,
          List.getD_eq_getElem?_getD, List.getElem?_cons_succ, Option.getD_some]
    obtain ⟨ls, hls⟩ := hleft
    rw [hls, hy] at hb ⊢
    rw [nonfinal_must_iff _ _ _ _ hb]
    have hr : (r0 :: rest).getD j 0 < 0x110000 := by
      have : (r0 :: rest).getD j 0 ∈ r0 :: rest := by
        rw [List.getD_eq_getElem?_getD, List.getElem?_eq_getElem (by simp only [List.length_cons] at hj ⊢; omega)]
        exact List.getElem_mem _
      exact hcp _ this
    exact lbLetter_hard _ hr

/-- the empty input: no last code point, result false -/
example : hasTrailingLineBreak [] = false := by decide +kernel
/-- a trailing ill-formed byte is U+FFFD, result false -/
example : hasTrailingLineBreak [0x0A, 0xC3] = false ∧ Utf8.decodeLastRune [0x0A, 0xC3] = (0xFFFD, 1) := by decide +kernel
example : hasTrailingLineBreak [0x61, 0xE2, 0x80, 0xA9] = true := by decide +kernel

end Uniseg.Properties.C12
