import Uniseg.Gen.Facts
/-! # C16 — all functions are safe and deterministic under concurrent use

**Effect model.** A thread has private state `P` (its arguments, locals, results and — for the
iterator — the fields of its own `Graphemes` value, which C16 assumes distinct per goroutine); the
package has a shared store `S` (the six tables and the configuration variable). A step may read `S`
and read/write the thread's private state; it cannot write `S`.

* `interleaving_eq_solo` (generic, induction on the schedule): under *any* schedule of *any*
  number of threads, every thread's outputs are exactly its outputs when run alone.
* `package_is_read_only` (decided by the kernel on the facts regenerated from `/repo` on every run):
  no function of the package writes a package-level variable, takes the address of one, stores
  through a parameter (other than its receiver), starts a goroutine, uses a channel, or makes an
  indirect call; the package imports only `unicode/utf8` and `fmt`; callees outside the package are
  on the allow-list of pure standard-library functions and builtins. This is what makes the step
  shape above the right model of the code.

What a theorem cannot exhibit: the Go memory model (data-race-free ⇒ sequentially consistent) and
the absence of races inside the allow-listed standard-library functions; the check therefore also
runs a stress harness under the race detector as the search for a counterexample. -/
namespace Uniseg.Properties.C16
open Uniseg.Gen

/-! ## generic: read-only shared store ⇒ every interleaving equals the solo runs -/

section Generic
variable {S P A O : Type} (step : S → P → A → P × O)

/-- a thread running alone -/
def solo (s : S) : P → List A → List O
  | _, [] => []
  | p, a :: as => (step s p a).2 :: solo s (step s p a).1 as

/-- all threads under a schedule: each entry says which thread performs which action next -/
def interleaved (s : S) : (Nat → P) → List (Nat × A) → List (Nat × O)
  | _, [] => []
  | ps, (t, a) :: rest =>
    (t, (step s (ps t) a).2) :: interleaved s (fun u => if u = t then (step s (ps t) a).1 else ps u) rest

/-- the actions / outputs of thread `t` in a schedule / trace -/
def proj {X : Type} (t : Nat) : List (Nat × X) → List X
  | [] => []
  | (u, x) :: rest => if u = t then x :: proj t rest else proj t rest

/-- **any interleaving = sequential execution**, for every thread, any number of threads, any schedule -/
theorem interleaving_eq_solo (s : S) : ∀ (sched : List (Nat × A)) (ps : Nat → P) (t : Nat),
    proj t (interleaved step s ps sched) = solo step s (ps t) (proj t sched) := by
  intro sched
  induction sched with
  | nil => intro _ _; rfl
  | cons e rest ih =>
    intro ps t
    obtain ⟨u, a⟩ := e
    simp only [interleaved, proj]
    by_cases h : u = t
    · subst h
      simp only [↓reduceIte, solo]
      rw [ih]
      simp
    · simp only [h, ↓reduceIte]
      rw [ih]
      have : (if t = u then (step s (ps u) a).1 else ps t) = ps t := by
        have : ¬ t = u := fun e => h e.symm
        simp [this]
      rw [this]
end Generic

/-! ## instantiation obligation, decided on the regenerated facts -/

/-- callees outside the package that are assumed pure (no hidden mutable state) -/
def pureExternal : List String :=
  ["unicode/utf8.DecodeRune", "unicode/utf8.DecodeRuneInString", "unicode/utf8.DecodeLastRune",
   "unicode/utf8.DecodeLastRuneInString", "fmt.Sprintf",
   "builtin.len", "builtin.copy", "builtin.make", "builtin.cap", "builtin.append",
   "conv.[]byte", "conv.[]rune", "conv.string", "conv.uint64", "conv.int", "conv.rune", "conv.int64"]

def fnOK (f : FnFact) : Bool :=
  f.globalsWritten.isEmpty && f.globalsAddrTaken.isEmpty && f.storesThroughParams.isEmpty &&
  !f.usesGo && !f.usesChan && f.indirectCalls == 0 && f.externalCallees.all (pureExternal.contains ·)

def importsOK : Bool := imports.all (["unicode/utf8", "fmt"].contains ·)

/-- the only package-level variables are the six tables and the one configuration variable -/
def globalsOK : Bool :=
  globals.all (fun g => g.2 == "table" || (g.2 == "config" && g.1 == "EastAsianAmbiguousWidth"))

/-- **the package keeps no hidden mutable state** -/
theorem package_is_read_only : (fnFacts.all fnOK && importsOK && globalsOK) = true := by decide +kernel

/-- C15's fact: the configuration variable is read by `runeWidth` only -/
theorem config_read_only_in_runeWidth :
    (fnFacts.all fun f => !f.globalsRead.contains "EastAsianAmbiguousWidth" || f.name == "runeWidth") = true := by
  decide +kernel

/-- non-vacuity: the fact list is not empty and contains the functional API -/
example : (fnFacts.any fun f => f.name == "FirstLineSegmentInString") = true ∧ (fnFacts.any fun f => f.name == "runeWidth") = true := by
  refine ⟨by decide +kernel, by decide +kernel⟩

end Uniseg.Properties.C16
