import Uniseg.Proofs.ChainStep
import Uniseg.Proofs.ChainG
import Uniseg.Proofs.StepWidth
import Uniseg.Properties.C06
/-! # C08 — Step reports exactly what the four specialised functions report

Quantifiers: every byte string, every cluster position in the chain of `Step`/`StepString` calls
from state −1, every value of `EastAsianAmbiguousWidth`. -/
namespace Uniseg.Properties.C08
open Uniseg Uniseg.Gen Uniseg.Chain Uniseg.ChainG Uniseg.ChainStep

/-- **Packing.** The four sub-states and the class of the next code point survive the round trip
through the packed `int` state (shifts and masks as regenerated from step.go), whenever the
sub-states are in the ranges the transition functions guarantee (`Range`). -/
theorem pack_roundtrip (x : StepSt) (p : Nat) (h : WFS x) :
    decS (packStep x p) = x ∧ packStep x p >>> shiftPropState = p := unpack_pack x p h

/-- the transition functions keep every sub-state in its bit field, from any well-formed state -/
theorem substates_in_range (st : Option StepSt) (hst : ∀ x, st = some x → WFS x) (r : Nat) (rest : List Nat) :
    WFS (trStep st r rest).1 := trStep_wf st hst r rest

/-! ## lock step: the components of Step's run are the four specialised runs -/

theorem lockstep_word : ∀ (vals : List Nat) (st : Option StepSt),
    (runV trStep st vals).map (fun t => (t.1.w, t.2.2.1)) = runV transitionWordBreakState (st.map (·.w)) vals := by
  intro vals
  induction vals with
  | nil => intro _; rfl
  | cons r rest ih => intro st; simp only [runV, List.map_cons, trStep]; rw [ih]; rfl

theorem lockstep_sentence : ∀ (vals : List Nat) (st : Option StepSt),
    (runV trStep st vals).map (fun t => (t.1.s, t.2.2.2.1)) = runV transitionSentenceBreakState (st.map (·.s)) vals := by
  intro vals
  induction vals with
  | nil => intro _; rfl
  | cons r rest ih => intro st; simp only [runV, List.map_cons, trStep]; rw [ih]; rfl

theorem lockstep_line : ∀ (vals : List Nat) (st : Option StepSt),
    (runV trStep st vals).map (fun t => (t.1.l, t.2.2.2.2.1)) = runV transitionLineBreakState (st.map (·.l)) vals := by
  intro vals
  induction vals with
  | nil => intro _; rfl
  | cons r rest ih => intro st; simp only [runV, List.map_cons, trStep]; rw [ih]; rfl

/-- the grapheme component is the run `FirstGraphemeCluster` makes (which masks its carried state) -/
theorem lockstep_grapheme : ∀ (vals : List Nat) (st : Option StepSt), (∀ x, st = some x → x.g < 16) →
    (runV trStep st vals).map (fun t => (t.1.g, t.2.1)) = runV trGm (st.map (·.g)) vals := by
  intro vals
  induction vals with
  | nil => intro _ _; rfl
  | cons r rest ih =>
    intro st hst
    have hm : (st.map (·.g)).map (· &&& maskGraphemeState) = st.map (·.g) := by
      cases st with
      | none => rfl
      | some x =>
        simp only [Option.map_some]
        have := hst x rfl
        congr 1
        show x.g &&& 15 = x.g
        rw [show (15 : Nat) = 2 ^ 4 - 1 from rfl, Nat.and_two_pow_sub_one_eq_mod]; omega
    simp only [runV, List.map_cons, trStep, trGm, hm]
    rw [ih _ (by intro x hx; cases hx; exact Range.transG_lt _ _)]
    rfl

/-- **Clusters and flags.** The chain of `Step`/`StepString` calls from −1 yields, for every cluster,
its length and — decoded from `boundaries` with `MaskLine`, `MaskWord`, `MaskSentence` — the line
verdict, word-boundary and sentence-boundary verdicts that the lock-step run of the four transition
functions has at the cluster's end; at the end of the text: (LineMustBreak, true, true).
By the lock-step lemmas these verdicts are those of `FirstLineSegment`, `FirstWord` and
`FirstSentence`'s own runs at that offset (C02–C04 identify them with the annexes). -/
theorem step_chain (isString : Bool) (amb : Nat) (rs : List Rune) :
    (chain (stepR isString amb) rs none).map (fun x => (x.1, flagsOf x.2.1)) =
      match rs with
      | [] => []
      | _ :: _ => (cutsV isBStep ((runV trStep none (runeVals rs)).tail.map (·.2)) 1).map (fun p => (p.1, flagsHv p.2)) :=
  gen_chainV trStep isBStep (stepR isString amb) decS flagsOf flagsHv (step_isFirstCut_flags isString amb) rs

theorem cuts_map_isB {V : Type} (isB : V → Bool) (vs : List V) (acc : Nat) : cuts isB vs acc = cuts id (vs.map isB) acc := by
  have := cutsV_map isB id isB (fun _ => rfl) vs acc
  have h2 := congrArg (List.map (·.1)) this
  simp only [List.map_map] at h2
  unfold cuts
  rw [← h2]
  rfl

/-- **Same clusters.** `Step`/`StepString` cut a text into exactly the clusters of
`FirstGraphemeCluster`: boundaries of the other segmenters that fall inside a cluster are the only
ones Step omits. -/
theorem step_clusters_eq_fg (isString : Bool) (amb : Nat) (rs : List Rune) :
    (chain (stepR isString amb) rs none).map (·.1) = (chain (firstGraphemeClusterR amb) rs none).map (·.1) := by
  rw [gen_chain trStep isBStep _ decS _ _ (step_isFirstCut isString amb), gen_chain trGm id _ decG _ _ (fg_isFirstCut amb)]
  cases rs with
  | nil => rfl
  | cons r rest =>
    simp only
    rw [cuts_map_isB]
    have h := lockstep_grapheme (runeVals (r :: rest)) none (by intro x hx; cases hx)
    have h2 := congrArg (fun l => (l.map (·.2)).tail) h
    simp only [List.map_map, Option.map_none] at h2
    rw [List.map_tail, List.map_tail, List.map_map]
    have h3 : (List.map (isBStep ∘ fun x => x.2) (runV trStep none (runeVals (r :: rest)))) =
        List.map ((fun x => x.2) ∘ fun t => (t.1.g, t.2.1)) (runV trStep none (runeVals (r :: rest))) := rfl
    rw [h3, h2, List.map_tail]


/-- **Same widths.** Call by call, the chain of `Step`/`StepString` calls from −1 reports the cluster
length and — decoded from `boundaries` with `>> ShiftWidth` — the width that the chain of
`FirstGraphemeCluster` calls reports (relational induction over the two chains; the carried states
stay related by `StepWidth.RelSG`, which includes the coherence of the class field that makes
`StepString`'s early return agree). -/
theorem step_widths_eq_fg (isString : Bool) (amb : Nat) (rs : List Rune) :
    (chain (stepR isString amb) rs none).map (fun x => (x.1, x.2.1 >>> ShiftWidth)) =
      (chain (firstGraphemeClusterR amb) rs none).map (fun x => (x.1, x.2.1)) :=
  StepWidth.chains_rel isString amb rs.length rs none none (Or.inr (Or.inl ⟨rfl, rfl⟩))

/-- hence every cluster `Step` yields carries the documented width of its code points (C06's model) -/
theorem step_widths_eq_model (isString : Bool) (amb : Nat) (rs : List Rune) :
    (chain (stepR isString amb) rs none).map (fun x => x.2.1 >>> ShiftWidth) =
      C06.groupWidths amb rs (chain (firstGraphemeClusterR amb) rs none) := by
  have h := congrArg (List.map (·.2)) (step_widths_eq_fg isString amb rs)
  simp only [List.map_map] at h
  have h2 := C06.chain_widths_eq amb rs.length rs none (by intro s r rest hs; cases hs)
  unfold chain at h ⊢
  rw [← h2]
  exact h

/-- non-vacuity: a flag (two Regional Indicators, width 2) then "e" + U+0301 (width 1) -/
example : (chain (stepR true 1) [(0x1F1E9, 4), (0x1F1EA, 4), (0x65, 1), (0x301, 2)] none).map
    (fun x => (x.1, x.2.1 >>> ShiftWidth)) = [(2, 2), (2, 1)] := by decide +kernel

/-- non-vacuity of the packing hypothesis: a concrete well-formed state -/
example : WFS ⟨grExtendedPictographicZWJ, wbALetter ||| wbZWJBit, sbSB8aSp, lbNUCP ||| lbCPeaFWHBit⟩ ∧
    decS (packStep ⟨8, 22, 11, 165⟩ 15) = ⟨8, 22, 11, 165⟩ := by
  refine ⟨⟨by decide, by decide, by decide, by decide⟩, by decide⟩

end Uniseg.Properties.C08
