import Uniseg.Impl.Transitions
/-! # Hand model of width.go, the ten `First*`/`Step*` loops, `StringWidth`, `GraphemeClusterCount`,
`ReverseString`, `HasTrailingLineBreak(InString)` and the `Graphemes` iterator.

The loops are written over the decoded rune list `Utf8.runesOf b` (pairs `(rune, size)`), in the
order and with the tests of the Go text; byte offsets are sums of sizes. The condition
`len(b) <= length` of the Go loops is "no rune is left", because sizes are ≥ 1 and add up to
`len(b)` (`Utf8.sizeSum_runesOf`). A result is `(number of runes in the segment, …)`; the
byte-level wrappers convert it to the segment's byte length, so that `segment = b.take n`,
`rest = b.drop n`. `amb` is the value of `EastAsianAmbiguousWidth`. -/
namespace Uniseg
open Uniseg.Gen

abbrev Rune := Nat × Nat   -- (code point, encoded size)

def runeVals (rs : List Rune) : List Nat := rs.map (·.1)

/-- `runeWidth(r, graphemeProperty)` -/
def runeWidth (amb : Nat) (r prop : Nat) : Nat :=
  if prop == prControl || prop == prCR || prop == prLF || prop == prExtend || prop == prZWJ then 0
  else if prop == prRegionalIndicator then 2
  else if prop == prExtendedPictographic then
    (if property emojiTable r == prEmojiPresentation then 2 else 1)
  else if r == 0x2E3A then 3
  else if r == 0x2E3B then 4
  else
    let ea := propertyEastAsianWidth r
    if ea == prW || ea == prF then 2
    else if ea == prA then amb
    else 1

/-- the width update inside the cluster loops -/
def widthStep (amb firstProp width r prop : Nat) : Nat :=
  if firstProp == prExtendedPictographic then
    (if r == vs15 then 1 else if r == vs16 then 2 else width)
  else if firstProp != prRegionalIndicator && firstProp != prL then width + runeWidth amb r prop
  else width

/-! ## FirstWord / FirstSentence / FirstLineSegment (one shape) -/

section Seg
variable {V : Type} (tr : Option Nat → Nat → List Nat → Nat × V) (isB : V → Bool) (endState : Nat)

/-- the `for { … }` loop; `rs` are the runes not yet consumed.
Returns (further runes consumed, verdict at the cut or `none` at the end of the text, new state). -/
def segLoop (state : Nat) : List Rune → Nat × Option V × Nat
  | [] => (0, none, endState)
  | r :: rest =>
    let t := tr (some state) r.1 (runeVals rest)
    if isB t.2 then (0, some t.2, t.1)
    else
      let res := segLoop t.1 rest
      (res.1 + 1, res.2.1, res.2.2)

/-- `FirstX(b, state)` on the rune list: (runes in the segment, verdict / `none` = end, new state) -/
def firstSeg (rs : List Rune) (st : Option Nat) : Nat × Option V × Nat :=
  match rs with
  | [] => (0, none, 0)
  | r :: rest =>
    match rest with
    | [] => (1, none, endState)
    | _ :: _ =>
      let state := match st with
        | none => (tr none r.1 (runeVals rest)).1
        | some s => s
      let res := segLoop tr isB endState state rest
      (res.1 + 1, res.2.1, res.2.2)
end Seg

def firstWordR := firstSeg transitionWordBreakState id wbAny
def firstSentenceR := firstSeg transitionSentenceBreakState id sbAny
def firstLineR := firstSeg transitionLineBreakState (fun v => v != LineDontBreak) lbAny

def segBytes (rs : List Rune) (n : Nat) : Nat := Utf8.sizeSum (rs.take n)

/-- `FirstWord` / `FirstWordInString`: (segment length in bytes, newState) -/
def firstWord (b : List Nat) (st : Option Nat) : Nat × Nat :=
  let rs := Utf8.runesOf b
  let res := firstWordR rs st
  (segBytes rs res.1, res.2.2)

def firstSentence (b : List Nat) (st : Option Nat) : Nat × Nat :=
  let rs := Utf8.runesOf b
  let res := firstSentenceR rs st
  (segBytes rs res.1, res.2.2)

/-- `FirstLineSegment(InString)`: (segment length, mustBreak, newState) -/
def firstLineSegment (b : List Nat) (st : Option Nat) : Nat × Bool × Nat :=
  let rs := Utf8.runesOf b
  let res := firstLineR rs st
  let must := match rs, res.2.1 with
    | [], _ => false
    | _, none => true                   -- LB3
    | _, some v => v == LineMustBreak
  (segBytes rs res.1, must, res.2.2)

/-! ## FirstGraphemeCluster(InString) -/

def gcLoop (amb firstProp : Nat) : Nat → Nat → List Rune → Nat × Nat × Nat
  | _, width, [] => (0, width, 0)
  | state, width, r :: rest =>
    let t := transitionGraphemeState (some (state &&& maskGraphemeState)) r.1
    if t.2.2 then (0, width, t.1 ||| (t.2.1 <<< shiftGraphemePropState))
    else
      let width' := widthStep amb firstProp width r.1 t.2.1
      match rest with
      | [] => (1, width', grAny ||| (t.2.1 <<< shiftGraphemePropState))
      | _ :: _ =>
        let res := gcLoop amb firstProp t.1 width' rest
        (res.1 + 1, res.2.1, res.2.2)

/-- (runes in the cluster, width, newState) -/
def firstGraphemeClusterR (amb : Nat) (rs : List Rune) (st : Option Nat) : Nat × Nat × Nat :=
  match rs with
  | [] => (0, 0, 0)
  | r :: rest =>
    match rest with
    | [] =>
      let prop := match st with
        | none => propertyGraphemes r.1
        | some s => s >>> shiftGraphemePropState
      (1, runeWidth amb r.1 prop, grAny ||| (prop <<< shiftGraphemePropState))
    | _ :: _ =>
      let (state, firstProp) := match st with
        | none => let t := transitionGraphemeState none r.1; (t.1, t.2.1)
        | some s => (s, s >>> shiftGraphemePropState)
      let res := gcLoop amb firstProp state (runeWidth amb r.1 firstProp) rest
      (res.1 + 1, res.2.1, res.2.2)

def firstGraphemeCluster (amb : Nat) (b : List Nat) (st : Option Nat) : Nat × Nat × Nat :=
  let rs := Utf8.runesOf b
  let res := firstGraphemeClusterR amb rs st
  (segBytes rs res.1, res.2.1, res.2.2)

/-! ## Step / StepString -/

structure StepSt where
  g : Nat
  w : Nat
  s : Nat
  l : Nat
deriving Repr, DecidableEq

def packStep (x : StepSt) (prop : Nat) : Nat :=
  x.g ||| (x.w <<< shiftWordState) ||| (x.s <<< shiftSentenceState) ||| (x.l <<< shiftLineState) |||
    (prop <<< shiftPropState)

def endBoundaries (width : Nat) : Nat :=
  LineMustBreak ||| (1 <<< shiftWord) ||| (1 <<< shiftSentence) ||| (width <<< ShiftWidth)

def endStepState (prop : Nat) : Nat := packStep ⟨grAny, wbAny, sbAny, lbAny⟩ prop

def stepLoop (amb firstProp : Nat) : StepSt → Nat → List Rune → Nat × Nat × Nat
  | _, width, [] => (0, width, 0)
  | x, width, r :: rest =>
    let rem := runeVals rest
    let tg := transitionGraphemeState (some x.g) r.1
    let tw := transitionWordBreakState (some x.w) r.1 rem
    let ts := transitionSentenceBreakState (some x.s) r.1 rem
    let tl := transitionLineBreakState (some x.l) r.1 rem
    let x' : StepSt := ⟨tg.1, tw.1, ts.1, tl.1⟩
    if tg.2.2 then
      let boundary := tl.2 ||| (width <<< ShiftWidth) ||| (if tw.2 then 1 <<< shiftWord else 0) |||
        (if ts.2 then 1 <<< shiftSentence else 0)
      (0, boundary, packStep x' tg.2.1)
    else
      let width' := widthStep amb firstProp width r.1 tg.2.1
      match rest with
      | [] => (1, endBoundaries width', endStepState tg.2.1)
      | _ :: _ =>
        let res := stepLoop amb firstProp x' width' rest
        (res.1 + 1, res.2.1, res.2.2)

/-- `Step` (`isString = false`) / `StepString` (`true`): (runes in the cluster, boundaries, newState) -/
def stepR (isString : Bool) (amb : Nat) (rs : List Rune) (st : Option Nat) : Nat × Nat × Nat :=
  match rs with
  | [] => (0, 0, 0)
  | r :: rest =>
    match rest with
    | [] =>
      if isString then
        let prop := propertyGraphemes r.1
        (1, endBoundaries (runeWidth amb r.1 prop), packStep ⟨grAny, wbAny, sbAny, lbAny⟩ 0)
      else
        let prop := match st with
          | none => propertyGraphemes r.1
          | some s => s >>> shiftPropState
        (1, endBoundaries (runeWidth amb r.1 prop), endStepState prop)
    | _ :: _ =>
      let rem := runeVals rest
      let (x, firstProp) : StepSt × Nat := match st with
        | none =>
          let tg := transitionGraphemeState none r.1
          (⟨tg.1, (transitionWordBreakState none r.1 rem).1, (transitionSentenceBreakState none r.1 rem).1,
            (transitionLineBreakState none r.1 rem).1⟩, tg.2.1)
        | some s =>
          (⟨s &&& maskGraphemeState, (s >>> shiftWordState) &&& maskWordState,
            (s >>> shiftSentenceState) &&& maskSentenceState, (s >>> shiftLineState) &&& maskLineState⟩,
           s >>> shiftPropState)
      let res := stepLoop amb firstProp x (runeWidth amb r.1 firstProp) rest
      (res.1 + 1, res.2.1, res.2.2)

def step (isString : Bool) (amb : Nat) (b : List Nat) (st : Option Nat) : Nat × Nat × Nat :=
  let rs := Utf8.runesOf b
  let res := stepR isString amb rs st
  (segBytes rs res.1, res.2.1, res.2.2)

/-! ## Whole-string functions -/

/-- `StringWidth`: fuel = `len s` suffices because every call consumes at least one byte -/
def stringWidthLoop (amb : Nat) : Nat → List Nat → Option Nat → Nat → Nat
  | 0, _, _, acc => acc
  | fuel + 1, s, st, acc =>
    if s.isEmpty then acc
    else
      let res := firstGraphemeCluster amb s st
      stringWidthLoop amb fuel (s.drop res.1) (some res.2.2) (acc + res.2.1)

def stringWidth (amb : Nat) (s : List Nat) : Nat := stringWidthLoop amb s.length s none 0

def clusterCountLoop : Nat → List Nat → Option Nat → Nat → Nat
  | 0, _, _, n => n
  | fuel + 1, s, st, n =>
    if s.isEmpty then n
    else
      let res := firstGraphemeCluster 1 s st
      clusterCountLoop fuel (s.drop res.1) (some res.2.2) (n + 1)

def graphemeClusterCount (s : List Nat) : Nat := clusterCountLoop s.length s none 0

/-- `ReverseString`: `reversed` is kept as the list of bytes written so far at `[index:]`;
unwritten positions (only if the loop exits early) stay zero. -/
def reverseLoop : Nat → List Nat → Option Nat → Nat → List Nat → Nat × List Nat
  | 0, _, _, index, acc => (index, acc)
  | fuel + 1, str, st, index, acc =>
    if str.isEmpty then (index, acc)
    else
      let res := firstGraphemeCluster 1 str st
      let cluster := str.take res.1
      let str' := str.drop res.1
      let index' := index - cluster.length
      let acc' := cluster ++ acc
      if index' ≤ str'.length / 2 then (index', acc')
      else reverseLoop fuel str' (some res.2.2) index' acc'

def reverseString (s : List Nat) : List Nat :=
  let r := reverseLoop s.length s none s.length []
  List.replicate r.1 0 ++ r.2

def isHardBreak (p : Nat) : Bool := p == prBK || p == prCR || p == prLF || p == prNL

/-- `HasTrailingLineBreak` / `HasTrailingLineBreakInString` -/
def hasTrailingLineBreak (b : List Nat) : Bool :=
  isHardBreak (propertyLineBreak (Utf8.decodeLastRune b).1).1

/-! ## The `Graphemes` iterator -/

structure Graphemes where
  original : List Nat
  remaining : List Nat
  cluster : List Nat
  offset : Nat
  boundaries : Nat
  state : Int          -- −1 before the first `Next`, −2 after the end
deriving Repr, DecidableEq

def newGraphemes (s : List Nat) : Graphemes := ⟨s, s, [], 0, 0, -1⟩

def Graphemes.next (amb : Nat) (g : Graphemes) : Graphemes × Bool :=
  if g.remaining.isEmpty then ({ g with state := -2, cluster := [] }, false)
  else
    let res := step true amb g.remaining (if g.state < 0 then none else some g.state.toNat)
    ({ g with offset := g.offset + g.cluster.length, cluster := g.remaining.take res.1,
              remaining := g.remaining.drop res.1, boundaries := res.2.1, state := (res.2.2 : Int) }, true)

def Graphemes.reset (g : Graphemes) : Graphemes :=
  { g with state := -1, offset := 0, cluster := [], remaining := g.original }

def Graphemes.str (g : Graphemes) : List Nat := g.cluster
/-- `Runes()`: `none` is Go's `nil` -/
def Graphemes.runes (g : Graphemes) : Option (List Nat) :=
  if g.state < 0 then none else some (runeVals (Utf8.runesOf g.cluster))
def Graphemes.bytes (g : Graphemes) : Option (List Nat) :=
  if g.state < 0 then none else some g.cluster
def Graphemes.positions (g : Graphemes) : Nat × Nat :=
  if g.state == -1 then (0, 0) else if g.state == -2 then (1, 1) else (g.offset, g.offset + g.cluster.length)
def Graphemes.isWordBoundary (g : Graphemes) : Bool :=
  if g.state < 0 then true else g.boundaries &&& MaskWord != 0
def Graphemes.isSentenceBoundary (g : Graphemes) : Bool :=
  if g.state < 0 then true else g.boundaries &&& MaskSentence != 0
def Graphemes.lineBreak (g : Graphemes) : Nat :=
  if g.state == -1 then LineDontBreak else if g.state == -2 then LineMustBreak else g.boundaries &&& MaskLine
def Graphemes.width (g : Graphemes) : Nat :=
  if g.state < 0 then 0 else g.boundaries >>> ShiftWidth

end Uniseg
