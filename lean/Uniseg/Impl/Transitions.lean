import Uniseg.Lookup
import Uniseg.Utf8
/-! # Hand model of the four `transition*State` functions (graphemerules.go, wordrules.go,
sentencerules.go, linerules.go), statement by statement.

* A Go state `< 0` is `none`; every other state is `some n`.
* The "rest of the input" that the look-ahead loops decode lazily is passed as the list of the
  runes that `utf8.DecodeRune` would yield from it (`Utf8.runesOf`), so "`r == utf8.RuneError`"
  is "the list is empty or its head is `0xFFFD`", and "`length == 0`" is "the list is empty".
* Each function is split into a class-level core (`transG`, `transW`, `transS`, `transL`), which
  sees the code point only through table lookups done by the wrapper, and the wrapper.
* No numeric state/class appears here: only names from `Gen/Consts`. -/
namespace Uniseg
open Uniseg.Gen

/-- the `switch uint64(state) | uint64(prop)<<32` of a rule function, read from the packed literal -/
def cell (packed s p : Nat) : Nat :=
  if p < 128 then (packed >>> ((s * 128 + p) * 32)) &&& 0xFFFFFFFF else 0

/-- `some (newState, verdict, rule)`, or `none` for Go's `default: return -1, …` -/
def ruleGet (packed : Nat) (s : Option Nat) (p : Nat) : Option (Nat × Nat × Nat) :=
  match s with
  | none => none
  | some s =>
    let c := cell packed s p
    if c = 0 then none else some (c &&& 0xFF, (c >>> 8) &&& 3, (c >>> 10) &&& 0x3FFF)

/-- The lookup-and-merge block shared by all four transition functions: exact row, else the
`(state, Any)` and `(Any, class)` rows merged by rule number, else the default. Returns
`(newState, verdict, rule)`. -/
def merge (packed : Nat) (anyState anyProp : Nat) (dflt : Nat × Nat × Nat) (state : Option Nat) (prop : Nat) :
    Nat × Nat × Nat :=
  match ruleGet packed state prop with
  | some t => t
  | none =>
    match ruleGet packed state anyProp, ruleGet packed (some anyState) prop with
    | some (_, apv, apr), some (ass, asv, asr) => if apr < asr then (ass, apv, apr) else (ass, asv, asr)
    | some t, none => t
    | none, some t => t
    | none, none => dflt

/-! ## Graphemes -/

/-- `transitionGraphemeState` on the class: `(newState, boundary)` -/
def transG (state : Option Nat) (prop : Nat) : Nat × Bool :=
  let t := merge grPacked grAny prAny (grAny, grBoundary, 9990) state prop
  (t.1, t.2.1 == grBoundary)

/-- `transitionGraphemeState(state, r)`: `(newState, prop, boundary)` -/
def transitionGraphemeState (state : Option Nat) (r : Nat) : Nat × Nat × Bool :=
  let prop := propertyGraphemes r
  let t := transG state prop
  (t.1, prop, t.2)

/-! ## Words -/

def wbIgnorable (p : Nat) : Bool := p == prExtend || p == prFormat || p == prZWJ

/-- the WB6/WB7b/WB12 look-ahead loop: class of the first rune of the rest that is not
Extend/Format/ZWJ; `none` (Go: `-1`) at the end of the input or at a `utf8.RuneError` -/
def wbFar : List Nat → Option Nat
  | [] => none
  | r :: rs =>
    if r == Utf8.runeError then none
    else
      let p := property wordTable r
      if wbIgnorable p then wbFar rs else some p

def stateIs (state : Option Nat) (v : Nat) : Bool := state == some v

/-- the three tests the code makes on `farProperty`: `== prALetter`, `== prHebrewLetter`, `== prNumeric` -/
def farKey (far : Option Nat) : Bool × Bool × Bool :=
  (far == some prALetter, far == some prHebrewLetter, far == some prNumeric)

/-- `transitionWordBreakState` on classes; `gEP`: the grapheme table says Extended_Pictographic;
`k`: what the tests on the look-ahead loop's result (`farProperty`) would give if the loop ran -/
def transWK (state : Option Nat) (nextProperty : Nat) (gEP : Bool) (k : Bool × Bool × Bool) : Nat × Bool :=
  if nextProperty == prZWJ then
    if stateIs state wbNewline || stateIs state wbCR || stateIs state wbLF then (wbAny ||| wbZWJBit, true)
    else if state.isNone || stateIs state wbWSegSpace then (wbAny ||| wbZWJBit, false)
    else (state.getD 0 ||| wbZWJBit, false)
  else if nextProperty == prExtend || nextProperty == prFormat then
    if stateIs state wbNewline || stateIs state wbCR || stateIs state wbLF then (wbAny, true)
    else if stateIs state wbWSegSpace || stateIs state (wbAny ||| wbZWJBit) then (wbAny, false)
    else match state with
      | none => (wbAny, false)
      | some s => (s &&& (wbZWJBit ^^^ 0xFFFFFFFF), false)
  else if nextProperty == prExtendedPictographic && (match state with | none => false | some s => s &&& wbZWJBit != 0) then
    (wbAny, false)
  else
    let wb3c := (match state with | none => false | some s => s &&& wbZWJBit != 0) && gEP
    let state := state.map fun s => s &&& (wbZWJBit ^^^ 0xFFFFFFFF)   -- state &^ wbZWJBit
    let t := merge wbPacked wbAny prAny (wbAny, 1, 9990) state nextProperty
    let newState := t.1
    let wordBreak := if wb3c then false else t.2.1 == 1
    let rule := t.2.2
    let lookAhead := rule > 60 &&
      (stateIs state wbALetter || stateIs state wbHebrewLetter || stateIs state wbNumeric) &&
      (nextProperty == prMidLetter || nextProperty == prMidNumLet || nextProperty == prSingleQuote ||
        nextProperty == prDoubleQuote || nextProperty == prMidNum)
    -- farProperty stays -1 unless the loop runs
    let k : Bool × Bool × Bool := if lookAhead then k else (false, false, false)
    if rule > 60 && (stateIs state wbALetter || stateIs state wbHebrewLetter) &&
        (nextProperty == prMidLetter || nextProperty == prMidNumLet || nextProperty == prSingleQuote) &&
        (k.1 || k.2.1) then (wbWB7, false)
    else if rule > 72 && stateIs state wbHebrewLetter && nextProperty == prDoubleQuote && k.2.1 then (wbWB7c, false)
    else if rule > 120 && stateIs state wbNumeric &&
        (nextProperty == prMidNum || nextProperty == prMidNumLet || nextProperty == prSingleQuote) &&
        k.2.2 then (wbWB11, false)
    else if newState == wbAny && nextProperty == prRegionalIndicator then
      if !stateIs state wbOddRI && !stateIs state wbEvenRI then (wbOddRI, true)
      else if stateIs state wbOddRI then (wbEvenRI, false)
      else (wbOddRI, true)
    else (newState, wordBreak)

/-- `far` is what the look-ahead loop would return -/
def transW (state : Option Nat) (nextProperty : Nat) (gEP : Bool) (far : Option Nat) : Nat × Bool :=
  transWK state nextProperty gEP (farKey far)

/-- `transitionWordBreakState(state, r, b, str)` -/
def transitionWordBreakState (state : Option Nat) (r : Nat) (rest : List Nat) : Nat × Bool :=
  transW state (property wordTable r) (propertyGraphemes r == prExtendedPictographic) (wbFar rest)

/-! ## Sentences -/

def sbStopper (p : Nat) : Bool :=
  p == prOLetter || p == prUpper || p == prLower || p == prSep || p == prCR || p == prLF ||
  p == prATerm || p == prSTerm

/-- the SB8 forward scan, started with the class of the current rune; returns the class at
which the loop stops (a stopper, or whatever it held when the rest ran out: `length == 0`) -/
def sbScan (nextProperty : Nat) : List Nat → Nat
  | [] => nextProperty
  | r :: rs =>
    if sbStopper nextProperty then nextProperty
    else sbScan (property sentenceTable r) rs

/-- `transitionSentenceBreakState` on classes; `scanLower` says whether the SB8 scan, if run,
ends on `prLower` -/
def transS (state : Option Nat) (nextProperty : Nat) (scanLower : Bool) : Nat × Bool :=
  if nextProperty == prExtend || nextProperty == prFormat then
    if stateIs state sbParaSep || stateIs state sbCR then (sbAny, true)
    else match state with
      | none => (sbAny, true)
      | some s => (s, false)
  else
    let t := merge sbPacked sbAny prAny (sbAny, 0, 9990) state nextProperty
    if t.2.2 > 80 && (stateIs state sbATerm || stateIs state sbSB8Close || stateIs state sbSB8Sp || stateIs state sbSB7)
        && scanLower then (sbLower, false)
    else (t.1, t.2.1 == 1)

/-- `transitionSentenceBreakState(state, r, b, str)` -/
def transitionSentenceBreakState (state : Option Nat) (r : Nat) (rest : List Nat) : Nat × Bool :=
  let p := property sentenceTable r
  transS state p (sbScan p rest == prLower)

/-! ## Lines -/

/-- LB1 resolution done at the top of `transitionLineBreakState` -/
def lbResolve (prop gc : Nat) : Nat :=
  if prop == prAI || prop == prSG || prop == prXX then prAL
  else if prop == prSA then (if gc == gcMn || gc == gcMc then prCM else prAL)
  else if prop == prCJ then prNS
  else prop

/-- what the transition needs to know about the current code point -/
structure LbIn where
  prop : Nat        -- Line_Break class after LB1 resolution
  eaFWH : Bool      -- East_Asian_Width ∈ {F, W, H}
  extPicCn : Bool   -- grapheme class is Extended_Pictographic and General_Category is Cn
deriving DecidableEq, Repr

def lbIn (r : Nat) : LbIn :=
  let pg := propertyLineBreak r
  let ea := propertyEastAsianWidth r
  { prop := lbResolve pg.1 pg.2
    eaFWH := ea == prF || ea == prW || ea == prH
    extPicCn := propertyGraphemes r == prExtendedPictographic && pg.2 == gcCn }

/-- LB25 look-ahead loop: skip CM, ZWJ and SA marks (LB9), then test for NU -/
def lbNextNU : List Nat → Bool
  | [] => false
  | r :: rs =>
    let pg := propertyLineBreak r
    if pg.1 == prCM || pg.1 == prZWJ || (pg.1 == prSA && (pg.2 == gcMn || pg.2 == gcMc)) then lbNextNU rs
    else pg.1 == prNU

/-- the deferred closure of `transitionLineBreakState` -/
def lbFin (x : LbIn) (isCPeaFWH forceNoBreak : Bool) (res : Nat × Nat) : Nat × Nat :=
  let base := res.1 &&& (lbZWJBit ^^^ 0xFFFFFFFF)
  let newState :=
    if base == lbCP || base == lbNUCP then
      (if x.prop == prCP then (if !x.eaFWH then res.1 ||| lbCPeaFWHBit else res.1)
       else if isCPeaFWH then res.1 ||| lbCPeaFWHBit else res.1)
    else res.1
  (newState, if forceNoBreak then LineDontBreak else res.2)

/-- the flag extraction at the top of `transitionLineBreakState`:
(state without the two flag bits, isCPeaFWH, forceNoBreak) -/
def lbStrip (state0 : Option Nat) : Option Nat × Bool × Bool :=
  let isCPeaFWH := match state0 with | none => false | some s => s &&& lbCPeaFWHBit != 0
  let state1 := if isCPeaFWH then state0.map (fun s => s &&& (lbCPeaFWHBit ^^^ 0xFFFFFFFF)) else state0
  let forceNoBreak := match state1 with | none => false | some s => s &&& lbZWJBit != 0
  let state := if forceNoBreak then state1.map (fun s => s &&& (lbZWJBit ^^^ 0xFFFFFFFF)) else state1
  (state, isCPeaFWH, forceNoBreak)

/-- `transitionLineBreakState` after the flag extraction -/
def transLCore (state : Option Nat) (isCPeaFWH forceNoBreak : Bool) (x : LbIn) (nextNU : Bool) : Nat × Nat :=
  let nextProperty := x.prop
  lbFin x isCPeaFWH forceNoBreak <|
  if nextProperty == prZWJ || nextProperty == prCM then
    let bit := if nextProperty == prZWJ then lbZWJBit else 0
    let mustBreakState := state.isNone || stateIs state lbBK || stateIs state lbCR || stateIs state lbLF || stateIs state lbNL
    if !mustBreakState && !stateIs state lbSP && !stateIs state lbZW && !stateIs state lbOPSP &&
        !stateIs state lbQUSP && !stateIs state lbCLCPSP && !stateIs state lbB2SP then
      ((state.getD 0) ||| bit, LineDontBreak)
    else if mustBreakState then (lbAL ||| bit, LineMustBreak)
    else if stateIs state lbOPSP then (lbAL ||| bit, LineDontBreak)
    else (lbAL ||| bit, LineCanBreak)
  else
    let t := merge lbPacked lbAny prAny (lbAny, LineCanBreak, 310) state nextProperty
    let newState := t.1
    let lineBreak := t.2.1
    let rule := t.2.2
    if rule > 121 && nextProperty == prGL &&
        (!stateIs state lbSP && !stateIs state lbBA && !stateIs state lbHY && !stateIs state lbLB21a &&
         !stateIs state lbQUSP && !stateIs state lbCLCPSP && !stateIs state lbB2SP) then (lbGL, LineDontBreak)
    else if rule > 130 && !stateIs state lbNU && !stateIs state lbNUNU && !stateIs state lbNUSY && !stateIs state lbNUIS &&
        (nextProperty == prCL || nextProperty == prCP || nextProperty == prIS || nextProperty == prSY) then
      (if nextProperty == prCL then lbCL else if nextProperty == prCP then lbCP
       else if nextProperty == prIS then lbIS else lbSY, LineDontBreak)
    else if rule > 250 && (stateIs state lbPR || stateIs state lbPO) && (nextProperty == prOP || nextProperty == prHY)
        && nextNU then (lbNU, LineDontBreak)
    else if rule > 300 && (stateIs state lbAL || stateIs state lbHL || stateIs state lbNU || stateIs state lbNUNU)
        && nextProperty == prOP && !x.eaFWH then (lbOP, LineDontBreak)
    else if rule > 300 && !((stateIs state lbAL || stateIs state lbHL || stateIs state lbNU || stateIs state lbNUNU)
        && nextProperty == prOP) && isCPeaFWH && (nextProperty == prAL || nextProperty == prHL || nextProperty == prNU) then
      (if nextProperty == prAL then lbAL else if nextProperty == prHL then lbHL else lbNU, LineDontBreak)
    else if newState == lbAny && nextProperty == prRI then
      if !stateIs state lbOddRI && !stateIs state lbEvenRI then (lbOddRI, lineBreak)
      else if stateIs state lbOddRI then (lbEvenRI, LineDontBreak)
      else (lbOddRI, lineBreak)
    else if rule > 302 && nextProperty == prEM && (stateIs state lbEB || stateIs state lbExtPicCn) then
      (lbIDEM, LineDontBreak)
    else if newState == lbIDEM && x.extPicCn then (lbExtPicCn, lineBreak)
    else (newState, lineBreak)

/-- `transitionLineBreakState` on the class signature; `nextNU` is the LB25 look-ahead result -/
def transL (state0 : Option Nat) (x : LbIn) (nextNU : Bool) : Nat × Nat :=
  let s := lbStrip state0
  transLCore s.1 s.2.1 s.2.2 x nextNU

/-- `transitionLineBreakState(state, r, b, str)` -/
def transitionLineBreakState (state : Option Nat) (r : Nat) (rest : List Nat) : Nat × Nat :=
  transL state (lbIn r) (lbNextNU rest)

end Uniseg
