/- Aggregates the files regenerated from /repo by /verif/extract (not committed; rebuilt on every run). -/
import Uniseg.Gen.Consts
import Uniseg.Gen.Rules
import Uniseg.Gen.TableGraphemeCodePoints
import Uniseg.Gen.TableWorkBreakCodePoints
import Uniseg.Gen.TableSentenceBreakCodePoints
import Uniseg.Gen.TableLineBreakCodePoints
import Uniseg.Gen.TableEastAsianWidth
import Uniseg.Gen.TableEmojiPresentation
