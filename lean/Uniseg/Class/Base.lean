import Uniseg.Proofs.Walk
import Uniseg.Impl.Transitions
/-! # Classification of every code point: common part

The reference rows (`Ref.sig`, generated from the committed Unicode 15.0.0 data in /verif/refdata)
partition the code space; a table is compared with one component of the rows by a kernel-evaluated
walk (`Walk.walk`), lifted to every code point by `walk_at`. The modules `Class.G … Class.M` do this
for one table each, so that a changed table breaks exactly the theorems that depend on it. -/
namespace Uniseg.Class
open Uniseg Uniseg.Gen Uniseg.Table Uniseg.Walk Uniseg.Ref

/-- only as far as the code looks at the general category -/
def bucket (gc : Nat) : Nat := if gc == gcMn || gc == gcMc || gc == gcCn then gc else 0
/-- "not listed" is East_Asian_Width = Neutral -/
def normE (p : Nat) : Nat := if p == prXX then prN else p
/-- the ASCII fast path says `prAny` where the table says nothing: both are "Other" -/
def normG (p : Nat) : Nat := if p == prAny then prXX else p

theorem rows_ok : rowsOK 0 sig = true := by decide +kernel

/-- binary search = interval lookup, for a sorted table and every `r` -/
theorem property_eq (l : List Nat) (h : sortedB l = true) (r : Nat) : property l.toArray r = eProp (lookupE l r) := by
  unfold property; rw [search_eq_lookup l h r]

theorem walk_at (exp : Row → Nat) (norm : Nat → Nat) (tbl : List Nat) (hs : sortedB tbl = true)
    (hw : walk exp norm sig tbl = true) (row : Row) (hm : row ∈ sig) (r : Nat) (h1 : row.lo ≤ r) (h2 : r ≤ row.hi) :
    norm (lookupE tbl r) = exp row :=
  walk_sound exp norm tbl sig tbl 0 rows_ok (sortedB_sound _ hs) (fun _ _ => rfl) hw row hm r h1 h2

/-- the row of every code point exists and is unique -/
theorem row_exists (r : Nat) (hr : r < 0x110000) : ∃ row ∈ sig, row.lo ≤ r ∧ r ≤ row.hi :=
  rows_cover sig 0 rows_ok r (Nat.zero_le _) hr

theorem row_unique (row : Row) (hm : row ∈ sig) (r : Nat) (h1 : row.lo ≤ r) (h2 : r ≤ row.hi) : rowAt r sig = some row :=
  rowAt_unique sig 0 rows_ok row hm r h1 h2

/-- the reference row of a code point -/
def rowOf (r : Nat) : Row := (rowAt r sig).getD ⟨0, 0, 0, 0, 0, 0, 0, 0, 0⟩

theorem rowOf_spec (r : Nat) (hr : r < 0x110000) : rowOf r ∈ sig ∧ (rowOf r).lo ≤ r ∧ r ≤ (rowOf r).hi := by
  obtain ⟨row, hm, h1, h2⟩ := row_exists r hr
  have : rowOf r = row := by unfold rowOf; rw [row_unique row hm r h1 h2]; rfl
  rw [this]; exact ⟨hm, h1, h2⟩

/-- lift a check of the 128 code points the fast paths can touch -/
theorem ascii_at (f : Nat → Row → Bool)
    (h : (List.range 128).all (fun r => match rowAt r sig with | some row => f r row | none => false) = true)
    (row : Row) (hm : row ∈ sig) (r : Nat) (h1 : row.lo ≤ r) (h2 : r ≤ row.hi) (hr : r < 128) : f r row = true := by
  have := List.all_eq_true.mp h r (List.mem_range.mpr hr)
  rw [row_unique row hm r h1 h2] at this
  exact this

theorem normG_beq (k : Nat) (h1 : (k == prAny) = false) (h2 : (k == prXX) = false) (c : Nat) : (normG c == k) = (c == k) := by
  unfold normG; split
  · rename_i h
    simp only [beq_iff_eq] at h; subst h
    have e1 : (prXX == k) = false := by rw [Bool.eq_false_iff] at h2 ⊢; intro h; apply h2; simp only [beq_iff_eq] at h ⊢; exact h.symm
    have e2 : (prAny == k) = false := by rw [Bool.eq_false_iff] at h1 ⊢; intro h; apply h1; simp only [beq_iff_eq] at h ⊢; exact h.symm
    rw [e1, e2]
  · rfl

theorem normE_beq (k : Nat) (h1 : (k == prXX) = false) (h2 : (k == prN) = false) (c : Nat) : (normE c == k) = (c == k) := by
  unfold normE; split
  · rename_i h
    simp only [beq_iff_eq] at h; subst h
    have e1 : (prXX == k) = false := by rw [Bool.eq_false_iff] at h1 ⊢; intro h; apply h1; simp only [beq_iff_eq] at h ⊢; exact h.symm
    have e2 : (prN == k) = false := by rw [Bool.eq_false_iff] at h2 ⊢; intro h; apply h2; simp only [beq_iff_eq] at h ⊢; exact h.symm
    rw [e1, e2]
  · rfl

theorem normG_ep (p : Nat) : (normG p == prExtendedPictographic) = (p == prExtendedPictographic) := by
  unfold normG; split
  · rename_i h; simp only [beq_iff_eq] at h; subst h; rfl
  · rfl

theorem bucket_eq (gc k : Nat) (hk : k = gcMn ∨ k = gcMc ∨ k = gcCn) : (bucket gc == k) = (gc == k) := by
  unfold bucket; split
  · rfl
  · rename_i h
    simp only [Bool.or_eq_true, beq_iff_eq, not_or] at h
    cases hb : (gc == k) with
    | false => rcases hk with rfl | rfl | rfl <;> rfl
    | true =>
      have := beq_iff_eq.mp hb
      rcases hk with rfl | rfl | rfl
      · exact absurd this h.1.1
      · exact absurd this h.1.2
      · exact absurd this h.2

theorem bucket_cn (gc : Nat) : (bucket gc == gcCn) = (gc == gcCn) := bucket_eq gc _ (Or.inr (Or.inr rfl))

theorem lbResolve_bucket (l gc : Nat) : lbResolve l (bucket gc) = lbResolve l gc := by
  unfold lbResolve; rw [bucket_eq gc _ (Or.inl rfl), bucket_eq gc _ (Or.inr (Or.inl rfl))]

theorem normE_fwh (p : Nat) : (normE p == prF || normE p == prW || normE p == prH) = (p == prF || p == prW || p == prH) := by
  unfold normE; split
  · rename_i h; simp only [beq_iff_eq] at h; subst h; rfl
  · rfl

end Uniseg.Class
