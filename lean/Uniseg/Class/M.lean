import Uniseg.Class.Base
/-! # the Emoji_Presentation table -/
namespace Uniseg.Class
open Uniseg Uniseg.Gen Uniseg.Table Uniseg.Walk Uniseg.Ref

theorem m_sorted : sortedB emojiPresentation = true := by decide +kernel
theorem m_walk : walk (·.m) eProp sig emojiPresentation = true := by decide +kernel

theorem m_class (r : Nat) (row : Row) (hm : row ∈ sig) (h1 : row.lo ≤ r) (h2 : r ≤ row.hi) :
    property emojiTable r = row.m := by
  show property emojiPresentation.toArray r = row.m
  rw [property_eq _ m_sorted]
  exact walk_at _ _ _ m_sorted m_walk row hm r h1 h2

end Uniseg.Class
