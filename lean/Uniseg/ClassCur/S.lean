import Uniseg.ClassCur.Base
/-! # the sentence table -/
namespace Uniseg.ClassCur
open Uniseg Uniseg.Gen Uniseg.Table Uniseg.Walk
open Uniseg.Ref (Row)
open Uniseg.Gen.SigCur (sig)

theorem s_sorted : sortedB sentenceBreakCodePoints = true := by decide +kernel
theorem s_walk : walk (·.s) eProp sig sentenceBreakCodePoints = true := by decide +kernel

theorem s_class (r : Nat) (row : Row) (hm : row ∈ sig) (h1 : row.lo ≤ r) (h2 : r ≤ row.hi) :
    property sentenceTable r = row.s := by
  show property sentenceBreakCodePoints.toArray r = row.s
  rw [property_eq _ s_sorted]
  exact walk_at _ _ _ s_sorted s_walk row hm r h1 h2

end Uniseg.ClassCur
