import Uniseg.ClassCur.Base
/-! # the East_Asian_Width table and its fast path -/
namespace Uniseg.ClassCur
open Uniseg Uniseg.Gen Uniseg.Table Uniseg.Walk
open Uniseg.Ref (Row)
open Uniseg.Gen.SigCur (sig)

theorem e_sorted : sortedB eastAsianWidth = true := by decide +kernel
theorem e_walk : walk (·.e) (fun e => normE (eProp e)) sig eastAsianWidth = true := by decide +kernel
theorem e_ascii : (List.range 128).all (fun r => match rowAt r sig with
    | some row => normE (propertyEastAsianWidth r) == row.e | none => false) = true := by decide +kernel

theorem e_class (r : Nat) (row : Row) (hm : row ∈ sig) (h1 : row.lo ≤ r) (h2 : r ≤ row.hi) :
    normE (propertyEastAsianWidth r) = row.e := by
  by_cases hsmall : r < 128
  · exact beq_iff_eq.mp (ascii_at (fun r row => normE (propertyEastAsianWidth r) == row.e) e_ascii row hm r h1 h2 hsmall)
  · have fe : propertyEastAsianWidth r = property eawTable r := by
      unfold propertyEastAsianWidth
      rw [if_neg (by simp; omega), if_neg (by simp; omega)]
    rw [fe]
    show normE (property eastAsianWidth.toArray r) = row.e
    rw [property_eq _ e_sorted]
    exact walk_at _ _ _ e_sorted e_walk row hm r h1 h2

/-- Fullwidth / Wide / Halfwidth, as LB30 asks -/
theorem e_fwh (r : Nat) (row : Row) (hm : row ∈ sig) (h1 : row.lo ≤ r) (h2 : r ≤ row.hi) :
    (propertyEastAsianWidth r == prF || propertyEastAsianWidth r == prW || propertyEastAsianWidth r == prH) =
      (row.e == prF || row.e == prW || row.e == prH) := by
  rw [← e_class r row hm h1 h2, normE_fwh]

end Uniseg.ClassCur
