import Uniseg.ClassCur.Base
/-! # the grapheme table (Grapheme_Cluster_Break merged with Extended_Pictographic) and its fast path -/
namespace Uniseg.ClassCur
open Uniseg Uniseg.Gen Uniseg.Table Uniseg.Walk
open Uniseg.Ref (Row)
open Uniseg.Gen.SigCur (sig)

theorem g_sorted : sortedB graphemeCodePoints = true := by decide +kernel
theorem g_walk : walk (·.g) (fun e => normG (eProp e)) sig graphemeCodePoints = true := by decide +kernel
theorem g_ascii : (List.range 128).all (fun r => match rowAt r sig with
    | some row => normG (propertyGraphemes r) == row.g | none => false) = true := by decide +kernel

/-- `propertyGraphemes`, fast path included, returns the reference class of every code point -/
theorem g_class (r : Nat) (row : Row) (hm : row ∈ sig) (h1 : row.lo ≤ r) (h2 : r ≤ row.hi) :
    normG (propertyGraphemes r) = row.g := by
  by_cases hsmall : r < 128
  · exact beq_iff_eq.mp (ascii_at (fun r row => normG (propertyGraphemes r) == row.g) g_ascii row hm r h1 h2 hsmall)
  · have fg : propertyGraphemes r = property graphemeTable r := by
      unfold propertyGraphemes
      rw [if_neg (by simp; omega), if_neg (by omega), if_neg (by omega), if_neg (by simp; omega)]
    rw [fg]
    show normG (property graphemeCodePoints.toArray r) = row.g
    rw [property_eq _ g_sorted]
    exact walk_at _ _ _ g_sorted g_walk row hm r h1 h2

/-- Extended_Pictographic as the grapheme table sees it -/
theorem g_ep (r : Nat) (row : Row) (hm : row ∈ sig) (h1 : row.lo ≤ r) (h2 : r ≤ row.hi) :
    (propertyGraphemes r == prExtendedPictographic) = (row.g == prExtendedPictographic) := by
  rw [← g_class r row hm h1 h2, normG_ep]

end Uniseg.ClassCur
