import Uniseg.ClassCur.Base
/-! # the word table (Word_Break merged with Extended_Pictographic) -/
namespace Uniseg.ClassCur
open Uniseg Uniseg.Gen Uniseg.Table Uniseg.Walk
open Uniseg.Ref (Row)
open Uniseg.Gen.SigCur (sig)

theorem w_sorted : sortedB workBreakCodePoints = true := by decide +kernel
theorem w_walk : walk (·.w) eProp sig workBreakCodePoints = true := by decide +kernel

theorem w_class (r : Nat) (row : Row) (hm : row ∈ sig) (h1 : row.lo ≤ r) (h2 : r ≤ row.hi) :
    property wordTable r = row.w := by
  show property workBreakCodePoints.toArray r = row.w
  rw [property_eq _ w_sorted]
  exact walk_at _ _ _ w_sorted w_walk row hm r h1 h2

end Uniseg.ClassCur
