import Uniseg.ClassCur.Base
/-! # the line table (Line_Break and General_Category) and its fast path -/
namespace Uniseg.ClassCur
open Uniseg Uniseg.Gen Uniseg.Table Uniseg.Walk
open Uniseg.Ref (Row)
open Uniseg.Gen.SigCur (sig)

theorem l_sorted : sortedB lineBreakCodePoints = true := by decide +kernel
theorem l_walk : walk (·.l) eProp sig lineBreakCodePoints = true := by decide +kernel
theorem gc_walk : walk (·.gc) (fun e => bucket (eGc e)) sig lineBreakCodePoints = true := by decide +kernel
theorem l_ascii : (List.range 128).all (fun r => match rowAt r sig with
    | some row => (propertyLineBreak r).1 == row.l && bucket (propertyLineBreak r).2 == row.gc | none => false) = true := by decide +kernel

theorem l_class (r : Nat) (row : Row) (hm : row ∈ sig) (h1 : row.lo ≤ r) (h2 : r ≤ row.hi) :
    (propertyLineBreak r).1 = row.l ∧ bucket (propertyLineBreak r).2 = row.gc := by
  by_cases hsmall : r < 128
  · have := ascii_at (fun r row => (propertyLineBreak r).1 == row.l && bucket (propertyLineBreak r).2 == row.gc) l_ascii row hm r h1 h2 hsmall
    simp only [Bool.and_eq_true, beq_iff_eq] at this
    exact this
  · have fl : propertyLineBreak r = (eProp (propertySearch lineTable r), eGc (propertySearch lineTable r)) := by
      unfold propertyLineBreak
      rw [if_neg (by simp; omega), if_neg (by simp; omega), if_neg (by simp; omega)]
    rw [fl]
    constructor
    · show eProp (propertySearch lineBreakCodePoints.toArray r) = row.l
      rw [search_eq_lookup _ l_sorted]
      exact walk_at _ _ _ l_sorted l_walk row hm r h1 h2
    · show bucket (eGc (propertySearch lineBreakCodePoints.toArray r)) = row.gc
      rw [search_eq_lookup _ l_sorted]
      exact walk_at _ _ _ l_sorted gc_walk row hm r h1 h2

end Uniseg.ClassCur
