import Uniseg.Spec.Apply
/-! # The four segmentation algorithms as pairs of automata over a common letter alphabet

`Alg` packages, for one algorithm: the class-level core of the implementation's transition
function (`trans`, from `Impl/Transitions`), the canonical spec automaton (`q0`, `qstep`, `qout`,
from `Spec/*`), and the abstraction of the look-ahead to a *promise* about the text after the
current letter (`rhoEnd`, `laStep`). Used by the product exploration (`Explore`), by the generated
certificates (`Cert/*`) and by the lifting theorems (`Proofs/Closure`). -/
namespace Uniseg.Auto
open Uniseg Uniseg.Gen Uniseg.Spec

/-- One segmentation algorithm as a pair of automata over a common letter alphabet `L`, with the
look-ahead abstracted to a promise `R` about the text after the current letter. -/
structure Alg (L R Q V : Type) where
  name : String
  rhoEnd : R                               -- promise of the empty rest
  laStep : L → R → R                       -- promise of `x :: rest` from the promise of `rest`
  trans : Option Nat → L → R → Nat × V     -- implementation (class-level core)
  q0 : Q
  qstep : Q → L → Q
  qout : Q → L → R → V                     -- spec verdict before `x`, given the promise of the text after `x`
  isB : V → Bool                           -- which verdicts are reported boundaries
  showV : V → String

/-! ## the four instances -/

def b2s (b : Bool) : String := if b then "1" else "0"

def algG : Alg Nat Unit GB.Q Bool :=
  { name := "gr", rhoEnd := (), laStep := fun _ _ => (),
    trans := fun s x _ => transG s x,
    q0 := GB.q0, qstep := GB.qstep, qout := fun q x _ => GB.qout q x, isB := id, showV := b2s }

/-- a word letter: the class code of the word table and Extended_Pictographic per the grapheme table -/
structure WbL where
  prop : Nat
  gEP : Bool
deriving DecidableEq, Hashable, Repr

def wbL (r : Nat) : WbL := ⟨property wordTable r, propertyGraphemes r == prExtendedPictographic⟩
def WbL.ch (x : WbL) : WB.Ch := ⟨WB.ofProp x.prop, x.prop == prExtendedPictographic || x.gEP⟩

/-- promise: the first class of the rest that WB4 does not ignore, as far as WB6/WB7b/WB12 (and the
implementation's `farProperty` tests) can tell -/
inductive Far | other | aletter | hebrew | numeric
deriving DecidableEq, Hashable, Repr, Inhabited

def Far.ofProp (p : Nat) : Far :=
  if p == prALetter then .aletter else if p == prHebrewLetter then .hebrew else if p == prNumeric then .numeric else .other
/-- the implementation's view: the outcome of its three tests on `farProperty` -/
def Far.key : Far → Bool × Bool × Bool
  | .other => (false, false, false) | .aletter => (true, false, false)
  | .hebrew => (false, true, false) | .numeric => (false, false, true)
/-- the spec's view: the next class WB4 does not ignore -/
def Far.spec : Far → Option WB.C
  | .other => none | .aletter => some .aletter | .hebrew => some .hebrew | .numeric => some .numeric

def algW : Alg WbL Far WB.Q Bool :=
  { name := "wb", rhoEnd := .other,
    laStep := fun x rho => if wbIgnorable x.prop then rho else Far.ofProp x.prop,
    trans := fun s x rho => transWK s x.prop x.gEP rho.key,
    q0 := WB.q0, qstep := fun q x => WB.qstep q x.ch, qout := fun q x rho => WB.qout q x.ch rho.spec, isB := id, showV := b2s }

/-- a sentence letter is the class code of the sentence table -/
abbrev SbL := Nat

def sbL (r : Nat) : SbL := property sentenceTable r

/-- promise: (the implementation's scan of the rest ends on Lower, the spec's scan does) -/
abbrev SbR := Bool × Bool

def algS : Alg SbL SbR SB.Q Bool :=
  { name := "sb", rhoEnd := (false, false),
    laStep := fun x rho =>
      (if sbStopper x then x == prLower else rho.1,
       if SB.isStop (SB.ofProp x) then SB.ofProp x == SB.C.lower else rho.2),
    trans := fun s x rho => transS s x (if sbStopper x then x == prLower else rho.1),
    q0 := SB.q0, qstep := fun q x => SB.qstep q (SB.ofProp x),
    qout := fun q x rho => SB.qout q (SB.ofProp x) rho.2, isB := id, showV := b2s }

instance : Hashable LbIn := ⟨fun x => mixHash (hash x.prop) (mixHash (hash x.eaFWH) (hash x.extPicCn))⟩

def _root_.Uniseg.LbIn.ch (x : LbIn) : LB.Ch := ⟨LB.ofProp x.prop, x.eaFWH, x.extPicCn⟩

def showLV : LB.V → String | .no => "0" | .can => "1" | .must => "2"
def lvOfNat (n : Nat) : LB.V := if n == LineDontBreak then .no else if n == LineMustBreak then .must else .can

/-- promise: (the implementation's LB25 look-ahead succeeds, `(CM|ZWJ)* NU` follows) -/
abbrev LbR := Bool × Bool

def algL : Alg LbIn LbR LB.Q LB.V :=
  { name := "lb", rhoEnd := (false, false),
    laStep := fun x rho => (if x.prop == prCM || x.prop == prZWJ then rho.1 else x.prop == prNU,
      if LB.isCMZ x.ch.cls then rho.2 else x.ch.cls == LB.C.NU),
    trans := fun s x rho => let t := transL s x rho.1; (t.1, lvOfNat t.2),
    q0 := LB.q0, qstep := fun q x => LB.qstep q x.ch, qout := fun q x rho => LB.qout q x.ch rho.2,
    isB := fun v => v != LB.V.no, showV := showLV }


end Uniseg.Auto
