import Uniseg.Gen
/-! # Model of properties.go: `propertySearch`, `property`, and the three wrappers with ASCII fast paths.

Table entries are the packed naturals produced by the translator
(`lo<<<40 ||| hi<<<16 ||| prop<<<8 ||| gc`); the zero entry `[0,0,0,0]` that Go returns on a miss is `0`. -/
namespace Uniseg
open Uniseg.Gen

def eLo (e : Nat) : Nat := e >>> 40
def eHi (e : Nat) : Nat := (e >>> 16) &&& 0xFFFFFF
def eProp (e : Nat) : Nat := (e >>> 8) &&& 0xFF
def eGc (e : Nat) : Nat := e &&& 0xFF

/-- `propertySearch`: `for to > from { middle := (from + to) / 2; … }`. The loop runs at most
`len(dictionary)` times (`to - from` shrinks every round), which is the fuel; `dictionary[middle]`
is in range whenever `to ≤ len(dictionary)` (`Proofs/Table.searchLoop_index`). -/
def searchLoop (t : Array Nat) (r : Nat) : Nat → Nat → Nat → Nat
  | 0, _, _ => 0
  | fuel + 1, fr, to =>
    if fr < to then
      let m := (fr + to) / 2
      let e := t.getD m 0
      if r < eLo e then searchLoop t r fuel fr m
      else if eHi e < r then searchLoop t r fuel (m + 1) to
      else e
    else 0

def propertySearch (t : Array Nat) (r : Nat) : Nat := searchLoop t r (t.size + 1) 0 t.size

/-- `property(dictionary, r)` -/
def property (t : Array Nat) (r : Nat) : Nat := eProp (propertySearch t r)

def graphemeTable : Array Nat := graphemeCodePoints.toArray
def wordTable : Array Nat := workBreakCodePoints.toArray
def sentenceTable : Array Nat := sentenceBreakCodePoints.toArray
def lineTable : Array Nat := lineBreakCodePoints.toArray
def eawTable : Array Nat := eastAsianWidth.toArray
def emojiTable : Array Nat := emojiPresentation.toArray

/-- `propertyLineBreak` -/
def propertyLineBreak (r : Nat) : Nat × Nat :=
  if 0x61 ≤ r && r ≤ 0x7A then (prAL, gcLl)
  else if 0x41 ≤ r && r ≤ 0x5A then (prAL, gcLu)
  else if 0x30 ≤ r && r ≤ 0x39 then (prNU, gcNd)
  else
    let e := propertySearch lineTable r
    (eProp e, eGc e)

/-- `propertyGraphemes` -/
def propertyGraphemes (r : Nat) : Nat :=
  if 0x20 ≤ r && r ≤ 0x7E then prAny
  else if r = 0x0A then prLF
  else if r = 0x0D then prCR
  else if r ≤ 0x1F || r = 0x7F then prControl
  else property graphemeTable r

/-- `propertyEastAsianWidth` -/
def propertyEastAsianWidth (r : Nat) : Nat :=
  if 0x20 ≤ r && r ≤ 0x7E then prNa
  else if r ≤ 0x1F || r = 0x7F then prN
  else property eawTable r

end Uniseg
