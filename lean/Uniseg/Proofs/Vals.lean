import Uniseg.Proofs.Chain
/-! # The loops see a text only through its code points

Every code-point-level loop result (count, extra, state) is a function of the decoded scalar
values alone — not of how many bytes each took. Together with `Bytes.reencode_vals` this is C10:
an ill-formed byte behaves exactly like an encoded U+FFFD. -/
namespace Uniseg.Vals
open Uniseg Uniseg.Chain

/-- `f` depends on the runes only through their values -/
def ValOnly {X : Type} (f : List Rune → Option Nat → Nat × X × Nat) : Prop :=
  ∀ rs rs' st, runeVals rs = runeVals rs' → f rs st = f rs' st

theorem vals_cons {r r' : Rune} {rest rest' : List Rune} (h : runeVals (r :: rest) = runeVals (r' :: rest')) :
    r.1 = r'.1 ∧ runeVals rest = runeVals rest' := by
  simp only [runeVals, List.map_cons, List.cons.injEq] at h
  exact h

theorem vals_nil {rs' : List Rune} (h : runeVals ([] : List Rune) = runeVals rs') : rs' = [] := by
  cases rs' with
  | nil => rfl
  | cons _ _ => simp [runeVals] at h

theorem firstSeg_valOnly {V : Type} (tr : Option Nat → Nat → List Nat → Nat × V) (isB : V → Bool) (e : Nat) :
    ValOnly (firstSeg tr isB e) := by
  intro rs rs' st h
  cases rs with
  | nil => rw [vals_nil h]
  | cons r rest =>
    cases rs' with
    | nil => simp [runeVals] at h
    | cons r' rest' =>
      obtain ⟨h1, h2⟩ := vals_cons h
      rw [firstSeg_eq, firstSeg_eq, h1, h2]

theorem gcLoop_vals (amb fp : Nat) : ∀ (rest rest' : List Rune) (state width : Nat),
    runeVals rest = runeVals rest' → gcLoop amb fp state width rest = gcLoop amb fp state width rest' := by
  intro rest
  induction rest with
  | nil => intro rest' _ _ h; rw [vals_nil h]
  | cons r rest ih =>
    intro rest' state width h
    cases rest' with
    | nil => simp [runeVals] at h
    | cons r' rest2' =>
      obtain ⟨h1, h2⟩ := vals_cons h
      simp only [gcLoop, h1]
      split
      · rfl
      · cases rest with
        | nil => rw [vals_nil h2]
        | cons r2 rest2 =>
          cases rest2' with
          | nil => simp [runeVals] at h2
          | cons r2' rest3' =>
            simp only
            rw [ih (r2' :: rest3') _ _ h2]

theorem fg_valOnly (amb : Nat) : ValOnly (firstGraphemeClusterR amb) := by
  intro rs rs' st h
  cases rs with
  | nil => rw [vals_nil h]
  | cons r rest =>
    cases rs' with
    | nil => simp [runeVals] at h
    | cons r' rest' =>
      obtain ⟨h1, h2⟩ := vals_cons h
      cases rest with
      | nil => rw [vals_nil h2]; simp only [firstGraphemeClusterR, h1]
      | cons r2 rest2 =>
        cases rest' with
        | nil => simp [runeVals] at h2
        | cons r2' rest2' =>
          simp only [firstGraphemeClusterR, h1]
          cases st with
          | none => simp only; rw [gcLoop_vals amb _ _ _ _ _ h2]
          | some s => simp only; rw [gcLoop_vals amb _ _ _ _ _ h2]

theorem stepLoop_vals (amb fp : Nat) : ∀ (rest rest' : List Rune) (x : StepSt) (width : Nat),
    runeVals rest = runeVals rest' → stepLoop amb fp x width rest = stepLoop amb fp x width rest' := by
  intro rest
  induction rest with
  | nil => intro rest' _ _ h; rw [vals_nil h]
  | cons r rest ih =>
    intro rest' x width h
    cases rest' with
    | nil => simp [runeVals] at h
    | cons r' rest2' =>
      obtain ⟨h1, h2⟩ := vals_cons h
      simp only [stepLoop, h1, h2]
      split
      · rfl
      · cases rest with
        | nil => rw [vals_nil h2]
        | cons r2 rest2 =>
          cases rest2' with
          | nil => simp [runeVals] at h2
          | cons r2' rest3' =>
            simp only
            rw [ih (r2' :: rest3') _ _ h2]

theorem step_valOnly (isString : Bool) (amb : Nat) : ValOnly (stepR isString amb) := by
  intro rs rs' st h
  cases rs with
  | nil => rw [vals_nil h]
  | cons r rest =>
    cases rs' with
    | nil => simp [runeVals] at h
    | cons r' rest' =>
      obtain ⟨h1, h2⟩ := vals_cons h
      cases rest with
      | nil => rw [vals_nil h2]; simp only [stepR, h1]
      | cons r2 rest2 =>
        cases rest' with
        | nil => simp [runeVals] at h2
        | cons r2' rest2' =>
          simp only [stepR, h1, h2]
          cases st with
          | none => simp only; rw [stepLoop_vals amb _ _ _ _ _ h2]
          | some s => simp only; rw [stepLoop_vals amb _ _ _ _ _ h2]

/-- the whole chain depends on the text only through its code points -/
theorem chain_vals {X : Type} (f : List Rune → Option Nat → Nat × X × Nat) (hv : ValOnly f) :
    ∀ (fuel : Nat) (rs rs' : List Rune) (st : Option Nat), runeVals rs = runeVals rs' →
      chainFuel f fuel rs st = chainFuel f fuel rs' st := by
  intro fuel
  induction fuel with
  | zero => intro _ _ _ _; rfl
  | succ fuel ih =>
    intro rs rs' st h
    cases rs with
    | nil => rw [vals_nil h]
    | cons r rest =>
      cases rs' with
      | nil => simp [runeVals] at h
      | cons r' rest' =>
        simp only [chainFuel]
        rw [hv _ _ st h]
        congr 1
        apply ih
        simp only [runeVals] at h ⊢
        rw [List.map_drop, List.map_drop, h]

theorem chain_valOnly {X : Type} (f : List Rune → Option Nat → Nat × X × Nat) (hv : ValOnly f)
    (rs rs' : List Rune) (st : Option Nat) (h : runeVals rs = runeVals rs') : chain f rs st = chain f rs' st := by
  unfold chain
  have hl : rs.length = rs'.length := by
    have := congrArg List.length h
    simpa [runeVals] using this
  rw [hl]
  exact chain_vals f hv _ rs rs' st h

end Uniseg.Vals
