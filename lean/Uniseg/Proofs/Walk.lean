import Uniseg.Proofs.Table
import Uniseg.Ref.Sig
/-! # Walks: a range table equals the reference classification on all code points

`Ref.sig` partitions `0 … 0x10FFFF` into rows of constant reference classification. `walk` goes
through the rows and a (sorted) range table in parallel and checks that the table's interval lookup
is, on every row, the constant the row prescribes. It is linear, evaluated by the kernel on the
regenerated table (`decide +kernel`), and `walk_sound` lifts it to *every* code point. -/
namespace Uniseg.Walk
open Uniseg Uniseg.Table Uniseg.Ref

/-- rows are non-empty ranges, contiguous from `lo` to `0x10FFFF` -/
def rowsOK : Nat → List Row → Bool
  | lo, [] => lo == 0x110000
  | lo, row :: rows => row.lo == lo && decide (row.lo ≤ row.hi) && rowsOK (row.hi + 1) rows

theorem rows_cover : ∀ (rows : List Row) (lo : Nat), rowsOK lo rows = true →
    ∀ r, lo ≤ r → r < 0x110000 → ∃ row ∈ rows, row.lo ≤ r ∧ r ≤ row.hi := by
  intro rows
  induction rows with
  | nil =>
    intro lo h r h1 h2
    simp only [rowsOK, beq_iff_eq] at h
    omega
  | cons row rows ih =>
    intro lo h r h1 h2
    simp only [rowsOK, Bool.and_eq_true, beq_iff_eq, decide_eq_true_eq] at h
    obtain ⟨⟨h3, h4⟩, h5⟩ := h
    by_cases hr : r ≤ row.hi
    · exact ⟨row, List.mem_cons_self .., by omega, hr⟩
    · obtain ⟨row', hm, hb⟩ := ih (row.hi + 1) h5 r (by omega) h2
      exact ⟨row', List.mem_cons_of_mem _ hm, hb⟩

/-- drop the entries that end before `lo` -/
def skip (lo : Nat) : List Nat → List Nat
  | [] => []
  | e :: es => if eHi e < lo then skip lo es else e :: es

theorem skip_lookup (lo : Nat) : ∀ (tbl : List Nat) (r : Nat), lo ≤ r → lookupE (skip lo tbl) r = lookupE tbl r := by
  intro tbl
  induction tbl with
  | nil => intro _ _; rfl
  | cons e es ih =>
    intro r hr
    simp only [skip]
    split
    · rename_i h
      rw [ih r hr]
      simp only [lookupE]
      rw [if_neg (by omega)]
    · rfl

theorem skip_sorted (lo : Nat) : ∀ (tbl : List Nat), Sorted tbl → Sorted (skip lo tbl) := by
  intro tbl
  induction tbl with
  | nil => intro h; exact h
  | cons e es ih =>
    intro h
    simp only [skip]
    split
    · exact ih ⟨fun x hx => h.wf x (List.mem_cons_of_mem _ hx), (List.pairwise_cons.mp h.pw).2⟩
    · exact h

/-- on `[lo, hi]` the table's interval lookup (projected by `norm`) is the constant `exp`; the range
may span several adjacent entries and gaps -/
def coverRow (exp : Nat) (norm : Nat → Nat) : Nat → Nat → List Nat → Bool
  | _, _, [] => norm 0 == exp
  | lo, hi, e :: es =>
    if eHi e < lo then coverRow exp norm lo hi es                 -- entry entirely before the range
    else if hi < eLo e then norm 0 == exp                         -- entry entirely after: the range is a gap
    else
      (decide (eLo e ≤ lo) || norm 0 == exp) &&                   -- the part before the entry is a gap
      norm e == exp &&
      (decide (hi ≤ eHi e) || coverRow exp norm (eHi e + 1) hi es)

theorem coverRow_sound (exp : Nat) (norm : Nat → Nat) : ∀ (tbl : List Nat) (lo hi : Nat), Sorted tbl →
    coverRow exp norm lo hi tbl = true → ∀ r, lo ≤ r → r ≤ hi → norm (lookupE tbl r) = exp := by
  intro tbl
  induction tbl with
  | nil =>
    intro lo hi _ h r _ _
    simp only [coverRow, beq_iff_eq] at h
    simpa [lookupE] using h
  | cons e es ih =>
    intro lo hi hs h r h1 h2
    have hwf := hs.wf e (List.mem_cons_self ..)
    have hpw := List.pairwise_cons.mp hs.pw
    have hs' : Sorted es := ⟨fun x hx => hs.wf x (List.mem_cons_of_mem _ hx), hpw.2⟩
    have hlater : r < eLo e → lookupE (e :: es) r = 0 := by
      intro hr
      apply lookupE_none
      intro x hx hc
      rcases List.mem_cons.mp hx with rfl | hx'
      · omega
      · have := hpw.1 x hx'; omega
    simp only [coverRow] at h
    split at h
    · rename_i hb
      simp only [lookupE]
      rw [if_neg (by omega)]
      exact ih lo hi hs' h r h1 h2
    · rename_i hb
      split at h
      · rename_i ha
        simp only [beq_iff_eq] at h
        rw [hlater (by omega)]; exact h
      · rename_i ha
        simp only [Bool.and_eq_true, Bool.or_eq_true, decide_eq_true_eq, beq_iff_eq] at h
        obtain ⟨⟨hpre, hmid⟩, hpost⟩ := h
        by_cases hr1 : r < eLo e
        · rw [hlater hr1]
          rcases hpre with hp | hp
          · omega
          · exact hp
        · by_cases hr2 : r ≤ eHi e
          · simp only [lookupE]
            rw [if_pos ⟨by omega, hr2⟩]
            exact hmid
          · simp only [lookupE]
            rw [if_neg (by omega)]
            rcases hpost with hp | hp
            · omega
            · exact ih (eHi e + 1) hi hs' hp r (by omega) h2

/-- the walk: every reference row is covered with its prescribed value -/
def walk (exp : Row → Nat) (norm : Nat → Nat) : List Row → List Nat → Bool
  | [], _ => true
  | row :: rows, tbl =>
    coverRow (exp row) norm row.lo row.hi (skip row.lo tbl) && walk exp norm rows (skip row.lo tbl)

theorem walk_sound (exp : Row → Nat) (norm : Nat → Nat) (tbl0 : List Nat) :
    ∀ (rows : List Row) (tbl : List Nat) (lo : Nat), rowsOK lo rows = true → Sorted tbl →
      (∀ r, lo ≤ r → lookupE tbl0 r = lookupE tbl r) → walk exp norm rows tbl = true →
      ∀ row ∈ rows, ∀ r, row.lo ≤ r → r ≤ row.hi → norm (lookupE tbl0 r) = exp row := by
  intro rows
  induction rows with
  | nil => intro _ _ _ _ _ _ row hrow; cases hrow
  | cons row0 rows ih =>
    intro tbl lo hok hs hinv hw row hrow r h1 h2
    simp only [rowsOK, Bool.and_eq_true, beq_iff_eq, decide_eq_true_eq] at hok
    obtain ⟨⟨hlo, hle⟩, hrest⟩ := hok
    simp only [walk, Bool.and_eq_true] at hw
    obtain ⟨hhead, htail⟩ := hw
    have hs' := skip_sorted row0.lo tbl hs
    have hinv' : ∀ r, row0.lo ≤ r → lookupE tbl0 r = lookupE (skip row0.lo tbl) r := by
      intro r hr
      rw [hinv r (by omega), skip_lookup row0.lo tbl r hr]
    rcases List.mem_cons.mp hrow with rfl | hrow'
    · rw [hinv' r h1]
      exact coverRow_sound (exp row) norm _ row.lo row.hi hs' hhead r h1 h2
    · exact ih (skip row0.lo tbl) (row0.hi + 1) hrest hs' (fun r hr => hinv' r (by omega)) htail row hrow' r h1 h2

/-- **a table agrees with the reference on every code point** -/
theorem table_eq_ref (exp : Row → Nat) (norm : Nat → Nat) (tbl : List Nat)
    (hsorted : sortedB tbl = true) (hrows : rowsOK 0 sig = true) (hwalk : walk exp norm sig tbl = true) :
    ∀ r, r < 0x110000 → ∃ row ∈ sig, row.lo ≤ r ∧ r ≤ row.hi ∧ norm (lookupE tbl r) = exp row := by
  intro r hr
  obtain ⟨row, hm, h1, h2⟩ := rows_cover sig 0 hrows r (Nat.zero_le _) hr
  exact ⟨row, hm, h1, h2, walk_sound exp norm tbl sig tbl 0 hrows (sortedB_sound tbl hsorted) (fun _ _ => rfl) hwalk row hm r h1 h2⟩

/-- the row of a code point (rows are disjoint, so it is unique) -/
def rowAt (r : Nat) : List Row → Option Row
  | [] => none
  | row :: rows => if row.lo ≤ r ∧ r ≤ row.hi then some row else rowAt r rows

theorem rowAt_unique : ∀ (rows : List Row) (lo : Nat), rowsOK lo rows = true →
    ∀ row ∈ rows, ∀ r, row.lo ≤ r → r ≤ row.hi → rowAt r rows = some row := by
  intro rows
  induction rows with
  | nil => intro _ _ row h; cases h
  | cons row0 rows ih =>
    intro lo hok row hrow r h1 h2
    simp only [rowsOK, Bool.and_eq_true, beq_iff_eq, decide_eq_true_eq] at hok
    obtain ⟨⟨hlo, hle⟩, hrest⟩ := hok
    simp only [rowAt]
    rcases List.mem_cons.mp hrow with rfl | hrow'
    · rw [if_pos ⟨h1, h2⟩]
    · -- later rows start after row0.hi
      have hge : ∀ (rows : List Row) (lo : Nat), rowsOK lo rows = true → ∀ x ∈ rows, lo ≤ x.lo := by
        intro rows
        induction rows with
        | nil => intro _ _ x hx; cases hx
        | cons a as iha =>
          intro lo h x hx
          simp only [rowsOK, Bool.and_eq_true, beq_iff_eq, decide_eq_true_eq] at h
          rcases List.mem_cons.mp hx with rfl | hx'
          · omega
          · have := iha (a.hi + 1) h.2 x hx'; omega
      have := hge rows (row0.hi + 1) hrest row hrow'
      rw [if_neg (by omega)]
      exact ih (row0.hi + 1) hrest row hrow' r h1 h2

end Uniseg.Walk
