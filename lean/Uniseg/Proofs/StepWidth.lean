import Uniseg.Proofs.ChainStep
import Uniseg.Proofs.ChainG
/-! # `Step`/`StepString` report the widths `FirstGraphemeCluster` reports (C08, "with the same widths")

A relational induction over the two chains of calls. The carried states are related by
`RelSG`: both −1, or `Step`'s state is `packStep x p` and `FirstGraphemeCluster`'s is
`x.g ||| p <<< 4`, with `p` the grapheme class of the first code point of the rest (this *coherence*
is what makes `StepString`'s early return, which looks the class up again, agree). -/
namespace Uniseg.StepWidth
open Uniseg Uniseg.Gen Uniseg.Chain Uniseg.ChainStep Uniseg.ChainG

/-- the width field of a `boundaries` value -/
theorem width_mk (l width : Nat) (w s : Bool) (hl : l < 4) :
    (l ||| (width <<< ShiftWidth) ||| (if w then 1 <<< shiftWord else 0) ||| (if s then 1 <<< shiftSentence else 0)) >>> ShiftWidth = width := by
  have hreg : l ||| (width <<< ShiftWidth) ||| (if w then 1 <<< shiftWord else 0) ||| (if s then 1 <<< shiftSentence else 0) =
      (l ||| (if w then 1 <<< shiftWord else 0) ||| (if s then 1 <<< shiftSentence else 0)) ||| (width <<< ShiftWidth) := by
    ac_rfl
  rw [hreg]
  have hl' : l = 0 ∨ l = 1 ∨ l = 2 ∨ l = 3 := by omega
  have key : ∀ y, y < 16 → (y ||| (width <<< ShiftWidth)) >>> ShiftWidth = width := by
    intro y hy
    rw [show y ||| (width <<< ShiftWidth) = width * 2 ^ 4 + y from or_shift width y 4 (by omega)]
    show (width * 2 ^ 4 + y) >>> 4 = width
    rw [Nat.shiftRight_eq_div_pow]; omega
  rcases hl' with rfl | rfl | rfl | rfl <;> cases w <;> cases s <;> exact key _ (by decide)

theorem width_end (width : Nat) : endBoundaries width >>> ShiftWidth = width := by
  unfold endBoundaries
  have : LineMustBreak ||| (1 <<< shiftWord) ||| (1 <<< shiftSentence) ||| (width <<< ShiftWidth) =
      LineMustBreak ||| (width <<< ShiftWidth) ||| (if true then 1 <<< shiftWord else 0) ||| (if true then 1 <<< shiftSentence else 0) := by
    simp only [↓reduceIte]
    ac_rfl
  rw [this, width_mk _ _ _ _ (by decide)]

/-- what relates the two carried states before a call on `rs` -/
def RelSG (ss gs : Option Nat) (rs : List Rune) : Prop :=
  rs = [] ∨ (ss = none ∧ gs = none) ∨
    ∃ x p, WFS x ∧ ss = some (packStep x p) ∧ gs = some (x.g ||| (p <<< shiftGraphemePropState)) ∧
      ∃ r rs', rs = r :: rs' ∧ p = propertyGraphemes r.1

theorem mask_lt (a : Nat) (h : a < 16) : a &&& maskGraphemeState = a := by
  show a &&& 15 = a
  rw [show (15 : Nat) = 2 ^ 4 - 1 from rfl, Nat.and_two_pow_sub_one_eq_mod]; omega

/-- the two cluster loops side by side -/
theorem loops_rel (amb fp : Nat) : ∀ (rest : List Rune) (x : StepSt) (gst width : Nat), WFS x →
    gst &&& maskGraphemeState = x.g → rest ≠ [] →
    (stepLoop amb fp x width rest).1 = (gcLoop amb fp gst width rest).1 ∧
    (stepLoop amb fp x width rest).2.1 >>> ShiftWidth = (gcLoop amb fp gst width rest).2.1 ∧
    ((stepLoop amb fp x width rest).1 < rest.length →
      RelSG (some (stepLoop amb fp x width rest).2.2) (some (gcLoop amb fp gst width rest).2.2)
        (rest.drop (stepLoop amb fp x width rest).1)) := by
  intro rest
  induction rest with
  | nil => intro _ _ _ _ _ h; exact absurd rfl h
  | cons r rest ih =>
    intro x gst width hx hg _
    simp only [stepLoop, gcLoop, hg]
    by_cases hb : (transitionGraphemeState (some x.g) r.1).2.2 = true
    · simp only [hb, ↓reduceIte, List.drop_zero]
      refine ⟨trivial, width_mk _ _ _ _ (line_verdict_lt _ _ _), fun _ => ?_⟩
      refine Or.inr (Or.inr ⟨_, _, trStep_wf (some x) (fun y hy => by cases hy; exact hx) r.1 (runeVals rest), rfl, rfl, r, rest, rfl, rfl⟩)
    · simp only [hb, Bool.false_eq_true, ↓reduceIte]
      cases rest with
      | nil =>
        refine ⟨rfl, width_end _, fun h => ?_⟩
        simp at h
      | cons r2 rest2 =>
        have hwf : WFS ⟨(transitionGraphemeState (some x.g) r.1).1, (transitionWordBreakState (some x.w) r.1 (runeVals (r2 :: rest2))).1,
            (transitionSentenceBreakState (some x.s) r.1 (runeVals (r2 :: rest2))).1,
            (transitionLineBreakState (some x.l) r.1 (runeVals (r2 :: rest2))).1⟩ :=
          trStep_wf (some x) (fun y hy => by cases hy; exact hx) r.1 (runeVals (r2 :: rest2))
        have := ih ⟨(transitionGraphemeState (some x.g) r.1).1, (transitionWordBreakState (some x.w) r.1 (runeVals (r2 :: rest2))).1,
            (transitionSentenceBreakState (some x.s) r.1 (runeVals (r2 :: rest2))).1,
            (transitionLineBreakState (some x.l) r.1 (runeVals (r2 :: rest2))).1⟩
          (transitionGraphemeState (some x.g) r.1).1
          (widthStep amb fp width r.1 (transitionGraphemeState (some x.g) r.1).2.1) hwf
          (mask_lt _ (trans_state_lt _ _)) (by simp)
        obtain ⟨h1, h2, h3⟩ := this
        refine ⟨by simp only [h1], h2, fun hlt => ?_⟩
        simp only [List.drop_succ_cons]
        exact h3 (by simp only [List.length_cons] at hlt ⊢; omega)

/-- **one call** of `Step`/`StepString` next to one call of `FirstGraphemeCluster`, from related states -/
theorem call_rel (isString : Bool) (amb : Nat) (rs : List Rune) (ss gs : Option Nat) (h : RelSG ss gs rs) (hne : rs ≠ []) :
    (stepR isString amb rs ss).1 = (firstGraphemeClusterR amb rs gs).1 ∧
    (stepR isString amb rs ss).2.1 >>> ShiftWidth = (firstGraphemeClusterR amb rs gs).2.1 ∧
    RelSG (some (stepR isString amb rs ss).2.2) (some (firstGraphemeClusterR amb rs gs).2.2)
      (rs.drop (stepR isString amb rs ss).1) := by
  cases rs with
  | nil => exact absurd rfl hne
  | cons r rest =>
    rcases h with h | ⟨rfl, rfl⟩ | ⟨x, p, hx, rfl, rfl, r', rs', hrs, hp⟩
    · cases h
    · -- both from −1
      cases rest with
      | nil =>
        cases isString
        · exact ⟨rfl, width_end _, Or.inl rfl⟩
        · exact ⟨rfl, width_end _, Or.inl rfl⟩
      | cons r2 rest2 =>
        simp only [stepR, firstGraphemeClusterR]
        have hwf : WFS ⟨(transitionGraphemeState none r.1).1, (transitionWordBreakState none r.1 (runeVals (r2 :: rest2))).1,
            (transitionSentenceBreakState none r.1 (runeVals (r2 :: rest2))).1,
            (transitionLineBreakState none r.1 (runeVals (r2 :: rest2))).1⟩ :=
          trStep_wf none (fun y hy => by cases hy) r.1 (runeVals (r2 :: rest2))
        obtain ⟨h1, h2, h3⟩ := loops_rel amb (transitionGraphemeState none r.1).2.1 (r2 :: rest2) _
          (transitionGraphemeState none r.1).1 (runeWidth amb r.1 (transitionGraphemeState none r.1).2.1) hwf
          (mask_lt _ (trans_state_lt _ _)) (by simp)
        refine ⟨by simp only [h1], h2, ?_⟩
        simp only [List.drop_succ_cons]
        by_cases hlt : (stepLoop amb (transitionGraphemeState none r.1).2.1
            ⟨(transitionGraphemeState none r.1).1, (transitionWordBreakState none r.1 (runeVals (r2 :: rest2))).1,
              (transitionSentenceBreakState none r.1 (runeVals (r2 :: rest2))).1,
              (transitionLineBreakState none r.1 (runeVals (r2 :: rest2))).1⟩
            (runeWidth amb r.1 (transitionGraphemeState none r.1).2.1) (r2 :: rest2)).1 < (r2 :: rest2).length
        · exact h3 hlt
        · exact Or.inl (List.drop_eq_nil_of_le (by omega))
    · -- both from carried states
      cases hrs
      subst hp
      have hup := unpack_pack x (propertyGraphemes r.1) hx
      have hgp := Uniseg.ChainG.unpack_state x.g (propertyGraphemes r.1) hx.1
      have hgs : (x.g ||| (propertyGraphemes r.1 <<< shiftGraphemePropState)) >>> shiftGraphemePropState = propertyGraphemes r.1 := by
        show (x.g ||| (propertyGraphemes r.1 <<< 4)) >>> 4 = _
        rw [or_shift _ x.g 4 (by have := hx.1; omega), Nat.shiftRight_eq_div_pow]
        have := hx.1; omega
      cases rest with
      | nil =>
        cases isString
        · simp only [stepR, firstGraphemeClusterR, Bool.false_eq_true, ↓reduceIte, hup.2, hgs]
          exact ⟨trivial, width_end _, Or.inl rfl⟩
        · simp only [stepR, firstGraphemeClusterR, ↓reduceIte, hgs]
          exact ⟨trivial, width_end _, Or.inl rfl⟩
      | cons r2 rest2 =>
        simp only [stepR, firstGraphemeClusterR, hgs]
        have hdec : (⟨packStep x (propertyGraphemes r.1) &&& maskGraphemeState,
            (packStep x (propertyGraphemes r.1) >>> shiftWordState) &&& maskWordState,
            (packStep x (propertyGraphemes r.1) >>> shiftSentenceState) &&& maskSentenceState,
            (packStep x (propertyGraphemes r.1) >>> shiftLineState) &&& maskLineState⟩ : StepSt) = x := hup.1
        rw [hdec, hup.2]
        obtain ⟨h1, h2, h3⟩ := loops_rel amb (propertyGraphemes r.1) (r2 :: rest2) x
          (x.g ||| (propertyGraphemes r.1 <<< shiftGraphemePropState)) (runeWidth amb r.1 (propertyGraphemes r.1)) hx hgp (by simp)
        refine ⟨by simp only [h1], h2, ?_⟩
        simp only [List.drop_succ_cons]
        by_cases hlt : (stepLoop amb (propertyGraphemes r.1) x (runeWidth amb r.1 (propertyGraphemes r.1)) (r2 :: rest2)).1 < (r2 :: rest2).length
        · exact h3 hlt
        · exact Or.inl (List.drop_eq_nil_of_le (by omega))

/-- **the two chains**: same cluster lengths and same widths, call by call -/
theorem chains_rel (isString : Bool) (amb : Nat) : ∀ (fuel : Nat) (rs : List Rune) (ss gs : Option Nat), RelSG ss gs rs →
    (chainFuel (stepR isString amb) fuel rs ss).map (fun x => (x.1, x.2.1 >>> ShiftWidth)) =
      (chainFuel (firstGraphemeClusterR amb) fuel rs gs).map (fun x => (x.1, x.2.1)) := by
  intro fuel
  induction fuel with
  | zero => intro _ _ _ _; rfl
  | succ fuel ih =>
    intro rs ss gs h
    cases rs with
    | nil => rfl
    | cons r rest =>
      obtain ⟨h1, h2, h3⟩ := call_rel isString amb (r :: rest) ss gs h (by simp)
      simp only [chainFuel, List.map_cons]
      rw [h1, h2]
      congr 1
      rw [← h1]
      exact ih _ _ _ h3

end Uniseg.StepWidth
