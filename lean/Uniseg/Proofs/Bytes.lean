import Uniseg.Proofs.Chain
/-! # Bytes ↔ decoded runes

`runesOf b` iterates `decodeRune` exactly as the Go loops do. Sizes are ≥ 1 and add up to
`len b`; cutting `b` after the bytes of the first `k` runes and decoding the rest gives the
remaining runes; re-encoding the decoded scalar values gives a byte string with the same scalar
values (ill-formed bytes having become U+FFFD). -/
namespace Uniseg.Bytes
open Uniseg Uniseg.Utf8

theorem runesOf_nil : runesOf [] = [] := by
  rw [runesOf]; simp

theorem runesOf_cons (b : List Nat) (h : b ≠ []) :
    runesOf b = decodeRune b :: runesOf (b.drop (decodeRune b).2) := by
  rw [runesOf]; simp [h]

/-- every decoded size is at least one byte -/
theorem runesOf_size_pos : ∀ (n : Nat) (b : List Nat), b.length ≤ n → ∀ r ∈ runesOf b, 1 ≤ r.2 := by
  intro n
  induction n with
  | zero =>
    intro b h r hr
    have : b = [] := List.eq_nil_of_length_eq_zero (by omega)
    subst this; rw [runesOf_nil] at hr; cases hr
  | succ n ih =>
    intro b h r hr
    by_cases hb : b = []
    · subst hb; rw [runesOf_nil] at hr; cases hr
    · rw [runesOf_cons b hb] at hr
      have hp := decode_size_pos b hb
      rcases List.mem_cons.mp hr with rfl | hr'
      · exact hp
      · exact ih (b.drop (decodeRune b).2) (by simp only [List.length_drop]; omega) r hr'

/-- the decoded sizes add up to the length of the input: segments computed as sums of sizes
partition the bytes, and `len(b) <= length` in the Go loops is "no rune left" -/
theorem sizeSum_runesOf : ∀ (n : Nat) (b : List Nat), b.length ≤ n → sizeSum (runesOf b) = b.length := by
  intro n
  induction n with
  | zero =>
    intro b h
    have : b = [] := List.eq_nil_of_length_eq_zero (by omega)
    subst this; rw [runesOf_nil]; rfl
  | succ n ih =>
    intro b h
    by_cases hb : b = []
    · subst hb; rw [runesOf_nil]; rfl
    · rw [runesOf_cons b hb]
      have hp := decode_size_pos b hb
      have hle := decode_size_le b
      simp only [sizeSum]
      rw [ih (b.drop (decodeRune b).2) (by simp only [List.length_drop]; omega)]
      simp only [List.length_drop]; omega

/-- cutting after the bytes of the first `k` runes and decoding again gives the remaining runes -/
theorem runesOf_drop : ∀ (k : Nat) (b : List Nat),
    runesOf (b.drop (sizeSum ((runesOf b).take k))) = (runesOf b).drop k := by
  intro k
  induction k with
  | zero => intro b; simp [sizeSum]
  | succ k ih =>
    intro b
    by_cases hb : b = []
    · subst hb; simp [runesOf_nil, sizeSum]
    · rw [runesOf_cons b hb]
      simp only [List.take_succ_cons, sizeSum, List.drop_succ_cons]
      rw [← ih (b.drop (decodeRune b).2), List.drop_drop]

theorem sizeSum_take_le (rs : List (Nat × Nat)) (k : Nat) : sizeSum (rs.take k) ≤ sizeSum rs := by
  induction rs generalizing k with
  | nil => simp [sizeSum]
  | cons r rs ih =>
    cases k with
    | zero => simp [sizeSum]
    | succ k => simp only [List.take_succ_cons, sizeSum]; have := ih k; omega

theorem sizeSum_take_pos (rs : List (Nat × Nat)) (h : ∀ r ∈ rs, 1 ≤ r.2) (k : Nat) (hk : 1 ≤ k) (hne : rs ≠ []) :
    1 ≤ sizeSum (rs.take k) := by
  cases rs with
  | nil => exact absurd rfl hne
  | cons r rs =>
    cases k with
    | zero => omega
    | succ k => simp only [List.take_succ_cons, sizeSum]; have := h r (List.mem_cons_self ..); omega

/-- cutting after the bytes of the first `k` runes and decoding the prefix gives the first `k` runes -/
theorem runesOf_take : ∀ (k : Nat) (b : List Nat),
    runesOf (b.take (sizeSum ((runesOf b).take k))) = (runesOf b).take k := by
  intro k
  induction k with
  | zero => intro b; simp [sizeSum, runesOf_nil]
  | succ k ih =>
    intro b
    by_cases hb : b = []
    · subst hb; simp [runesOf_nil, sizeSum]
    · rw [runesOf_cons b hb]
      simp only [List.take_succ_cons, sizeSum]
      have hp := decode_size_pos b hb
      have hle := decode_size_le b
      -- the prefix `x` and what follows it
      have hsplit : b = b.take ((decodeRune b).2 + sizeSum ((runesOf (b.drop (decodeRune b).2)).take k)) ++
          b.drop ((decodeRune b).2 + sizeSum ((runesOf (b.drop (decodeRune b).2)).take k)) := (List.take_append_drop _ _).symm
      have hxne : b.take ((decodeRune b).2 + sizeSum ((runesOf (b.drop (decodeRune b).2)).take k)) ≠ [] := by
        intro hnil
        have := congrArg List.length hnil
        simp only [List.length_take, List.length_nil] at this
        have : 0 < b.length := List.length_pos_iff.mpr hb
        omega
      have hdec : decodeRune (b.take ((decodeRune b).2 + sizeSum ((runesOf (b.drop (decodeRune b).2)).take k))) = decodeRune b := by
        have h1 := decode_prefix _ (b.drop ((decodeRune b).2 + sizeSum ((runesOf (b.drop (decodeRune b).2)).take k))) hxne
          (by rw [← hsplit]; simp only [List.length_take]; omega)
        rw [h1, ← hsplit]
      rw [runesOf_cons _ hxne, hdec]
      congr 1
      rw [List.drop_take, Nat.add_sub_cancel_left]
      exact ih (b.drop (decodeRune b).2)

/-- **cutting the bytes at a rune boundary cuts the rune list**: both halves decode to the two parts -/
theorem cut_bytes (k : Nat) (b : List Nat) :
    runesOf (b.take (sizeSum ((runesOf b).take k))) = (runesOf b).take k ∧
    runesOf (b.drop (sizeSum ((runesOf b).take k))) = (runesOf b).drop k :=
  ⟨runesOf_take k b, runesOf_drop k b⟩

/-! ## re-encoding -/

theorem runesOf_encodeAll : ∀ (vals : List Nat), (∀ v ∈ vals, isScalar v) →
    (runesOf (encodeAll vals)).map (·.1) = vals := by
  intro vals
  induction vals with
  | nil => intro _; simp [encodeAll, runesOf_nil]
  | cons v vs ih =>
    intro h
    have hv := h v (List.mem_cons_self ..)
    have hne : encodeAll (v :: vs) ≠ [] := by
      simp only [encodeAll]
      have := encode_length_pos v
      intro hnil
      have h2 := congrArg List.length hnil
      simp only [List.length_append, List.length_nil] at h2; omega
    rw [runesOf_cons _ hne]
    simp only [encodeAll, decode_encode v hv, List.map_cons, List.drop_left']
    rw [ih (fun x hx => h x (List.mem_cons_of_mem _ hx))]

theorem runesOf_scalar : ∀ (n : Nat) (b : List Nat), b.length ≤ n → ∀ r ∈ runesOf b, isScalar r.1 := by
  intro n
  induction n with
  | zero =>
    intro b h r hr
    have : b = [] := List.eq_nil_of_length_eq_zero (by omega)
    subst this; rw [runesOf_nil] at hr; cases hr
  | succ n ih =>
    intro b h r hr
    by_cases hb : b = []
    · subst hb; rw [runesOf_nil] at hr; cases hr
    · rw [runesOf_cons b hb] at hr
      have hp := decode_size_pos b hb
      rcases List.mem_cons.mp hr with rfl | hr'
      · exact decode_scalar b
      · exact ih (b.drop (decodeRune b).2) (by simp only [List.length_drop]; omega) r hr'

/-- **C10, the byte-level core**: replacing every ill-formed byte by U+FFFD (decode, then encode the
scalar values) does not change the sequence of code points the library sees -/
theorem reencode_vals (b : List Nat) :
    runeVals (runesOf (encodeAll (runeVals (runesOf b)))) = runeVals (runesOf b) := by
  unfold runeVals
  apply runesOf_encodeAll
  intro v hv
  obtain ⟨r, hr, rfl⟩ := List.mem_map.mp hv
  exact runesOf_scalar b.length b (Nat.le_refl _) r hr

end Uniseg.Bytes

namespace Uniseg.Bytes
open Uniseg Uniseg.Utf8 Uniseg.Chain

/-! ## byte-level chains -/
section ByteChain
variable {X : Type} (f : List Rune → Option Nat → Nat × X × Nat)

/-- the byte-level function built from a code-point-level loop, as in `Impl/Loops` -/
def wrap (b : List Nat) (st : Option Nat) : Nat × X × Nat :=
  let rs := runesOf b
  let res := f rs st
  (segBytes rs res.1, res.2.1, res.2.2)

/-- feed back `b[n:]` and the state, at most `fuel` times -/
def chainBFuel : Nat → List Nat → Option Nat → List (Nat × X × Nat)
  | 0, _, _ => []
  | fuel + 1, b, st =>
    match b with
    | [] => []
    | _ :: _ => wrap f b st :: chainBFuel fuel (b.drop (wrap f b st).1) (some (wrap f b st).2.2)

/-- byte lengths of the groups of runes a code-point-level chain describes -/
def groupBytes : List Rune → List (Nat × X × Nat) → List (Nat × X × Nat)
  | _, [] => []
  | rs, x :: xs => (segBytes rs x.1, x.2.1, x.2.2) :: groupBytes (rs.drop x.1) xs

variable (hpos : ∀ rs st, rs ≠ [] → 1 ≤ (f rs st).1)
include hpos

/-- the byte-level chain is the code-point-level chain, with lengths converted to bytes -/
theorem chainB_eq : ∀ (fuel : Nat) (b : List Nat) (st : Option Nat), b.length ≤ fuel →
    chainBFuel f fuel b st = groupBytes (runesOf b) (chain f (runesOf b) st) := by
  intro fuel
  induction fuel with
  | zero =>
    intro b st h
    have : b = [] := List.eq_nil_of_length_eq_zero (by omega)
    subst this
    rw [runesOf_nil]; rfl
  | succ fuel ih =>
    intro b st h
    cases hb : b with
    | nil => rw [runesOf_nil]; rfl
    | cons x xs =>
      have hne : b ≠ [] := by rw [hb]; simp
      have hrs : runesOf b ≠ [] := by rw [runesOf_cons b hne]; simp
      obtain ⟨r, rest, hr⟩ := List.exists_cons_of_ne_nil hrs
      rw [← hb]
      have h1 := hpos (runesOf b) st hrs
      have hsz := runesOf_size_pos b.length b (Nat.le_refl _)
      have hp : 1 ≤ segBytes (runesOf b) (f (runesOf b) st).1 :=
        sizeSum_take_pos (runesOf b) hsz _ h1 hrs
      simp only [chainBFuel]
      rw [hb]
      simp only
      rw [← hb]
      rw [ih (b.drop (wrap f b st).1) (some (wrap f b st).2.2) (by
        simp only [wrap, List.length_drop]; rw [hb] at h; simp only [List.length_cons] at h
        rw [hb, List.length_cons]; rw [hb] at hp; omega)]
      simp only [wrap, segBytes]
      rw [runesOf_drop]
      conv => rhs; rw [hr, chain_cons f hpos r rest st, ← hr]
      simp only [groupBytes, segBytes]

end ByteChain
end Uniseg.Bytes
