import Uniseg.Proofs.Chain
import Uniseg.Proofs.Range
/-! # `FirstGraphemeCluster` is a "first cut" loop

Its carried state is `automaton state ||| (class of the next code point <<< 4)`; the loop masks it
with `maskGraphemeState` before every transition. Because every new automaton state is `< 16`
(`Range.transG_lt`, a kernel check of the regenerated table), masking the packed state gives back
the automaton state, so the chain of calls is one left-to-right run. -/
namespace Uniseg.ChainG
open Uniseg Uniseg.Gen Uniseg.Chain

/-- the transition the loop really performs: mask, then `transitionGraphemeState`; verdict = boundary -/
def trGm (st : Option Nat) (r : Nat) (_ : List Nat) : Nat × Bool :=
  let t := transitionGraphemeState (st.map (· &&& maskGraphemeState)) r
  (t.1, t.2.2)

def decG (c : Nat) : Nat := c &&& maskGraphemeState

theorem mask_idem (s : Nat) : (s &&& maskGraphemeState) &&& maskGraphemeState = s &&& maskGraphemeState := by
  rw [Nat.and_assoc, Nat.and_self]

theorem trGm_dec (s : Nat) (r : Nat) (l : List Nat) : trGm (some (decG s)) r l = trGm (some s) r l := by
  simp only [trGm, decG, Option.map_some, mask_idem]

/-- masking `state ||| (prop <<< 4)` gives back a state below 16 -/
theorem unpack_state (a p : Nat) (ha : a < 16) : (a ||| (p <<< shiftGraphemePropState)) &&& maskGraphemeState = a := by
  show (a ||| (p <<< 4)) &&& 15 = a
  have h1 : (a ||| (p <<< 4)) = p <<< 4 + a := by
    rw [Nat.or_comm]; exact (Nat.shiftLeft_add_eq_or_of_lt (by omega : a < 2 ^ 4) p).symm
  rw [h1, show (15 : Nat) = 2 ^ 4 - 1 from rfl, Nat.and_two_pow_sub_one_eq_mod, Nat.shiftLeft_eq]
  omega

theorem trans_state_lt (st : Option Nat) (r : Nat) : (transitionGraphemeState st r).1 < 16 :=
  Range.transG_lt st (propertyGraphemes r)

theorem gcLoop_cut (amb fp : Nat) : ∀ (rest : List Rune) (state width : Nat),
    (gcLoop amb fp state width rest).1 = (firstCutG id (runV trGm (some state) (runeVals rest))).1 ∧
    ∀ t, (firstCutG id (runV trGm (some state) (runeVals rest))).2 = some t →
      decG (gcLoop amb fp state width rest).2.2 = t.1 := by
  intro rest
  induction rest with
  | nil => intro state width; exact ⟨rfl, fun σ' h => by cases h⟩
  | cons r rest ih =>
    intro state width
    simp only [gcLoop, runeVals, List.map_cons, runV, firstCutG, trGm, Option.map_some, id]
    by_cases hb : (transitionGraphemeState (some (state &&& maskGraphemeState)) r.1).2.2 = true
    · simp only [hb, ↓reduceIte, Option.some.injEq, true_and]
      intro σ' h
      subst h
      exact unpack_state _ _ (trans_state_lt _ _)
    · simp only [hb, Bool.false_eq_true, ↓reduceIte]
      cases rest with
      | nil => exact ⟨rfl, fun σ' h => by cases h⟩
      | cons r2 rest2 =>
        have := ih (transitionGraphemeState (some (state &&& maskGraphemeState)) r.1).1
          (widthStep amb fp width r.1 (transitionGraphemeState (some (state &&& maskGraphemeState)) r.1).2.1)
        simp only [runeVals, List.map_cons] at this
        exact ⟨by simp only [this.1, List.map_cons], by simpa only [List.map_cons] using this.2⟩

/-- `FirstGraphemeCluster(InString)` is a first-cut loop over `trGm` with carried-state decoding `decG` -/
theorem fg_isFirstCut (amb : Nat) :
    IsFirstCut trGm id (firstGraphemeClusterR amb) decG (fun _ => ()) (fun _ => ()) := by
  intro r rest st
  cases rest with
  | nil => exact ⟨rfl, (fun σ' h => by cases h), rfl⟩
  | cons r2 rest2 =>
    cases st with
    | none =>
      have := gcLoop_cut amb (transitionGraphemeState none r.1).2.1 (r2 :: rest2) (transitionGraphemeState none r.1).1
        (runeWidth amb r.1 (transitionGraphemeState none r.1).2.1)
      simp only [firstGraphemeClusterR, startG, trGm, Option.map_none]
      exact ⟨by simp only [this.1], this.2, by trivial⟩
    | some s =>
      have := gcLoop_cut amb (s >>> shiftGraphemePropState) (r2 :: rest2) s (runeWidth amb r.1 (s >>> shiftGraphemePropState))
      simp only [firstGraphemeClusterR, startG]
      -- the loop masks the carried state itself; starting the run from `decG s` or from `s` is the same
      have hrun : runV trGm (some (decG s)) (runeVals (r2 :: rest2)) = runV trGm (some s) (runeVals (r2 :: rest2)) := by
        simp only [runeVals, List.map_cons, runV, trGm_dec]
      rw [hrun]
      exact ⟨by simp only [this.1], this.2, by trivial⟩

end Uniseg.ChainG
