import Uniseg.Proofs.Closure
/-! # Cut certificates: look-ahead never crosses a reported boundary (C11, prefix half)

Two runs of the *spec* automaton over the same letters: the full text `pre ++ suf` and the text cut
after `pre`. They share the summary `q` and differ only in the promise about the rest
(`la (w ++ suf)` versus `la w`). A node records both promises and whether the two runs have already
given different verdicts (`d`). The certificate is the reachable set of such nodes, closed under
every letter and every consistent pair of next promises, with the *final condition*: where the cut
text ends (`rc = rhoEnd`) and the runs have differed, the full run cannot report a boundary at the
cut, whatever follows.

`cut_agree` lifts a kernel-checked certificate to every text: if the full run reports a boundary
after `pre`, the verdicts inside `pre` are those of `pre` on its own.

The statement is about the spec automaton only; C01–C04 carry it over to the implementation. -/
set_option linter.unusedSectionVars false
namespace Uniseg.Auto

/-- a node of the two-run product -/
structure Node2 (R Q : Type) where
  q : Q
  rf : R       -- promise of the rest of the full text
  rc : R       -- promise of the rest of the cut text
  d : Bool     -- the two runs have given different verdicts
deriving DecidableEq, Hashable, Inhabited, Repr

variable {L R Q V : Type} [DecidableEq L] [DecidableEq R] [DecidableEq Q] [DecidableEq V]

/-- a row: a node and the successor positions for the *consistent* `(letter, rf', rc')` triples, in
the order of `CutCert.triples` -/
abbrev Row2 (R Q : Type) := Node2 R Q × List Nat

structure CutCert (L R Q : Type) where
  letters : List L
  rhos : List R
  chunks : List (List (Row2 R Q))
  width : Nat

def CutCert.triples (c : CutCert L R Q) : List (L × R × R) :=
  c.letters.flatMap fun x => c.rhos.flatMap fun rf => c.rhos.map fun rc => (x, rf, rc)
def CutCert.nodes (c : CutCert L R Q) : List (Node2 R Q) := c.chunks.flatten.map (·.1)

def CutCert.get (c : CutCert L R Q) (i : Nat) : Option (Node2 R Q) :=
  match c.chunks[i / c.width]? with
  | none => none
  | some ch => match ch[i % c.width]? with
    | none => none
    | some row => some row.1

theorem CutCert.get_mem (c : CutCert L R Q) (i : Nat) (n : Node2 R Q) (h : c.get i = some n) : n ∈ c.nodes := by
  unfold CutCert.get at h
  split at h
  · cases h
  · rename_i ch hch
    split at h
    · cases h
    · rename_i row hrow
      cases h
      have h1 : ch ∈ c.chunks := List.mem_of_getElem? hch
      have h2 : row ∈ ch := List.mem_of_getElem? hrow
      unfold CutCert.nodes
      exact List.mem_map.mpr ⟨row, List.mem_flatten.mpr ⟨ch, h1, h2⟩, rfl⟩

variable (A : Alg L R Q V)

/-- the successor of a node under a letter and the next promises -/
def succ2 (n : Node2 R Q) (x : L) (rf' rc' : R) : Node2 R Q :=
  ⟨A.qstep n.q x, rf', rc', n.d || !(decide (A.qout n.q x rf' = A.qout n.q x rc'))⟩

def consistent2 (n : Node2 R Q) (t : L × R × R) : Bool :=
  decide (A.laStep t.1 t.2.1 = n.rf) && decide (A.laStep t.1 t.2.2 = n.rc)

def checkRow2 (c : CutCert L R Q) (n : Node2 R Q) : List (L × R × R) → List Nat → Bool
  | [], _ => true
  | t :: ts, is =>
    if consistent2 A n t then
      match is with
      | [] => false
      | i :: is' => decide (c.get i = some (succ2 A n t.1 t.2.1 t.2.2)) && checkRow2 c n ts is'
    else checkRow2 c n ts is

/-- where the cut text ends and the runs have differed, the full run reports no boundary at the cut -/
def checkFinal (c : CutCert L R Q) (n : Node2 R Q) : Bool :=
  !(decide (n.rc = A.rhoEnd) && n.d) ||
    c.letters.all fun y => c.rhos.all fun r'' => !(decide (A.laStep y r'' = n.rf)) || !(A.isB (A.qout n.q y r''))

def checkChunk2 (c : CutCert L R Q) (ch : List (Row2 R Q)) : Bool :=
  ch.all fun row => checkRow2 A c row.1 c.triples row.2 && checkFinal A c row.1

def checkRhos2 (c : CutCert L R Q) : Bool :=
  decide (A.rhoEnd ∈ c.rhos) && c.letters.all fun x => c.rhos.all fun r => decide (A.laStep x r ∈ c.rhos)

def checkInit2 (c : CutCert L R Q) : Bool :=
  c.rhos.all fun rf => c.rhos.all fun rc => decide ((⟨A.q0, rf, rc, false⟩ : Node2 R Q) ∈ c.nodes)

structure CutCert.Valid (c : CutCert L R Q) : Prop where
  chunks : ∀ ch ∈ c.chunks, checkChunk2 A c ch = true
  rhos : checkRhos2 A c = true
  init : checkInit2 A c = true

theorem checkRow2_sound (c : CutCert L R Q) (n : Node2 R Q) :
    ∀ (ts : List (L × R × R)) (is : List Nat), checkRow2 A c n ts is = true →
      ∀ t ∈ ts, consistent2 A n t = true → succ2 A n t.1 t.2.1 t.2.2 ∈ c.nodes := by
  intro ts
  induction ts with
  | nil => intro _ _ t ht; cases ht
  | cons t0 ts ih =>
    intro is h t ht hc
    simp only [checkRow2] at h
    by_cases hc0 : consistent2 A n t0 = true
    · rw [if_pos hc0] at h
      cases is with
      | nil => cases h
      | cons i is' =>
        simp only [Bool.and_eq_true, decide_eq_true_eq] at h
        rcases List.mem_cons.mp ht with rfl | ht'
        · exact c.get_mem i _ h.1
        · exact ih is' h.2 t ht' hc
    · rw [if_neg hc0] at h
      rcases List.mem_cons.mp ht with rfl | ht'
      · exact absurd hc hc0
      · exact ih is h t ht' hc

theorem mem_triples (c : CutCert L R Q) (x : L) (rf rc : R) (hx : x ∈ c.letters) (hf : rf ∈ c.rhos) (hc : rc ∈ c.rhos) :
    (x, rf, rc) ∈ c.triples := by
  unfold CutCert.triples
  exact List.mem_flatMap.mpr ⟨x, hx, List.mem_flatMap.mpr ⟨rf, hf, List.mem_map.mpr ⟨rc, hc, rfl⟩⟩⟩

theorem node_row2 (c : CutCert L R Q) (n : Node2 R Q) (hn : n ∈ c.nodes) :
    ∃ ch ∈ c.chunks, ∃ row ∈ ch, row.1 = n := by
  unfold CutCert.nodes at hn
  obtain ⟨row, hrow, rfl⟩ := List.mem_map.mp hn
  obtain ⟨ch, hch, hrow'⟩ := List.mem_flatten.mp hrow
  exact ⟨ch, hch, row, hrow', rfl⟩

theorem la_mem2 (c : CutCert L R Q) (hv : c.Valid A) (w : List L) (hw : ∀ x ∈ w, x ∈ c.letters) : la A w ∈ c.rhos := by
  have hr := hv.rhos
  simp only [checkRhos2, Bool.and_eq_true, decide_eq_true_eq, List.all_eq_true] at hr
  induction w with
  | nil => exact hr.1
  | cons x rest ih =>
    have hx : x ∈ c.letters := hw x (List.mem_cons_self ..)
    have hrest := ih (fun y hy => hw y (List.mem_cons_of_mem _ hy))
    exact hr.2 x hx _ hrest

/-- closure under one step -/
theorem step_closed2 (c : CutCert L R Q) (hv : c.Valid A) (n : Node2 R Q) (hn : n ∈ c.nodes)
    (x : L) (rf' rc' : R) (hx : x ∈ c.letters) (hf : rf' ∈ c.rhos) (hc : rc' ∈ c.rhos)
    (hlf : A.laStep x rf' = n.rf) (hlc : A.laStep x rc' = n.rc) :
    succ2 A n x rf' rc' ∈ c.nodes := by
  obtain ⟨ch, hch, row, hrow, rfl⟩ := node_row2 c n hn
  have h1 := hv.chunks ch hch
  simp only [checkChunk2, List.all_eq_true, Bool.and_eq_true] at h1
  exact checkRow2_sound A c row.1 c.triples row.2 (h1 row hrow).1 (x, rf', rc') (mem_triples c x rf' rc' hx hf hc)
    (by simp only [consistent2, hlf, hlc, decide_true, Bool.and_self])

/-- the final condition at a node -/
theorem final_ok (c : CutCert L R Q) (hv : c.Valid A) (n : Node2 R Q) (hn : n ∈ c.nodes)
    (hrc : n.rc = A.rhoEnd) (hd : n.d = true)
    (y : L) (r'' : R) (hy : y ∈ c.letters) (hr : r'' ∈ c.rhos) (hl : A.laStep y r'' = n.rf) :
    A.isB (A.qout n.q y r'') = false := by
  obtain ⟨ch, hch, row, hrow, rfl⟩ := node_row2 c n hn
  have h1 := hv.chunks ch hch
  simp only [checkChunk2, List.all_eq_true, Bool.and_eq_true] at h1
  have h2 := (h1 row hrow).2
  simp only [checkFinal, hrc, hd, decide_true, Bool.and_self, Bool.not_true, Bool.false_or, List.all_eq_true] at h2
  have h3 := h2 y hy r'' hr
  simp only [hl, decide_true, Bool.not_true, Bool.false_or, Bool.not_eq_true'] at h3
  exact h3

/-- the spec automaton's summary after reading `w` -/
def summAfter (q : Q) : List L → Q
  | [] => q
  | x :: rest => summAfter (A.qstep q x) rest

/-- **Lifting.** From any node of a valid cut certificate: if the full run reports a boundary at the
cut (before `y`, after `w`), then the node has not differed and the cut run gives, on all of `w`,
the verdicts of the full run. -/
theorem cut_agree (c : CutCert L R Q) (hv : c.Valid A) (y : L) (ys : List L) :
    ∀ (w : List L) (n : Node2 R Q), n ∈ c.nodes → (∀ x ∈ w ++ y :: ys, x ∈ c.letters) →
      n.rf = la A (w ++ y :: ys) → n.rc = la A w →
      A.isB (A.qout (summAfter A n.q w) y (la A ys)) = true →
      n.d = false ∧ specRun A n.q w = (specRun A n.q (w ++ y :: ys)).take w.length := by
  intro w
  induction w with
  | nil =>
    intro n hn hw hrf hrc hb
    refine ⟨?_, rfl⟩
    cases hd : n.d with
    | false => rfl
    | true =>
      have hy : y ∈ c.letters := hw y (by simp)
      have hys : ∀ x ∈ ys, x ∈ c.letters := fun x hx => hw x (by simp [hx])
      have := final_ok A c hv n hn hrc hd y (la A ys) hy (la_mem2 A c hv ys hys) (by rw [hrf]; rfl)
      simp only [summAfter] at hb
      rw [this] at hb; cases hb
  | cons x rest ih =>
    intro n hn hw hrf hrc hb
    have hx : x ∈ c.letters := hw x (by simp)
    have hrest : ∀ z ∈ rest ++ y :: ys, z ∈ c.letters := fun z hz => hw z (by simp only [List.cons_append]; exact List.mem_cons_of_mem _ hz)
    have hrest' : ∀ z ∈ rest, z ∈ c.letters := fun z hz => hrest z (by simp [hz])
    have hsucc := step_closed2 A c hv n hn x (la A (rest ++ y :: ys)) (la A rest) hx
      (la_mem2 A c hv _ hrest) (la_mem2 A c hv _ hrest') (by rw [hrf]; rfl) (by rw [hrc]; rfl)
    have ih' := ih (succ2 A n x (la A (rest ++ y :: ys)) (la A rest)) hsucc hrest rfl rfl (by simpa [succ2, summAfter] using hb)
    obtain ⟨hd', hrun⟩ := ih'
    simp only [succ2, Bool.or_eq_false_iff, Bool.not_eq_false', decide_eq_true_eq] at hd'
    refine ⟨hd'.1, ?_⟩
    simp only [specRun, List.cons_append, List.length_cons, List.take_succ_cons]
    simp only [succ2] at hrun
    rw [hrun, hd'.2]

/-- **C11, prefix half (class level).** If the spec run over `pre ++ y :: ys` reports a boundary
before `y`, then the verdicts it gives inside `pre` are those of the run over `pre` alone. -/
theorem cut_at_boundary (c : CutCert L R Q) (hv : c.Valid A) (pre : List L) (y : L) (ys : List L)
    (hw : ∀ x ∈ pre ++ y :: ys, x ∈ c.letters)
    (hb : A.isB (A.qout (summAfter A A.q0 pre) y (la A ys)) = true) :
    specRun A A.q0 pre = (specRun A A.q0 (pre ++ y :: ys)).take pre.length := by
  have hi := hv.init
  simp only [checkInit2, List.all_eq_true, decide_eq_true_eq] at hi
  have hpre : ∀ x ∈ pre, x ∈ c.letters := fun x hx => hw x (by simp [hx])
  have hn := hi (la A (pre ++ y :: ys)) (la_mem2 A c hv _ hw) (la A pre) (la_mem2 A c hv _ hpre)
  exact (cut_agree A c hv y ys pre ⟨A.q0, la A (pre ++ y :: ys), la A pre, false⟩ hn hw rfl rfl hb).2

/-- the verdict of the spec run at position `|pre|` of `pre ++ y :: ys` -/
theorem specRun_at (q : Q) (pre : List L) (y : L) (ys : List L) :
    (specRun A q (pre ++ y :: ys))[pre.length]? = some (A.qout (summAfter A q pre) y (la A ys)) := by
  induction pre generalizing q with
  | nil => simp [specRun, summAfter]
  | cons x rest ih =>
    simp only [List.cons_append, specRun, List.length_cons, List.getElem?_cons_succ, summAfter]
    exact ih _

end Uniseg.Auto
