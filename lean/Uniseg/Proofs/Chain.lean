import Uniseg.Impl.Loops
/-! # The loops as cuts of one left-to-right run

For a transition function `tr`, `runV tr st vals` is the list of `(state after r, verdict before r)`
for every code point `r` of `vals`, computed in one left-to-right pass (the look-ahead argument of
`tr` at `r` is the rest of `vals` after `r`). The `First*` loops are "find the first boundary
verdict in that list" (`firstCut`), and feeding back `rest` and `state` continues *the same*
run: the state value is purely an accelerator. -/
namespace Uniseg.Chain
open Uniseg

section Run
variable {σ V : Type} (tr : Option σ → Nat → List Nat → σ × V)

def runV (st : Option σ) : List Nat → List (σ × V)
  | [] => []
  | r :: rest => tr st r rest :: runV (some (tr st r rest).1) rest

theorem runV_length (st : Option σ) (l : List Nat) : (runV tr st l).length = l.length := by
  induction l generalizing st with
  | nil => rfl
  | cons r rest ih => simp [runV, ih]

/-- state reached after consuming all of `l` from `st` (`st` itself if `l` is empty) -/
def stateAfter (st : Option σ) : List Nat → List Nat → Option σ
  | [], _ => st
  | r :: pre, rest => stateAfter (some (tr st r (pre ++ rest)).1) pre rest

/-- the run over `pre ++ rest` is the run over `pre` (seeing `rest` as look-ahead) followed by the
run over `rest` from the state reached -/
theorem runV_append (st : Option σ) (pre rest : List Nat) :
    runV tr st (pre ++ rest) =
      (runV tr st (pre ++ rest)).take pre.length ++ runV tr (stateAfter tr st pre rest) rest := by
  induction pre generalizing st with
  | nil => simp [stateAfter]
  | cons r pre ih =>
    simp only [List.cons_append, runV, List.length_cons, List.take_succ_cons, stateAfter]
    rw [← ih]

theorem runV_drop (st : Option σ) (pre rest : List Nat) :
    (runV tr st (pre ++ rest)).drop pre.length = runV tr (stateAfter tr st pre rest) rest := by
  induction pre generalizing st with
  | nil => simp [stateAfter]
  | cons r pre ih =>
    simp only [List.cons_append, runV, List.length_cons, List.drop_succ_cons, stateAfter]
    exact ih _
end Run

/-! ## FirstWord / FirstSentence / FirstLineSegment -/
section Seg
variable {V : Type} (tr : Option Nat → Nat → List Nat → Nat × V) (isB : V → Bool) (endState : Nat)

/-- the first boundary verdict of a run: (index, verdict, state), or the end -/
def firstCut : List (Nat × V) → Nat × Option V × Nat
  | [] => (0, none, endState)
  | t :: rest =>
    if isB t.2 then (0, some t.2, t.1)
    else ((firstCut rest).1 + 1, (firstCut rest).2.1, (firstCut rest).2.2)

theorem segLoop_eq_firstCut (state : Nat) (rest : List Rune) :
    segLoop tr isB endState state rest = firstCut isB endState (runV tr (some state) (runeVals rest)) := by
  induction rest generalizing state with
  | nil => rfl
  | cons r rest ih =>
    simp only [segLoop, runeVals, List.map_cons, runV, firstCut]
    have := ih (tr (some state) r.1 (List.map (fun x => x.1) rest)).1
    simp only [runeVals] at this
    rw [this]
    by_cases h : isB (tr (some state) r.1 (List.map (fun x => x.1) rest)).2 = true <;> simp only [h, ↓reduceIte]

/-- the state with which the loop of `FirstX(rs, st)` starts: a carried state is used as it is;
`-1` is replaced by the state after the first code point -/
def startState (st : Option Nat) (r : Nat) (rest : List Nat) : Nat :=
  match st with
  | none => (tr none r rest).1
  | some s => s

/-- `FirstX` = first boundary of the run that starts after the first code point -/
theorem firstSeg_eq (r : Rune) (rest : List Rune) (st : Option Nat) :
    firstSeg tr isB endState (r :: rest) st =
      (let c := firstCut isB endState (runV tr (some (startState tr st r.1 (runeVals rest))) (runeVals rest))
       (c.1 + 1, c.2.1, c.2.2)) := by
  cases rest with
  | nil => rfl
  | cons r2 rest2 =>
    simp only [firstSeg]
    rw [segLoop_eq_firstCut]
    cases st <;> rfl

theorem firstCut_le (l : List (Nat × V)) : (firstCut isB endState l).1 ≤ l.length := by
  induction l with
  | nil => simp [firstCut]
  | cons t rest ih =>
    simp only [firstCut]
    split
    · simp
    · simp; omega

/-- C05 (progress, no over-run) at the code-point level -/
theorem firstSeg_bounds (rs : List Rune) (st : Option Nat) (h : rs ≠ []) :
    1 ≤ (firstSeg tr isB endState rs st).1 ∧ (firstSeg tr isB endState rs st).1 ≤ rs.length := by
  cases rs with
  | nil => exact absurd rfl h
  | cons r rest =>
    rw [firstSeg_eq]
    have := firstCut_le isB endState (runV tr (some (startState tr st r.1 (runeVals rest))) (runeVals rest))
    rw [runV_length] at this
    have hl : (runeVals rest).length = rest.length := by simp [runeVals]
    rw [hl] at this
    simp only [List.length_cons]
    omega

end Seg
end Uniseg.Chain

namespace Uniseg.Chain
open Uniseg

/-! ## Chains of calls -/
section ChainDef
variable {X : Type} (f : List Rune → Option Nat → Nat × X × Nat)

/-- results `(code points in the segment, extra, newState)` of calling `f` repeatedly, feeding
back the rest and the state -/
def chainFuel : Nat → List Rune → Option Nat → List (Nat × X × Nat)
  | 0, _, _ => []
  | fuel + 1, rs, st =>
    match rs with
    | [] => []
    | _ :: _ => f rs st :: chainFuel fuel (rs.drop (f rs st).1) (some (f rs st).2.2)

/-- the chain of calls on `rs` from state `st`; `len rs` calls always suffice (`chain_cons`) -/
def chain (rs : List Rune) (st : Option Nat) : List (Nat × X × Nat) := chainFuel f rs.length rs st

variable (hf : ∀ rs st, rs ≠ [] → 1 ≤ (f rs st).1)
include hf

theorem chainFuel_mono : ∀ (fuel fuel' : Nat) (rs : List Rune) (st : Option Nat),
    rs.length ≤ fuel → rs.length ≤ fuel' → chainFuel f fuel rs st = chainFuel f fuel' rs st := by
  intro fuel
  induction fuel with
  | zero =>
    intro fuel' rs st h _
    have : rs = [] := List.eq_nil_of_length_eq_zero (by omega)
    subst this
    cases fuel' <;> rfl
  | succ fuel ih =>
    intro fuel' rs st h h'
    cases rs with
    | nil => cases fuel' <;> rfl
    | cons r rest =>
      cases fuel' with
      | zero => simp at h'
      | succ fuel' =>
        simp only [chainFuel]
        have h1 := hf (r :: rest) st (by simp)
        have hlen : ((r :: rest).drop (f (r :: rest) st).1).length ≤ rest.length := by
          simp only [List.length_drop, List.length_cons]; omega
        simp only [List.length_cons] at h h'
        rw [ih fuel' _ _ (by omega) (by omega)]

omit hf in
theorem chain_nil (st : Option Nat) : chain f [] st = [] := rfl

theorem chain_cons (r : Rune) (rest : List Rune) (st : Option Nat) :
    chain f (r :: rest) st =
      f (r :: rest) st :: chain f ((r :: rest).drop (f (r :: rest) st).1) (some (f (r :: rest) st).2.2) := by
  unfold chain
  simp only [List.length_cons, chainFuel]
  have h1 := hf (r :: rest) st (by simp)
  have hlen : ((r :: rest).drop (f (r :: rest) st).1).length ≤ rest.length := by
    simp only [List.length_drop, List.length_cons]; omega
  rw [chainFuel_mono f hf rest.length _ _ _ hlen (Nat.le_refl _)]

/-- C05: the segments of a chain are non-empty and add up to the whole text -/
theorem chain_partition (hle : ∀ rs st, (f rs st).1 ≤ rs.length) :
    ∀ (n : Nat) (rs : List Rune) (st : Option Nat), rs.length ≤ n →
      (∀ x ∈ chain f rs st, 1 ≤ x.1) ∧ ((chain f rs st).map (·.1)).sum = rs.length ∧ (chain f rs st).length ≤ rs.length := by
  intro n
  induction n with
  | zero =>
    intro rs st h
    have : rs = [] := List.eq_nil_of_length_eq_zero (by omega)
    subst this
    simp [chain_nil f]
  | succ n ih =>
    intro rs st h
    cases rs with
    | nil => simp [chain_nil f]
    | cons r rest =>
      rw [chain_cons f hf]
      have h1 := hf (r :: rest) st (by simp)
      have h2 := hle (r :: rest) st
      have hlen : ((r :: rest).drop (f (r :: rest) st).1).length = rest.length + 1 - (f (r :: rest) st).1 := by
        simp [List.length_drop]
      obtain ⟨i1, i2, i3⟩ := ih ((r :: rest).drop (f (r :: rest) st).1) (some (f (r :: rest) st).2.2)
        (by simp only [List.length_cons] at h; omega)
      refine ⟨?_, ?_, ?_⟩
      · intro x hx
        rcases List.mem_cons.mp hx with rfl | hx'
        · exact h1
        · exact i1 x hx'
      · simp only [List.map_cons, List.sum_cons, i2, hlen, List.length_cons]
        simp only [List.length_cons] at h2
        omega
      · simp only [List.length_cons, hlen] at i3 ⊢
        omega

end ChainDef

/-! ## The chain of `FirstX` calls = the cuts of one run -/
section SegChain
variable {V : Type} (tr : Option Nat → Nat → List Nat → Nat × V) (isB : V → Bool) (endState : Nat)

/-- segments determined by a list of verdicts (those before code points 1, 2, …): for each
segment its length and the verdict that ended it (`none` for the last one: end of text);
`acc` is the length of the segment being built -/
def cutsV : List V → Nat → List (Nat × Option V)
  | [], acc => [(acc, none)]
  | v :: vs, acc => if isB v then (acc, some v) :: cutsV vs 1 else cutsV vs (acc + 1)

/-- segment lengths only -/
def cuts (vs : List V) (acc : Nat) : List Nat := (cutsV isB vs acc).map (·.1)

def bump : List (Nat × Option V) → List (Nat × Option V)
  | [] => []
  | a :: as => (a.1 + 1, a.2) :: as

theorem cutsV_succ (vs : List V) (acc : Nat) : cutsV isB vs (acc + 1) = bump (cutsV isB vs acc) := by
  induction vs generalizing acc with
  | nil => rfl
  | cons v vs ih =>
    simp only [cutsV]
    split
    · rfl
    · exact ih (acc + 1)

theorem firstSeg_pos (rs : List Rune) (st : Option Nat) (h : rs ≠ []) : 1 ≤ (firstSeg tr isB endState rs st).1 :=
  (firstSeg_bounds tr isB endState rs st h).1

/-- segments of the chain from a carried (coherent) state = cuts of the run's verdicts -/
theorem chain_cuts_some : ∀ (rest : List Rune) (r : Rune) (s : Nat),
    (chain (firstSeg tr isB endState) (r :: rest) (some s)).map (fun x => (x.1, x.2.1)) =
      cutsV isB ((runV tr (some s) (runeVals rest)).map (·.2)) 1 := by
  intro rest
  induction rest with
  | nil =>
    intro r s
    rw [chain_cons _ (firstSeg_pos tr isB endState)]
    simp [firstSeg, chain_nil, runeVals, runV, cutsV]
  | cons r2 rest2 ih =>
    intro r s
    rw [chain_cons _ (firstSeg_pos tr isB endState)]
    have hih := ih r2 (tr (some s) r2.1 (runeVals rest2)).1
    rw [chain_cons _ (firstSeg_pos tr isB endState)] at hih
    rw [firstSeg_eq] at hih ⊢
    simp only [startState, runeVals, List.map_cons, runV, firstCut, cutsV] at hih ⊢
    by_cases hb : isB (tr (some s) r2.1 (List.map (fun x => x.1) rest2)).2 = true
    · simp only [hb, ↓reduceIte, Nat.zero_add, List.drop_succ_cons, List.drop_zero]
      rw [chain_cons _ (firstSeg_pos tr isB endState), firstSeg_eq]
      simp only [startState, runeVals, List.map_cons]
      exact congrArg _ hih
    · simp only [hb, ↓reduceIte, List.drop_succ_cons, Bool.false_eq_true]
      rw [cutsV_succ]
      rw [← hih]
      rfl

/-- **the state is an accelerator**: the segments of the chain from `-1` (length, and the verdict
that ended each) are the cuts of the single left-to-right run from `-1` (whose first verdict, before
the first code point, is unused) -/
theorem chain_cuts (rs : List Rune) :
    (chain (firstSeg tr isB endState) rs none).map (fun x => (x.1, x.2.1)) =
      match rs with
      | [] => []
      | _ :: _ => cutsV isB ((runV tr none (runeVals rs)).tail.map (·.2)) 1 := by
  cases rs with
  | nil => rfl
  | cons r rest =>
    have h := chain_cuts_some tr isB endState rest r (tr none r.1 (runeVals rest)).1
    rw [chain_cons _ (firstSeg_pos tr isB endState)] at h ⊢
    rw [firstSeg_eq] at h ⊢
    simp only [startState, runeVals, List.map_cons, runV, List.tail_cons] at h ⊢
    exact h

theorem chain_counts (rs : List Rune) :
    (chain (firstSeg tr isB endState) rs none).map (·.1) =
      match rs with
      | [] => []
      | _ :: _ => cuts isB ((runV tr none (runeVals rs)).tail.map (·.2)) 1 := by
  have h := congrArg (List.map (·.1)) (chain_cuts tr isB endState rs)
  simp only [List.map_map] at h
  cases rs with
  | nil => rfl
  | cons r rest => exact h

end SegChain

/-! ## Chains of any loop that is "first cut of a run" up to a decoding of the carried state

`FirstGraphemeCluster` and `Step` carry more in their `int` state than the automaton state (the
class of the next code point, four packed sub-states). `dec` decodes the carried `Nat` into the
abstract state `σ` of a transition function `tr`; if every call is "first boundary of the run that
starts after the first code point", the returned state decodes to the run's state at the cut, and
the call's extra result is a function `hv` of the verdict at the cut, then the whole chain is the
cuts of one run. -/
section GenChain
variable {σ V X E : Type} (tr : Option σ → Nat → List Nat → σ × V) (isB : V → Bool)
variable (f : List Rune → Option Nat → Nat × X × Nat) (dec : Nat → σ) (ext : X → E) (hv : Option V → E)

/-- index of the first boundary verdict and the run's (state, verdict) there (`none`: end of text) -/
def firstCutG : List (σ × V) → Nat × Option (σ × V)
  | [] => (0, none)
  | t :: rest => if isB t.2 then (0, some t) else ((firstCutG rest).1 + 1, (firstCutG rest).2)

/-- the abstract state with which a call's loop starts -/
def startG (st : Option Nat) (r : Nat) (rest : List Nat) : σ :=
  match st with
  | none => (tr none r rest).1
  | some s => dec s

/-- what it means for `f` to be a "first cut" loop over `tr` with carried-state decoding `dec` and
extra result `ext = hv (verdict at the cut)` -/
def IsFirstCut : Prop :=
  ∀ (r : Rune) (rest : List Rune) (st : Option Nat),
    (f (r :: rest) st).1 = (firstCutG isB (runV tr (some (startG tr dec st r.1 (runeVals rest))) (runeVals rest))).1 + 1 ∧
    (∀ t, (firstCutG isB (runV tr (some (startG tr dec st r.1 (runeVals rest))) (runeVals rest))).2 = some t →
      dec (f (r :: rest) st).2.2 = t.1) ∧
    ext (f (r :: rest) st).2.1 =
      hv ((firstCutG isB (runV tr (some (startG tr dec st r.1 (runeVals rest))) (runeVals rest))).2.map (·.2))

theorem firstCutG_le (l : List (σ × V)) : (firstCutG isB l).1 ≤ l.length := by
  induction l with
  | nil => simp [firstCutG]
  | cons t rest ih =>
    simp only [firstCutG]
    split
    · simp
    · simp; omega

theorem firstCutG_none (l : List (σ × V)) (h : (firstCutG isB l).2 = none) : (firstCutG isB l).1 = l.length := by
  induction l with
  | nil => rfl
  | cons t rest ih =>
    simp only [firstCutG] at h ⊢
    split at h
    · cases h
    · rename_i hb
      simp only [hb, Bool.false_eq_true, ↓reduceIte, List.length_cons]
      rw [ih h]

theorem firstCutG_lt (l : List (σ × V)) (t : σ × V) (h : (firstCutG isB l).2 = some t) :
    (firstCutG isB l).1 < l.length := by
  induction l with
  | nil => simp [firstCutG] at h
  | cons t0 l ih =>
    simp only [firstCutG] at h ⊢
    by_cases hb : isB t0.2 = true
    · simp [hb]
    · simp only [hb, Bool.false_eq_true, ↓reduceIte] at h
      simp only [hb, Bool.false_eq_true, ↓reduceIte, List.length_cons]
      have := ih h
      omega

/-- `cutsV` of a verdict list, unfolded at its first boundary -/
theorem cutsV_firstCutG (vs : List (σ × V)) : ∀ acc : Nat,
    cutsV isB (vs.map (·.2)) acc =
      match (firstCutG isB vs).2 with
      | none => [(acc + vs.length, none)]
      | some t => (acc + (firstCutG isB vs).1, some t.2) :: cutsV isB ((vs.drop ((firstCutG isB vs).1 + 1)).map (·.2)) 1 := by
  induction vs with
  | nil => intro acc; rfl
  | cons t rest ih =>
    intro acc
    simp only [List.map_cons, cutsV, firstCutG]
    by_cases hb : isB t.2 = true
    · simp only [hb, ↓reduceIte, Nat.add_zero, Nat.zero_add, List.drop_succ_cons, List.drop_zero]
    · simp only [hb, Bool.false_eq_true, ↓reduceIte]
      rw [ih (acc + 1)]
      cases (firstCutG isB rest).2 with
      | none => simp only [List.length_cons]; congr 2; omega
      | some s' =>
        simp only [List.drop_succ_cons]
        congr 2; omega

/-- after the first boundary of a run, the run continues from the state reached there -/
theorem runV_after_cut : ∀ (l : List Nat) (st : Option σ) (t : σ × V),
    (firstCutG isB (runV tr st l)).2 = some t →
      (runV tr st l).drop ((firstCutG isB (runV tr st l)).1 + 1) =
        runV tr (some t.1) (l.drop ((firstCutG isB (runV tr st l)).1 + 1)) := by
  intro l
  induction l with
  | nil => intro st t h; cases h
  | cons x l ih =>
    intro st t h
    simp only [runV, firstCutG] at h ⊢
    by_cases hb : isB (tr st x l).2 = true
    · simp only [hb, ↓reduceIte, Option.some.injEq] at h
      subst h
      simp only [hb, ↓reduceIte, Nat.zero_add, List.drop_succ_cons, List.drop_zero]
    · simp only [hb, Bool.false_eq_true, ↓reduceIte] at h
      simp only [hb, Bool.false_eq_true, ↓reduceIte, List.drop_succ_cons]
      exact ih _ t h

variable (hf : IsFirstCut tr isB f dec ext hv)
include hf

theorem gen_pos (rs : List Rune) (st : Option Nat) (h : rs ≠ []) : 1 ≤ (f rs st).1 := by
  cases rs with
  | nil => exact absurd rfl h
  | cons r rest => rw [(hf r rest st).1]; omega

theorem gen_le (rs : List Rune) (st : Option Nat) : (f rs st).1 ≤ rs.length ∨ rs = [] := by
  cases rs with
  | nil => exact Or.inr rfl
  | cons r rest =>
    left
    rw [(hf r rest st).1]
    have := firstCutG_le isB (runV tr (some (startG tr dec st r.1 (runeVals rest))) (runeVals rest))
    rw [runV_length] at this
    have hl : (runeVals rest).length = rest.length := by simp [runeVals]
    simp only [List.length_cons]; omega

/-- the body shared by the two chain theorems: one call followed by the rest of the chain -/
theorem gen_step (n : Nat)
    (ih : ∀ (rest : List Rune), rest.length ≤ n → ∀ (r : Rune) (c : Nat),
      (chain f (r :: rest) (some c)).map (fun x => (x.1, ext x.2.1)) =
        (cutsV isB ((runV tr (some (dec c)) (runeVals rest)).map (·.2)) 1).map (fun p => (p.1, hv p.2)))
    (rest : List Rune) (hn : rest.length ≤ n + 1) (r : Rune) (st : Option Nat) :
    (chain f (r :: rest) st).map (fun x => (x.1, ext x.2.1)) =
      (cutsV isB ((runV tr (some (startG tr dec st r.1 (runeVals rest))) (runeVals rest)).map (·.2)) 1).map
        (fun p => (p.1, hv p.2)) := by
  rw [chain_cons _ (gen_pos tr isB f dec ext hv hf)]
  obtain ⟨h1, h2, h3⟩ := hf r rest st
  rw [cutsV_firstCutG]
  have hlen : (runeVals rest).length = rest.length := by simp [runeVals]
  generalize hσ : startG tr dec st r.1 (runeVals rest) = σ0 at h1 h2 h3 ⊢
  cases hcut : (firstCutG isB (runV tr (some σ0) (runeVals rest))).2 with
  | none =>
    have hk := firstCutG_none isB _ hcut
    rw [runV_length, hlen] at hk
    rw [hcut] at h3
    simp only [List.map_cons, h1, hk, h3, runV_length, hlen, Option.map_none, List.map_nil]
    have : (r :: rest).drop (rest.length + 1) = [] := by simp
    rw [this, chain_nil]
    simp [Nat.add_comm]
  | some t =>
    have hdec := h2 t hcut
    rw [hcut] at h3
    have hlt := firstCutG_lt isB _ t hcut
    rw [runV_length, hlen] at hlt
    simp only [List.map_cons, h1, h3, Option.map_some]
    rw [runV_after_cut tr isB _ _ t hcut]
    generalize hkk : (firstCutG isB (runV tr (some σ0) (runeVals rest))).1 = k at hlt ⊢
    have hdrop : (r :: rest).drop (k + 1) = rest.drop k := by simp
    rw [hdrop]
    have hne : rest.drop k ≠ [] := by
      intro hend
      have := congrArg List.length hend
      simp only [List.length_drop, List.length_nil] at this
      omega
    obtain ⟨r', rest', hr'⟩ := List.exists_cons_of_ne_nil hne
    rw [hr']
    have hlen' : rest'.length ≤ n := by
      have := congrArg List.length hr'
      simp only [List.length_drop, List.length_cons] at this
      omega
    rw [ih rest' hlen' r' _, hdec]
    have hvals : (runeVals rest).drop (k + 1) = runeVals rest' := by
      have : runeVals (rest.drop k) = runeVals (r' :: rest') := by rw [hr']
      simp only [runeVals, List.map_drop, List.map_cons] at this ⊢
      rw [List.drop_add_one_eq_tail_drop, this]; rfl
    rw [hvals]
    simp [Nat.add_comm]

/-- segments of the chain from a carried state `c` = cuts of the run from `dec c` -/
theorem gen_chain_some : ∀ (n : Nat) (rest : List Rune), rest.length ≤ n → ∀ (r : Rune) (c : Nat),
    (chain f (r :: rest) (some c)).map (fun x => (x.1, ext x.2.1)) =
      (cutsV isB ((runV tr (some (dec c)) (runeVals rest)).map (·.2)) 1).map (fun p => (p.1, hv p.2)) := by
  intro n
  induction n with
  | zero =>
    intro rest hn r c
    have : rest = [] := List.eq_nil_of_length_eq_zero (by omega)
    subst this
    rw [chain_cons _ (gen_pos tr isB f dec ext hv hf)]
    obtain ⟨h1, _, h3⟩ := hf r [] (some c)
    simp only [runeVals, List.map_nil, runV, firstCutG, Nat.zero_add, Option.map_none] at h1 h3
    simp only [h1, h3, List.drop_succ_cons, List.drop_nil, chain_nil, List.map_cons, List.map_nil, runeVals, runV, cutsV]
  | succ n ih =>
    intro rest hn r c
    exact gen_step tr isB f dec ext hv hf n ih rest hn r (some c)

/-- **the carried state is an accelerator** (general form): the segments of the chain from `-1`
(length and extra result) = the cuts of the single left-to-right run from `-1` -/
theorem gen_chainV (rs : List Rune) :
    (chain f rs none).map (fun x => (x.1, ext x.2.1)) =
      match rs with
      | [] => []
      | _ :: _ => (cutsV isB ((runV tr none (runeVals rs)).tail.map (·.2)) 1).map (fun p => (p.1, hv p.2)) := by
  cases rs with
  | nil => rfl
  | cons r rest =>
    have := gen_step tr isB f dec ext hv hf rest.length
      (fun rest' h' r' c => gen_chain_some tr isB f dec ext hv hf rest.length rest' h' r' c)
      rest (Nat.le_succ _) r none
    simp only [startG] at this
    simp only [runeVals, List.map_cons, runV, List.tail_cons]
    simp only [runeVals] at this
    exact this

theorem gen_chain (rs : List Rune) :
    (chain f rs none).map (·.1) =
      match rs with
      | [] => []
      | _ :: _ => cuts isB ((runV tr none (runeVals rs)).tail.map (·.2)) 1 := by
  have h := congrArg (List.map (·.1)) (gen_chainV tr isB f dec ext hv hf rs)
  simp only [List.map_map] at h
  cases rs with
  | nil => rfl
  | cons r rest =>
    simp only [cuts]
    refine Eq.trans ?_ (Eq.trans h ?_)
    · rfl
    · simp only [List.map_map]; rfl

end GenChain

/-- reading the verdicts through a map `g` changes neither the states nor the run's shape -/
theorem runV_map {σ V W : Type} (tr : Option σ → Nat → List Nat → σ × V) (g : V → W) (st : Option σ) (l : List Nat) :
    runV (fun st r rest => ((tr st r rest).1, g (tr st r rest).2)) st l = (runV tr st l).map (fun t => (t.1, g t.2)) := by
  induction l generalizing st with
  | nil => rfl
  | cons r rest ih => simp only [runV, List.map_cons]; rw [ih]

theorem cutsV_map {V W : Type} (isB : V → Bool) (isB' : W → Bool) (g : V → W) (h : ∀ v, isB v = isB' (g v)) :
    ∀ (vs : List V) (acc : Nat),
      (cutsV isB vs acc).map (fun x => (x.1, x.2.map g)) = cutsV isB' (vs.map g) acc := by
  intro vs
  induction vs with
  | nil => intro acc; rfl
  | cons v vs ih =>
    intro acc
    simp only [cutsV, List.map_cons, ← h v]
    split
    · simp only [List.map_cons, Option.map_some, ih]
    · exact ih (acc + 1)

end Uniseg.Chain
