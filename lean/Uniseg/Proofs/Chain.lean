import Uniseg.Impl.Loops
/-! # The loops as cuts of one left-to-right run

For a transition function `tr`, `runV tr st vals` is the list of `(state after r, verdict before r)`
for every code point `r` of `vals`, computed in one left-to-right pass (the look-ahead argument of
`tr` at `r` is the rest of `vals` after `r`). The `First*` loops are "find the first boundary
verdict in that list" (`firstCut`), and feeding back `rest` and `state` continues *the same*
run: the state value is purely an accelerator. -/
namespace Uniseg.Chain
open Uniseg

section Run
variable {σ V : Type} (tr : Option σ → Nat → List Nat → σ × V)

def runV (st : Option σ) : List Nat → List (σ × V)
  | [] => []
  | r :: rest => tr st r rest :: runV (some (tr st r rest).1) rest

theorem runV_length (st : Option σ) (l : List Nat) : (runV tr st l).length = l.length := by
  induction l generalizing st with
  | nil => rfl
  | cons r rest ih => simp [runV, ih]

/-- state reached after consuming all of `l` from `st` (`st` itself if `l` is empty) -/
def stateAfter (st : Option σ) : List Nat → List Nat → Option σ
  | [], _ => st
  | r :: pre, rest => stateAfter (some (tr st r (pre ++ rest)).1) pre rest

/-- the run over `pre ++ rest` is the run over `pre` (seeing `rest` as look-ahead) followed by the
run over `rest` from the state reached -/
theorem runV_append (st : Option σ) (pre rest : List Nat) :
    runV tr st (pre ++ rest) =
      (runV tr st (pre ++ rest)).take pre.length ++ runV tr (stateAfter tr st pre rest) rest := by
  induction pre generalizing st with
  | nil => simp [stateAfter]
  | cons r pre ih =>
    simp only [List.cons_append, runV, List.length_cons, List.take_succ_cons, stateAfter]
    rw [← ih]

theorem runV_drop (st : Option σ) (pre rest : List Nat) :
    (runV tr st (pre ++ rest)).drop pre.length = runV tr (stateAfter tr st pre rest) rest := by
  induction pre generalizing st with
  | nil => simp [stateAfter]
  | cons r pre ih =>
    simp only [List.cons_append, runV, List.length_cons, List.drop_succ_cons, stateAfter]
    exact ih _
end Run

/-! ## FirstWord / FirstSentence / FirstLineSegment -/
section Seg
variable {V : Type} (tr : Option Nat → Nat → List Nat → Nat × V) (isB : V → Bool) (endState : Nat)

/-- the first boundary verdict of a run: (index, verdict, state), or the end -/
def firstCut : List (Nat × V) → Nat × Option V × Nat
  | [] => (0, none, endState)
  | t :: rest =>
    if isB t.2 then (0, some t.2, t.1)
    else ((firstCut rest).1 + 1, (firstCut rest).2.1, (firstCut rest).2.2)

theorem segLoop_eq_firstCut (state : Nat) (rest : List Rune) :
    segLoop tr isB endState state rest = firstCut isB endState (runV tr (some state) (runeVals rest)) := by
  induction rest generalizing state with
  | nil => rfl
  | cons r rest ih =>
    simp only [segLoop, runeVals, List.map_cons, runV, firstCut]
    have := ih (tr (some state) r.1 (List.map (fun x => x.1) rest)).1
    simp only [runeVals] at this
    rw [this]
    by_cases h : isB (tr (some state) r.1 (List.map (fun x => x.1) rest)).2 = true <;> simp only [h, ↓reduceIte]

/-- the state with which the loop of `FirstX(rs, st)` starts: a carried state is used as it is;
`-1` is replaced by the state after the first code point -/
def startState (st : Option Nat) (r : Nat) (rest : List Nat) : Nat :=
  match st with
  | none => (tr none r rest).1
  | some s => s

/-- `FirstX` = first boundary of the run that starts after the first code point -/
theorem firstSeg_eq (r : Rune) (rest : List Rune) (st : Option Nat) :
    firstSeg tr isB endState (r :: rest) st =
      (let c := firstCut isB endState (runV tr (some (startState tr st r.1 (runeVals rest))) (runeVals rest))
       (c.1 + 1, c.2.1, c.2.2)) := by
  cases rest with
  | nil => rfl
  | cons r2 rest2 =>
    simp only [firstSeg]
    rw [segLoop_eq_firstCut]
    cases st <;> rfl

theorem firstCut_le (l : List (Nat × V)) : (firstCut isB endState l).1 ≤ l.length := by
  induction l with
  | nil => simp [firstCut]
  | cons t rest ih =>
    simp only [firstCut]
    split
    · simp
    · simp; omega

/-- C05 (progress, no over-run) at the code-point level -/
theorem firstSeg_bounds (rs : List Rune) (st : Option Nat) (h : rs ≠ []) :
    1 ≤ (firstSeg tr isB endState rs st).1 ∧ (firstSeg tr isB endState rs st).1 ≤ rs.length := by
  cases rs with
  | nil => exact absurd rfl h
  | cons r rest =>
    rw [firstSeg_eq]
    have := firstCut_le isB endState (runV tr (some (startState tr st r.1 (runeVals rest))) (runeVals rest))
    rw [runV_length] at this
    have hl : (runeVals rest).length = rest.length := by simp [runeVals]
    rw [hl] at this
    simp only [List.length_cons]
    omega

end Seg
end Uniseg.Chain

namespace Uniseg.Chain
open Uniseg

/-! ## Chains of calls -/
section ChainDef
variable {X : Type} (f : List Rune → Option Nat → Nat × X × Nat)

/-- results `(code points in the segment, extra, newState)` of calling `f` repeatedly, feeding
back the rest and the state -/
def chainFuel : Nat → List Rune → Option Nat → List (Nat × X × Nat)
  | 0, _, _ => []
  | fuel + 1, rs, st =>
    match rs with
    | [] => []
    | _ :: _ => f rs st :: chainFuel fuel (rs.drop (f rs st).1) (some (f rs st).2.2)

/-- the chain of calls on `rs` from state `st`; `len rs` calls always suffice (`chain_cons`) -/
def chain (rs : List Rune) (st : Option Nat) : List (Nat × X × Nat) := chainFuel f rs.length rs st

variable (hf : ∀ rs st, rs ≠ [] → 1 ≤ (f rs st).1)
include hf

theorem chainFuel_mono : ∀ (fuel fuel' : Nat) (rs : List Rune) (st : Option Nat),
    rs.length ≤ fuel → rs.length ≤ fuel' → chainFuel f fuel rs st = chainFuel f fuel' rs st := by
  intro fuel
  induction fuel with
  | zero =>
    intro fuel' rs st h _
    have : rs = [] := List.eq_nil_of_length_eq_zero (by omega)
    subst this
    cases fuel' <;> rfl
  | succ fuel ih =>
    intro fuel' rs st h h'
    cases rs with
    | nil => cases fuel' <;> rfl
    | cons r rest =>
      cases fuel' with
      | zero => simp at h'
      | succ fuel' =>
        simp only [chainFuel]
        have h1 := hf (r :: rest) st (by simp)
        have hlen : ((r :: rest).drop (f (r :: rest) st).1).length ≤ rest.length := by
          simp only [List.length_drop, List.length_cons]; omega
        simp only [List.length_cons] at h h'
        rw [ih fuel' _ _ (by omega) (by omega)]

omit hf in
theorem chain_nil (st : Option Nat) : chain f [] st = [] := rfl

theorem chain_cons (r : Rune) (rest : List Rune) (st : Option Nat) :
    chain f (r :: rest) st =
      f (r :: rest) st :: chain f ((r :: rest).drop (f (r :: rest) st).1) (some (f (r :: rest) st).2.2) := by
  unfold chain
  simp only [List.length_cons, chainFuel]
  have h1 := hf (r :: rest) st (by simp)
  have hlen : ((r :: rest).drop (f (r :: rest) st).1).length ≤ rest.length := by
    simp only [List.length_drop, List.length_cons]; omega
  rw [chainFuel_mono f hf rest.length _ _ _ hlen (Nat.le_refl _)]

/-- C05: the segments of a chain are non-empty and add up to the whole text -/
theorem chain_partition (hle : ∀ rs st, (f rs st).1 ≤ rs.length) :
    ∀ (n : Nat) (rs : List Rune) (st : Option Nat), rs.length ≤ n →
      (∀ x ∈ chain f rs st, 1 ≤ x.1) ∧ ((chain f rs st).map (·.1)).sum = rs.length ∧ (chain f rs st).length ≤ rs.length := by
  intro n
  induction n with
  | zero =>
    intro rs st h
    have : rs = [] := List.eq_nil_of_length_eq_zero (by omega)
    subst this
    simp [chain_nil f]
  | succ n ih =>
    intro rs st h
    cases rs with
    | nil => simp [chain_nil f]
    | cons r rest =>
      rw [chain_cons f hf]
      have h1 := hf (r :: rest) st (by simp)
      have h2 := hle (r :: rest) st
      have hlen : ((r :: rest).drop (f (r :: rest) st).1).length = rest.length + 1 - (f (r :: rest) st).1 := by
        simp [List.length_drop]
      obtain ⟨i1, i2, i3⟩ := ih ((r :: rest).drop (f (r :: rest) st).1) (some (f (r :: rest) st).2.2)
        (by simp only [List.length_cons] at h; omega)
      refine ⟨?_, ?_, ?_⟩
      · intro x hx
        rcases List.mem_cons.mp hx with rfl | hx'
        · exact h1
        · exact i1 x hx'
      · simp only [List.map_cons, List.sum_cons, i2, hlen, List.length_cons]
        simp only [List.length_cons] at h2
        omega
      · simp only [List.length_cons, hlen] at i3 ⊢
        omega

end ChainDef

/-! ## The chain of `FirstX` calls = the cuts of one run -/
section SegChain
variable {V : Type} (tr : Option Nat → Nat → List Nat → Nat × V) (isB : V → Bool) (endState : Nat)

/-- segments determined by a list of verdicts (those before code points 1, 2, …): for each
segment its length and the verdict that ended it (`none` for the last one: end of text);
`acc` is the length of the segment being built -/
def cutsV : List V → Nat → List (Nat × Option V)
  | [], acc => [(acc, none)]
  | v :: vs, acc => if isB v then (acc, some v) :: cutsV vs 1 else cutsV vs (acc + 1)

/-- segment lengths only -/
def cuts (vs : List V) (acc : Nat) : List Nat := (cutsV isB vs acc).map (·.1)

def bump : List (Nat × Option V) → List (Nat × Option V)
  | [] => []
  | a :: as => (a.1 + 1, a.2) :: as

theorem cutsV_succ (vs : List V) (acc : Nat) : cutsV isB vs (acc + 1) = bump (cutsV isB vs acc) := by
  induction vs generalizing acc with
  | nil => rfl
  | cons v vs ih =>
    simp only [cutsV]
    split
    · rfl
    · exact ih (acc + 1)

theorem firstSeg_pos (rs : List Rune) (st : Option Nat) (h : rs ≠ []) : 1 ≤ (firstSeg tr isB endState rs st).1 :=
  (firstSeg_bounds tr isB endState rs st h).1

/-- segments of the chain from a carried (coherent) state = cuts of the run's verdicts -/
theorem chain_cuts_some : ∀ (rest : List Rune) (r : Rune) (s : Nat),
    (chain (firstSeg tr isB endState) (r :: rest) (some s)).map (fun x => (x.1, x.2.1)) =
      cutsV isB ((runV tr (some s) (runeVals rest)).map (·.2)) 1 := by
  intro rest
  induction rest with
  | nil =>
    intro r s
    rw [chain_cons _ (firstSeg_pos tr isB endState)]
    simp [firstSeg, chain_nil, runeVals, runV, cutsV]
  | cons r2 rest2 ih =>
    intro r s
    rw [chain_cons _ (firstSeg_pos tr isB endState)]
    have hih := ih r2 (tr (some s) r2.1 (runeVals rest2)).1
    rw [chain_cons _ (firstSeg_pos tr isB endState)] at hih
    rw [firstSeg_eq] at hih ⊢
    simp only [startState, runeVals, List.map_cons, runV, firstCut, cutsV] at hih ⊢
    by_cases hb : isB (tr (some s) r2.1 (List.map (fun x => x.1) rest2)).2 = true
    · simp only [hb, ↓reduceIte, Nat.zero_add, List.drop_succ_cons, List.drop_zero]
      rw [chain_cons _ (firstSeg_pos tr isB endState), firstSeg_eq]
      simp only [startState, runeVals, List.map_cons]
      exact congrArg _ hih
    · simp only [hb, ↓reduceIte, List.drop_succ_cons, Bool.false_eq_true]
      rw [cutsV_succ]
      rw [← hih]
      rfl

/-- **the state is an accelerator**: the segments of the chain from `-1` (length, and the verdict
that ended each) are the cuts of the single left-to-right run from `-1` (whose first verdict, before
the first code point, is unused) -/
theorem chain_cuts (rs : List Rune) :
    (chain (firstSeg tr isB endState) rs none).map (fun x => (x.1, x.2.1)) =
      match rs with
      | [] => []
      | _ :: _ => cutsV isB ((runV tr none (runeVals rs)).tail.map (·.2)) 1 := by
  cases rs with
  | nil => rfl
  | cons r rest =>
    have h := chain_cuts_some tr isB endState rest r (tr none r.1 (runeVals rest)).1
    rw [chain_cons _ (firstSeg_pos tr isB endState)] at h ⊢
    rw [firstSeg_eq] at h ⊢
    simp only [startState, runeVals, List.map_cons, runV, List.tail_cons] at h ⊢
    exact h

theorem chain_counts (rs : List Rune) :
    (chain (firstSeg tr isB endState) rs none).map (·.1) =
      match rs with
      | [] => []
      | _ :: _ => cuts isB ((runV tr none (runeVals rs)).tail.map (·.2)) 1 := by
  have h := congrArg (List.map (·.1)) (chain_cuts tr isB endState rs)
  simp only [List.map_map] at h
  cases rs with
  | nil => rfl
  | cons r rest => exact h

end SegChain

/-- reading the verdicts through a map `g` changes neither the states nor the run's shape -/
theorem runV_map {σ V W : Type} (tr : Option σ → Nat → List Nat → σ × V) (g : V → W) (st : Option σ) (l : List Nat) :
    runV (fun st r rest => ((tr st r rest).1, g (tr st r rest).2)) st l = (runV tr st l).map (fun t => (t.1, g t.2)) := by
  induction l generalizing st with
  | nil => rfl
  | cons r rest ih => simp only [runV, List.map_cons]; rw [ih]

theorem cutsV_map {V W : Type} (isB : V → Bool) (isB' : W → Bool) (g : V → W) (h : ∀ v, isB v = isB' (g v)) :
    ∀ (vs : List V) (acc : Nat),
      (cutsV isB vs acc).map (fun x => (x.1, x.2.map g)) = cutsV isB' (vs.map g) acc := by
  intro vs
  induction vs with
  | nil => intro acc; rfl
  | cons v vs ih =>
    intro acc
    simp only [cutsV, List.map_cons, ← h v]
    split
    · simp only [List.map_cons, Option.map_some, ih]
    · exact ih (acc + 1)

end Uniseg.Chain
