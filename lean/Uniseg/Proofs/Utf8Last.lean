import Uniseg.Proofs.Bytes
/-! # `utf8.DecodeLastRune` returns the last rune of the forward decoding

The loops decode forwards (`runesOf`), `HasTrailingLineBreak` decodes the last rune backwards. Both are
models of standard-library functions; this file proves that they agree: for every non-empty byte
string the result of `decodeLastRune` is the last element of `runesOf`. Ingredients: a multi-byte rune
consists of a lead byte followed by continuation bytes; therefore every byte that is not a
continuation byte starts a rune of the forward decoding; the backward scan finds exactly the start of
the last forward rune, or correctly gives up. -/
namespace Uniseg.Utf8Last
open Uniseg Uniseg.Utf8 Uniseg.Bytes

theorem runeStart_eq (b : Nat) : runeStart b = !cont b := rfl

/-- a multi-byte result: lead byte, then continuation bytes -/
theorem dec_multibyte (b0 b1 b2 b3 : Nat) (h : 2 ≤ (dec b0 b1 b2 b3).2) :
    cont b0 = false ∧ cont b1 = true ∧ (3 ≤ (dec b0 b1 b2 b3).2 → cont b2 = true) ∧ (4 ≤ (dec b0 b1 b2 b3).2 → cont b3 = true) := by
  unfold dec at h ⊢
  by_cases h1 : b0 < 0x80
  · rw [if_pos h1] at h; simp at h
  · rw [if_neg h1] at h ⊢
    by_cases h2 : b0 < 0xC2
    · rw [if_pos h2] at h; simp at h
    · rw [if_neg h2] at h ⊢
      have hc0 : cont b0 = false := by unfold cont; simp; omega
      by_cases h3 : b0 < 0xE0
      · rw [if_pos h3] at h ⊢
        by_cases hc : cont b1 = true
        · rw [if_pos hc] at h ⊢
          exact ⟨hc0, hc, by simp, by simp⟩
        · rw [if_neg hc] at h; simp at h
      · rw [if_neg h3] at h ⊢
        by_cases h4 : b0 < 0xF0
        · rw [if_pos h4] at h ⊢
          by_cases hc : ((decide ((if b0 = 0xE0 then 0xA0 else 0x80) ≤ b1) && decide (b1 ≤ (if b0 = 0xED then 0x9F else 0xBF)) && cont b2) = true)
          · rw [if_pos hc] at h ⊢
            simp only [Bool.and_eq_true, decide_eq_true_eq] at hc
            refine ⟨hc0, ?_, fun _ => hc.2, by simp⟩
            unfold cont
            simp only [Bool.and_eq_true, decide_eq_true_eq]
            constructor
            · have := hc.1.1; split at this <;> omega
            · have := hc.1.2; split at this <;> omega
          · rw [if_neg hc] at h; simp at h
        · rw [if_neg h4] at h ⊢
          by_cases h5 : b0 < 0xF5
          · rw [if_pos h5] at h ⊢
            by_cases hc : ((decide ((if b0 = 0xF0 then 0x90 else 0x80) ≤ b1) && decide (b1 ≤ (if b0 = 0xF4 then 0x8F else 0xBF)) && cont b2 && cont b3) = true)
            · rw [if_pos hc] at h ⊢
              simp only [Bool.and_eq_true, decide_eq_true_eq] at hc
              refine ⟨hc0, ?_, fun _ => hc.1.2, fun _ => hc.2⟩
              unfold cont
              simp only [Bool.and_eq_true, decide_eq_true_eq]
              constructor
              · have := hc.1.1.1; split at this <;> omega
              · have := hc.1.1.2; split at this <;> omega
            · rw [if_neg hc] at h; simp at h
          · rw [if_neg h5] at h; simp at h

/-- list form: the first byte of a multi-byte rune is not a continuation byte, the others are -/
theorem decode_multibyte (c : List Nat) (h : 2 ≤ (decodeRune c).2) :
    cont (c.getD 0 0) = false ∧ ∀ i, 1 ≤ i → i < (decodeRune c).2 → cont (c.getD i 0) = true := by
  cases c with
  | nil => simp [decodeRune] at h
  | cons b0 rest =>
    rw [decode_eq_dec] at h ⊢
    obtain ⟨h0, h1, h2, h3⟩ := dec_multibyte _ _ _ _ h
    refine ⟨h0, ?_⟩
    intro i hi1 hi2
    have hle : (dec b0 (rest.getD 0 0) (rest.getD 1 0) (rest.getD 2 0)).2 ≤ 4 := by
      have := (decode_size (b0 :: rest)).2.2
      rw [decode_eq_dec] at this; exact this
    obtain ⟨j, rfl⟩ : ∃ j, i = j + 1 := ⟨i - 1, by omega⟩
    simp only [List.getD_cons_succ]
    rcases j with _ | _ | _ | j
    · exact h1
    · exact h2 (by omega)
    · exact h3 (by omega)
    · omega

/-- byte offset of the `k`-th rune of the forward decoding -/
def off (b : List Nat) (k : Nat) : Nat := sizeSum ((runesOf b).take k)

theorem off_zero (b : List Nat) : off b 0 = 0 := by simp [off, sizeSum]

theorem off_cons (b : List Nat) (hb : b ≠ []) (k : Nat) :
    off b (k + 1) = (decodeRune b).2 + off (b.drop (decodeRune b).2) k := by
  unfold off
  rw [runesOf_cons b hb]
  simp only [List.take_succ_cons, sizeSum]

theorem length_cons' (b : List Nat) (hb : b ≠ []) :
    (runesOf b).length = (runesOf (b.drop (decodeRune b).2)).length + 1 := by
  rw [runesOf_cons b hb]; simp

/-- **every byte that is not a continuation byte starts a rune of the forward decoding** -/
theorem start_is_boundary : ∀ (n : Nat) (b : List Nat), b.length ≤ n → ∀ q, q < b.length →
    cont (b.getD q 0) = false → ∃ k, k < (runesOf b).length ∧ off b k = q := by
  intro n
  induction n with
  | zero => intro b hb q hq; omega
  | succ n ih =>
    intro b hlen q hq hc
    have hb : b ≠ [] := by intro h; subst h; simp at hq
    have hp := decode_size_pos b hb
    have hle := decode_size_le b
    by_cases hq0 : q = 0
    · subst hq0
      exact ⟨0, by rw [length_cons' b hb]; omega, off_zero b⟩
    · by_cases hin : q < (decodeRune b).2
      · -- interior of the first rune: a continuation byte
        have h2 : 2 ≤ (decodeRune b).2 := by omega
        have := (decode_multibyte b h2).2 q (by omega) hin
        rw [this] at hc; cases hc
      · have hq' : q - (decodeRune b).2 < (b.drop (decodeRune b).2).length := by
          simp only [List.length_drop]; omega
        have hget : (b.drop (decodeRune b).2).getD (q - (decodeRune b).2) 0 = b.getD q 0 := by
          simp only [List.getD_eq_getElem?_getD, List.getElem?_drop]
          congr 2; omega
        obtain ⟨k, hk, hoff⟩ := ih (b.drop (decodeRune b).2) (by simp only [List.length_drop]; omega)
          (q - (decodeRune b).2) hq' (by rw [hget]; exact hc)
        refine ⟨k + 1, by rw [length_cons' b hb]; omega, ?_⟩
        rw [off_cons b hb, hoff]; omega

/-- the rune at offset `off b k` is the `k`-th rune -/
theorem rune_at (b : List Nat) (k : Nat) (hk : k < (runesOf b).length) :
    (runesOf b)[k]? = some (decodeRune (b.drop (off b k))) ∧ b.drop (off b k) ≠ [] := by
  have h := runesOf_drop k b
  have hne : (runesOf b).drop k ≠ [] := by
    intro hnil
    have := congrArg List.length hnil
    simp only [List.length_drop, List.length_nil] at this; omega
  have hbne : b.drop (off b k) ≠ [] := by
    intro hnil
    unfold off at hnil
    rw [hnil, runesOf_nil] at h
    exact hne h.symm
  refine ⟨?_, hbne⟩
  have h2 := h
  have hbne' : b.drop (sizeSum ((runesOf b).take k)) ≠ [] := hbne
  rw [runesOf_cons _ hbne'] at h2
  have : ((runesOf b).drop k)[0]? = some (decodeRune (b.drop (sizeSum ((runesOf b).take k)))) := by
    rw [← h2]; rfl
  unfold off
  simpa using this

theorem off_succ (b : List Nat) (k : Nat) (hk : k < (runesOf b).length) :
    off b (k + 1) = off b k + (decodeRune (b.drop (off b k))).2 := by
  have h := (rune_at b k hk).1
  unfold off at h ⊢
  rw [List.take_add_one, h]
  simp only [Option.toList_some]
  -- sizeSum of an append
  have happ : ∀ (l1 l2 : List (Nat × Nat)), sizeSum (l1 ++ l2) = sizeSum l1 + sizeSum l2 := by
    intro l1 l2; induction l1 with
    | nil => simp [sizeSum]
    | cons a as ih => simp only [List.cons_append, sizeSum, ih]; omega
  rw [happ]; simp [sizeSum]

theorem off_length (b : List Nat) : off b (runesOf b).length = b.length := by
  unfold off; rw [List.take_length]; exact sizeSum_runesOf b.length b (Nat.le_refl _)

/-- offsets before the end are strictly inside the input -/
theorem off_lt (b : List Nat) (k : Nat) (hk : k < (runesOf b).length) : off b k < b.length := by
  have h := (rune_at b k hk).2
  have : (b.drop (off b k)).length ≠ 0 := fun h0 => h (List.eq_nil_of_length_eq_zero h0)
  simp only [List.length_drop] at this; omega

theorem getD_drop (b : List Nat) (p i : Nat) : (b.drop p).getD i 0 = b.getD (p + i) 0 := by
  simp only [List.getD_eq_getElem?_getD, List.getElem?_drop]

theorem dec_single (b0 : Nat) : dec b0 0 0 0 = if b0 < 0x80 then (b0, 1) else (0xFFFD, 1) := by
  unfold dec
  by_cases h1 : b0 < 0x80
  · rw [if_pos h1, if_pos h1]
  · rw [if_neg h1, if_neg h1]
    by_cases h2 : b0 < 0xC2
    · rw [if_pos h2]
    · rw [if_neg h2]
      by_cases h3 : b0 < 0xE0
      · rw [if_pos h3]; rfl
      · rw [if_neg h3]
        by_cases h4 : b0 < 0xF0
        · rw [if_pos h4]
          simp only [lo3_pos, Bool.false_and, Bool.false_eq_true, if_false]
        · rw [if_neg h4]
          by_cases h5 : b0 < 0xF5
          · rw [if_pos h5]
            simp only [lo4_pos, Bool.false_and, Bool.false_eq_true, if_false]
          · rw [if_neg h5]

theorem decode_single (x : Nat) : decodeRune [x] = if x < 0x80 then (x, 1) else (0xFFFD, 1) := by
  rw [decode_eq_dec]; exact dec_single x

theorem drop_last (b : List Nat) (hb : b ≠ []) : b.drop (b.length - 1) = [b.getD (b.length - 1) 0] := by
  have hpos : 0 < b.length := List.length_pos_iff.mpr hb
  apply List.ext_getElem?
  intro i
  simp only [List.getElem?_drop]
  cases i with
  | zero =>
    simp only [Nat.add_zero, List.getElem?_cons_zero, List.getD_eq_getElem?_getD]
    have : b.length - 1 < b.length := by omega
    rw [List.getElem?_eq_getElem this]; rfl
  | succ i =>
    simp only [List.getElem?_cons_succ, List.getElem?_nil]
    exact List.getElem?_eq_none (by omega)

theorem cont_ge (x : Nat) (h : cont x = true) : ¬ x < 0x80 := by
  unfold cont at h; simp only [Bool.and_eq_true, decide_eq_true_eq] at h; omega

theorem lastStart_le (b : List Nat) (h : 2 ≤ b.length) : lastStart b ≤ b.length - 2 := by
  unfold lastStart
  simp only
  repeat' split
  all_goals omega

/-- **`DecodeLastRune` returns the last rune of the forward decoding**, value and size -/
theorem decodeLast_eq_last (b : List Nat) (hb : b ≠ []) : (runesOf b).getLast? = some (decodeLastRune b) := by
  have hn : 0 < b.length := List.length_pos_iff.mpr hb
  have hm : 0 < (runesOf b).length := by rw [length_cons' b hb]; omega
  have hk : (runesOf b).length - 1 < (runesOf b).length := by omega
  obtain ⟨hlast, hdne⟩ := rune_at b _ hk
  have hsucc := off_succ b _ hk
  rw [Nat.sub_add_cancel hm, off_length] at hsucc
  rw [List.getLast?_eq_getElem?, hlast]
  congr 1
  -- pL + size of the last rune = n
  generalize hpL : off b ((runesOf b).length - 1) = pL at hsucc hdne
  have hsz1 := decode_size_pos _ hdne
  have hsz4 := (decode_size (b.drop pL)).2.2
  unfold decodeLastRune
  simp only
  rw [if_neg (by omega)]
  by_cases hone : (decodeRune (b.drop pL)).2 = 1
  · -- the last rune is one byte
    have hp : pL = b.length - 1 := by omega
    have hd : decodeRune (b.drop pL) = if b.getD (b.length - 1) 0 < 0x80 then (b.getD (b.length - 1) 0, 1) else (0xFFFD, 1) := by
      rw [hp, drop_last b hb, decode_single]
    by_cases hascii : b.getD (b.length - 1) 0 < 0x80
    · rw [if_pos hascii, hd, if_pos hascii]
    · rw [if_neg hascii, hd, if_neg hascii]
      by_cases hend : lastStart b + (decodeRune (b.drop (lastStart b))).2 ≠ b.length
      · rw [if_pos hend]
      · rw [if_neg hend]
        have hend' : lastStart b + (decodeRune (b.drop (lastStart b))).2 = b.length := by omega
        by_cases hn1 : b.length = 1
        · -- a single byte: the scan starts at 0
          have hs0 : lastStart b = 0 := by
            unfold lastStart; simp only; repeat' split
            all_goals omega
          rw [hs0] at hend' ⊢
          have : pL = 0 := by omega
          rw [← this, hd, if_neg hascii]
        · -- the scan found a start `s ≤ n-2` whose rune ends at `n`: impossible, the last rune starts at `n-1`
          exfalso
          have hs := lastStart_le b (by omega)
          have h2 : 2 ≤ (decodeRune (b.drop (lastStart b))).2 := by omega
          have hc := (decode_multibyte _ h2).1
          rw [getD_drop, Nat.add_zero] at hc
          obtain ⟨k, hk', hoff⟩ := start_is_boundary b.length b (Nat.le_refl _) (lastStart b) (by omega) hc
          have hs2 := off_succ b k hk'
          rw [hoff, hend'] at hs2
          by_cases hkl : k + 1 < (runesOf b).length
          · have := off_lt b (k + 1) hkl; omega
          · have hke : k = (runesOf b).length - 1 := by omega
            rw [hke, hpL] at hoff
            omega
  · -- the last rune is a multi-byte sequence: lead byte at pL, continuation bytes up to the end
    have h2 : 2 ≤ (decodeRune (b.drop pL)).2 := by omega
    obtain ⟨hc0, hci⟩ := decode_multibyte _ h2
    rw [getD_drop, Nat.add_zero] at hc0
    have hlb : cont (b.getD (b.length - 1) 0) = true := by
      have := hci ((decodeRune (b.drop pL)).2 - 1) (by omega) (by omega)
      rw [getD_drop] at this
      rw [show pL + ((decodeRune (b.drop pL)).2 - 1) = b.length - 1 by omega] at this
      exact this
    rw [if_neg (cont_ge _ hlb)]
    have hstart : lastStart b = pL := by
      unfold lastStart
      simp only
      by_cases hs2 : (decodeRune (b.drop pL)).2 = 2
      · have e : b.length - 2 = pL := by omega
        have t1 : (decide (2 ≤ b.length) && runeStart (b.getD (b.length - 2) 0)) = true := by
          rw [runeStart_eq, e, hc0]; simp; omega
        rw [if_pos t1]; exact e
      · have hc1 := hci 1 (by omega) (by omega)
        rw [getD_drop] at hc1
        by_cases hs3 : (decodeRune (b.drop pL)).2 = 3
        · have e2 : b.length - 2 = pL + 1 := by omega
          have e3 : b.length - 3 = pL := by omega
          have t1 : ¬ ((decide (2 ≤ b.length) && runeStart (b.getD (b.length - 2) 0)) = true) := by
            rw [runeStart_eq, e2, hc1]; simp
          have t2 : (decide (3 ≤ b.length) && runeStart (b.getD (b.length - 3) 0)) = true := by
            rw [runeStart_eq, e3, hc0]; simp; omega
          rw [if_neg t1, if_pos t2]; exact e3
        · have hc2 := hci 2 (by omega) (by omega)
          rw [getD_drop] at hc2
          have e2 : b.length - 2 = pL + 2 := by omega
          have e3 : b.length - 3 = pL + 1 := by omega
          have e4 : b.length - 4 = pL := by omega
          have t1 : ¬ ((decide (2 ≤ b.length) && runeStart (b.getD (b.length - 2) 0)) = true) := by
            rw [runeStart_eq, e2, hc2]; simp
          have t2 : ¬ ((decide (3 ≤ b.length) && runeStart (b.getD (b.length - 3) 0)) = true) := by
            rw [runeStart_eq, e3, hc1]; simp
          have t3 : (decide (4 ≤ b.length) && runeStart (b.getD (b.length - 4) 0)) = true := by
            rw [runeStart_eq, e4, hc0]; simp; omega
          rw [if_neg t1, if_neg t2, if_pos t3]; exact e4
    rw [hstart, if_neg (by omega)]

end Uniseg.Utf8Last
