import Uniseg.Auto
/-! # Product-closure certificates and their lifting to all strings

A certificate for an algorithm `A : Alg L R Q V` is a finite list of product nodes
`(implementation state, spec summary, promise)` with, for every node and every pair
`(letter, promise of the rest)`, the *position* of the successor node in the list. It is computed
outside the kernel (a BFS in the driver) and only *checked* here:

* `checkChunk` is a Boolean function the kernel evaluates (`decide +kernel` in `Cert/*.lean`);
* `run_agree` lifts "every chunk checks" to: for every letter string over the certificate's
  alphabet, of any length, the implementation automaton and the spec automaton give the same
  verdict at every position.

Nothing about how the certificate was produced is trusted: a wrong successor index makes
`checkChunk` false, never true. -/
set_option linter.unusedSectionVars false
namespace Uniseg.Auto

/-- a product node -/
structure Node (R Q : Type) where
  s : Option Nat
  q : Q
  rho : R
deriving DecidableEq, Hashable, Inhabited, Repr

variable {L R Q V : Type} [DecidableEq L] [DecidableEq R] [DecidableEq Q] [DecidableEq V]

/-- a row: a node and the successor positions for all `(letter, promise)` pairs in order -/
abbrev Row (R Q : Type) := Node R Q × List Nat

structure Cert (L R Q : Type) where
  letters : List L
  rhos : List R
  chunks : List (List (Row R Q))     -- rows in chunks of fixed size `width`
  width : Nat

def Cert.pairs (c : Cert L R Q) : List (L × R) := c.letters.flatMap fun x => c.rhos.map fun r => (x, r)
def Cert.nodes (c : Cert L R Q) : List (Node R Q) := c.chunks.flatten.map (·.1)

def Cert.get (c : Cert L R Q) (i : Nat) : Option (Node R Q) :=
  match c.chunks[i / c.width]? with
  | none => none
  | some ch => match ch[i % c.width]? with
    | none => none
    | some row => some row.1

theorem Cert.get_mem (c : Cert L R Q) (i : Nat) (n : Node R Q) (h : c.get i = some n) : n ∈ c.nodes := by
  unfold Cert.get at h
  split at h
  · cases h
  · rename_i ch hch
    split at h
    · cases h
    · rename_i row hrow
      cases h
      have h1 : ch ∈ c.chunks := List.mem_of_getElem? hch
      have h2 : row ∈ ch := List.mem_of_getElem? hrow
      unfold Cert.nodes
      exact List.mem_map.mpr ⟨row, List.mem_flatten.mpr ⟨ch, h1, h2⟩, rfl⟩

variable (A : Alg L R Q V)

/-- the obligation for one node, one letter, one promise of the rest, and the claimed successor position -/
def checkPair (c : Cert L R Q) (n : Node R Q) (x : L) (r' : R) (idx : Nat) : Bool :=
  !(decide (A.laStep x r' = n.rho)) ||
    (let t := A.trans n.s x r'
     (n.s.isNone || decide (t.2 = A.qout n.q x r')) &&
       decide (c.get idx = some ⟨some t.1, A.qstep n.q x, r'⟩) &&
       -- C11: after a reported boundary the state is the one a fresh start on the suffix reaches
       (!(A.isB t.2) || decide ((A.trans none x r').1 = t.1)))

def checkRow (c : Cert L R Q) (n : Node R Q) : List (L × R) → List Nat → Bool
  | [], _ => true
  | _ :: _, [] => false
  | p :: ps, i :: is => checkPair A c n p.1 p.2 i && checkRow c n ps is

def checkChunk (c : Cert L R Q) (ch : List (Row R Q)) : Bool :=
  ch.all fun row => checkRow A c row.1 c.pairs row.2

/-- promises are closed under every letter and contain the promise of the empty rest -/
def checkRhos (c : Cert L R Q) : Bool :=
  decide (A.rhoEnd ∈ c.rhos) && c.letters.all fun x => c.rhos.all fun r => decide (A.laStep x r ∈ c.rhos)

/-- the start nodes (before the first letter) are in the certificate, for every promise -/
def checkInit (c : Cert L R Q) : Bool :=
  c.rhos.all fun r => decide ((⟨none, A.q0, r⟩ : Node R Q) ∈ c.nodes)

structure Cert.Valid (c : Cert L R Q) : Prop where
  chunks : ∀ ch ∈ c.chunks, checkChunk A c ch = true
  rhos : checkRhos A c = true
  init : checkInit A c = true

theorem checkRow_sound (c : Cert L R Q) (n : Node R Q) :
    ∀ (ps : List (L × R)) (is : List Nat), checkRow A c n ps is = true →
      ∀ p ∈ ps, A.laStep p.1 p.2 = n.rho →
        (n.s.isNone = true ∨ (A.trans n.s p.1 p.2).2 = A.qout n.q p.1 p.2) ∧
        (⟨some (A.trans n.s p.1 p.2).1, A.qstep n.q p.1, p.2⟩ : Node R Q) ∈ c.nodes ∧
        (A.isB (A.trans n.s p.1 p.2).2 = true → (A.trans none p.1 p.2).1 = (A.trans n.s p.1 p.2).1) := by
  intro ps
  induction ps with
  | nil => intro _ _ p hp; cases hp
  | cons p0 ps ih =>
    intro is h p hp hla
    cases is with
    | nil => simp [checkRow] at h
    | cons i is =>
      simp only [checkRow, Bool.and_eq_true] at h
      rcases List.mem_cons.mp hp with rfl | hp'
      · have h1 := h.1
        simp only [checkPair, hla, decide_true, Bool.not_true, Bool.false_or, Bool.and_eq_true,
          Bool.or_eq_true, decide_eq_true_eq, Bool.not_eq_true'] at h1
        refine ⟨h1.1.1, c.get_mem i _ h1.1.2, ?_⟩
        intro hb
        rcases h1.2 with h | h
        · rw [hb] at h; cases h
        · exact h
      · exact ih is h.2 p hp' hla

/-- the promise of a letter string: a backward fold -/
def la : List L → R
  | [] => A.rhoEnd
  | x :: rest => A.laStep x (la rest)

theorem la_mem (c : Cert L R Q) (hv : c.Valid A) (w : List L) (hw : ∀ x ∈ w, x ∈ c.letters) : la A w ∈ c.rhos := by
  have hr := hv.rhos
  simp only [checkRhos, Bool.and_eq_true, decide_eq_true_eq, List.all_eq_true] at hr
  induction w with
  | nil => exact hr.1
  | cons x rest ih =>
    have hx : x ∈ c.letters := hw x (List.mem_cons_self ..)
    have hrest := ih (fun y hy => hw y (List.mem_cons_of_mem _ hy))
    exact hr.2 x hx _ hrest

/-- the implementation's verdicts before each letter of `w`, started in state `s` -/
def implRun (s : Option Nat) : List L → List V
  | [] => []
  | x :: rest => let t := A.trans s x (la A rest); t.2 :: implRun (some t.1) rest

/-- the implementation's states after each letter of `w` -/
def implStates (s : Option Nat) : List L → List Nat
  | [] => []
  | x :: rest => let t := A.trans s x (la A rest); t.1 :: implStates (some t.1) rest

/-- the spec automaton's verdicts before each letter of `w`, started in summary `q` -/
def specRun (q : Q) : List L → List V
  | [] => []
  | x :: rest => A.qout q x (la A rest) :: specRun (A.qstep q x) rest

theorem mem_pairs (c : Cert L R Q) (x : L) (r : R) (hx : x ∈ c.letters) (hr : r ∈ c.rhos) : (x, r) ∈ c.pairs := by
  unfold Cert.pairs
  exact List.mem_flatMap.mpr ⟨x, hx, List.mem_map.mpr ⟨r, hr, rfl⟩⟩

theorem node_row (c : Cert L R Q) (n : Node R Q) (hn : n ∈ c.nodes) :
    ∃ ch ∈ c.chunks, ∃ row ∈ ch, row.1 = n := by
  unfold Cert.nodes at hn
  obtain ⟨row, hrow, rfl⟩ := List.mem_map.mp hn
  obtain ⟨ch, hch, hrow'⟩ := List.mem_flatten.mp hrow
  exact ⟨ch, hch, row, hrow', rfl⟩

/-- one step of the invariant -/
theorem step_closed (c : Cert L R Q) (hv : c.Valid A) (n : Node R Q) (hn : n ∈ c.nodes)
    (x : L) (r' : R) (hx : x ∈ c.letters) (hr : r' ∈ c.rhos) (hla : A.laStep x r' = n.rho) :
    (n.s.isNone = true ∨ (A.trans n.s x r').2 = A.qout n.q x r') ∧
    (⟨some (A.trans n.s x r').1, A.qstep n.q x, r'⟩ : Node R Q) ∈ c.nodes ∧
    (A.isB (A.trans n.s x r').2 = true → (A.trans none x r').1 = (A.trans n.s x r').1) := by
  obtain ⟨ch, hch, row, hrow, rfl⟩ := node_row c n hn
  have h1 := hv.chunks ch hch
  simp only [checkChunk, List.all_eq_true] at h1
  exact checkRow_sound A c row.1 c.pairs row.2 (h1 row hrow) (x, r') (mem_pairs c x r' hx hr) hla

/-- **Lifting.** From any node of a valid certificate whose promise is the promise of `w`, the
implementation and the spec automaton give the same verdicts on all of `w` (any length). -/
theorem run_agree (c : Cert L R Q) (hv : c.Valid A) :
    ∀ (w : List L) (n : Node R Q), n ∈ c.nodes → (∀ x ∈ w, x ∈ c.letters) → n.rho = la A w →
      (n.s.isNone = false → implRun A n.s w = specRun A n.q w) ∧
      (implRun A n.s w).tail = (specRun A n.q w).tail := by
  intro w
  induction w with
  | nil => intro n _ _ _; exact ⟨fun _ => rfl, rfl⟩
  | cons x rest ih =>
    intro n hn hw hrho
    have hx : x ∈ c.letters := hw x (List.mem_cons_self ..)
    have hrest : ∀ y ∈ rest, y ∈ c.letters := fun y hy => hw y (List.mem_cons_of_mem _ hy)
    have hr' : la A rest ∈ c.rhos := la_mem A c hv rest hrest
    have hla : A.laStep x (la A rest) = n.rho := hrho.symm
    obtain ⟨hagree, hsucc, _⟩ := step_closed A c hv n hn x (la A rest) hx hr' hla
    have ih' := ih ⟨some (A.trans n.s x (la A rest)).1, A.qstep n.q x, la A rest⟩ hsucc hrest rfl
    have htail : implRun A (some (A.trans n.s x (la A rest)).1) rest = specRun A (A.qstep n.q x) rest :=
      ih'.1 rfl
    refine ⟨?_, ?_⟩
    · intro hsome
      rcases hagree with hnone | hv'
      · rw [hnone] at hsome; cases hsome
      · simp only [implRun, specRun]
        rw [hv', htail]
    · simp only [implRun, specRun, List.tail_cons]
      exact htail

/-- from the start of a text: every verdict after the first letter agrees -/
theorem run_agree_start (c : Cert L R Q) (hv : c.Valid A) (w : List L) (hw : ∀ x ∈ w, x ∈ c.letters) :
    (implRun A none w).tail = (specRun A A.q0 w).tail := by
  have hi := hv.init
  simp only [checkInit, List.all_eq_true, decide_eq_true_eq] at hi
  have hn := hi (la A w) (la_mem A c hv w hw)
  exact (run_agree A c hv w ⟨none, A.q0, la A w⟩ hn hw rfl).2

end Uniseg.Auto

namespace Uniseg.Auto
open Uniseg.Spec
set_option linter.unusedSectionVars false

variable {L R Q V : Type} (A : Alg L R Q V)

/-- The spec automaton run equals the declarative reading at every interior position, given the
factorisation of the declarative reading through `summ` (a fold of `qstep`) and `la`; `P` is a
side condition on the letters of the text still to come (e.g. "the class code is < 256"). -/
theorem specRun_eq_interior (P : L → Prop) (summ : List L → Q) (spec : List L → List L → V)
    (hstep : ∀ left x, summ (x :: left) = A.qstep (summ left) x)
    (hfac : ∀ left x rest, left ≠ [] → (∀ y ∈ rest, P y) → spec left (x :: rest) = A.qout (summ left) x (la A rest)) :
    ∀ (w left : List L), left ≠ [] → (∀ y ∈ w, P y) → specRun A (summ left) w = interior spec left w := by
  intro w
  induction w with
  | nil => intro left _ _; rfl
  | cons x rest ih =>
    intro left hl hw
    have hrest : ∀ y ∈ rest, P y := fun y hy => hw y (List.mem_cons_of_mem _ hy)
    cases left with
    | nil => exact absurd rfl hl
    | cons l ls =>
      simp only [specRun, interior, List.singleton_append]
      rw [hfac (l :: ls) x rest hl hrest, ← hstep (l :: ls) x, ih (x :: l :: ls) (by simp) hrest]

theorem specRun_tail_eq_interior (P : L → Prop) (summ : List L → Q) (spec : List L → List L → V)
    (h0 : summ [] = A.q0)
    (hstep : ∀ left x, summ (x :: left) = A.qstep (summ left) x)
    (hfac : ∀ left x rest, left ≠ [] → (∀ y ∈ rest, P y) → spec left (x :: rest) = A.qout (summ left) x (la A rest))
    (w : List L) (hw : ∀ y ∈ w, P y) :
    (specRun A A.q0 w).tail = interior spec [] w := by
  cases w with
  | nil => rfl
  | cons x rest =>
    simp only [specRun, List.tail_cons, interior, List.nil_append]
    rw [← h0, ← hstep [] x]
    exact specRun_eq_interior A P summ spec hstep hfac rest [x] (by simp)
      (fun y hy => hw y (List.mem_cons_of_mem _ hy))

theorem interior_map {α β γ : Type} (f : List β → List β → γ) (g : α → β) :
    ∀ (w left : List α), interior (fun l r => f (l.map g) (r.map g)) left w = interior f (left.map g) (w.map g) := by
  intro w
  induction w with
  | nil => intro left; rfl
  | cons x rest ih =>
    intro left
    cases left with
    | nil => simp only [interior, List.map_cons, List.map_nil, List.nil_append]; exact ih [x]
    | cons l ls =>
      simp only [interior, List.map_cons, List.singleton_append]
      rw [ih (x :: l :: ls)]; rfl

end Uniseg.Auto

namespace Uniseg.Auto
set_option linter.unusedSectionVars false
variable {L R Q V : Type} [DecidableEq L] [DecidableEq R] [DecidableEq Q] [DecidableEq V] (A : Alg L R Q V)

/-- the node a run is in after reading `pre` (given that `suf` follows) -/
def nodeAfter (s : Option Nat) (q : Q) : List L → List L → Node R Q
  | [], suf => ⟨s, q, la A suf⟩
  | x :: pre, suf => nodeAfter (some (A.trans s x (la A (pre ++ suf))).1) (A.qstep q x) pre suf

theorem nodeAfter_mem (c : Cert L R Q) (hv : c.Valid A) : ∀ (pre suf : List L) (n : Node R Q), n ∈ c.nodes →
    (∀ x ∈ pre ++ suf, x ∈ c.letters) → n.rho = la A (pre ++ suf) →
    nodeAfter A n.s n.q pre suf ∈ c.nodes := by
  intro pre
  induction pre with
  | nil =>
    intro suf n hn _ hrho
    simp only [nodeAfter, List.nil_append] at hrho ⊢
    cases n with
    | mk s q rho => simp only at hrho; subst hrho; exact hn
  | cons x pre ih =>
    intro suf n hn hw hrho
    have hx : x ∈ c.letters := hw x (by simp)
    have hrest : ∀ y ∈ pre ++ suf, y ∈ c.letters := fun y hy => hw y (by simp only [List.cons_append]; exact List.mem_cons_of_mem _ hy)
    have hr' := la_mem A c hv (pre ++ suf) hrest
    have hla : A.laStep x (la A (pre ++ suf)) = n.rho := by rw [hrho]; rfl
    obtain ⟨_, hsucc, _⟩ := step_closed A c hv n hn x (la A (pre ++ suf)) hx hr' hla
    simp only [nodeAfter]
    exact ih suf ⟨some (A.trans n.s x (la A (pre ++ suf))).1, A.qstep n.q x, la A (pre ++ suf)⟩ hsucc hrest rfl

/-- **C11, suffix half (class level).** If, after reading `pre` from the start of a text, the verdict
before the next letter `x` is a reported boundary, then the state after `x` is the state a fresh
start on `x :: suf` reaches after `x` — so everything after `x` (states and verdicts) is what a
fresh run on the suffix computes. -/
theorem restart_at_boundary (c : Cert L R Q) (hv : c.Valid A) (pre : List L) (x : L) (suf : List L)
    (hpre : pre ≠ []) (hw : ∀ y ∈ pre ++ x :: suf, y ∈ c.letters)
    (hb : A.isB (A.trans (nodeAfter A none A.q0 pre (x :: suf)).s x (la A suf)).2 = true) :
    (A.trans none x (la A suf)).1 = (A.trans (nodeAfter A none A.q0 pre (x :: suf)).s x (la A suf)).1 := by
  have hi := hv.init
  simp only [checkInit, List.all_eq_true, decide_eq_true_eq] at hi
  have hn0 := hi (la A (pre ++ x :: suf)) (la_mem A c hv _ hw)
  have hn := nodeAfter_mem A c hv pre (x :: suf) ⟨none, A.q0, la A (pre ++ x :: suf)⟩ hn0 hw rfl
  have hx : x ∈ c.letters := hw x (by simp)
  have hsuf : ∀ y ∈ suf, y ∈ c.letters := fun y hy => hw y (by simp [hy])
  have hrho : (nodeAfter A none A.q0 pre (x :: suf)).rho = la A (x :: suf) := by
    clear hn hn0 hb hi
    generalize (none : Option Nat) = s
    generalize A.q0 = q
    induction pre generalizing s q with
    | nil => exact absurd rfl hpre
    | cons y pre ih =>
      cases pre with
      | nil => rfl
      | cons z pre' =>
        simp only [nodeAfter]
        exact ih (by simp) (fun w hw' => hw w (by simp only [List.cons_append] at hw' ⊢; exact List.mem_cons_of_mem _ hw')) _ _
  obtain ⟨_, _, h3⟩ := step_closed A c hv _ hn x (la A suf) hx (la_mem A c hv suf hsuf) (by rw [hrho]; rfl)
  exact h3 hb

end Uniseg.Auto
