import Uniseg.Proofs.Chain
import Uniseg.Proofs.Range
/-! # `Step` / `StepString`: packing, and "Step is a first-cut loop over the product of the four automata"

* `unpack_pack`: the four sub-states and the class field survive the round trip through the packed
  `int` (shifts and masks are the regenerated constants), given the state ranges of `Range`.
* `step_isFirstCut`: the chain of `Step` calls is one left-to-right run of the four transition
  functions in lock step; clusters end where the grapheme component reports a boundary. -/
namespace Uniseg.ChainStep
open Uniseg Uniseg.Gen Uniseg.Chain

/-- the unpacking at the top of `Step` when `state >= 0` -/
def decS (c : Nat) : StepSt :=
  ⟨c &&& maskGraphemeState, (c >>> shiftWordState) &&& maskWordState,
   (c >>> shiftSentenceState) &&& maskSentenceState, (c >>> shiftLineState) &&& maskLineState⟩

/-- every sub-state fits its bit field -/
def WFS (x : StepSt) : Prop := x.g < 16 ∧ x.w < 32 ∧ x.s < 16 ∧ x.l < 256

theorem or_shift (a b i : Nat) (h : b < 2 ^ i) : b ||| (a <<< i) = a * 2 ^ i + b := by
  rw [Nat.or_comm, ← Nat.shiftLeft_add_eq_or_of_lt h, Nat.shiftLeft_eq]

theorem packStep_eq (x : StepSt) (p : Nat) (h : WFS x) :
    packStep x p = p * 2097152 + x.l * 8192 + x.s * 512 + x.w * 16 + x.g := by
  obtain ⟨h1, h2, h3, h4⟩ := h
  show x.g ||| (x.w <<< 4) ||| (x.s <<< 9) ||| (x.l <<< 13) ||| (p <<< 21) = _
  rw [or_shift x.w x.g 4 (by omega)]
  rw [or_shift x.s _ 9 (by omega)]
  rw [or_shift x.l _ 13 (by omega)]
  rw [or_shift p _ 21 (by omega)]
  omega

theorem decS_wf (c : Nat) : WFS (decS c) := by
  refine ⟨?_, ?_, ?_, ?_⟩
  · exact Nat.lt_of_le_of_lt Nat.and_le_right (by decide)
  · exact Nat.lt_of_le_of_lt Nat.and_le_right (by decide)
  · exact Nat.lt_of_le_of_lt Nat.and_le_right (by decide)
  · exact Nat.lt_of_le_of_lt Nat.and_le_right (by decide)

/-- **pack/unpack round trip** (C08): the sub-states and the class field come back unchanged -/
theorem unpack_pack (x : StepSt) (p : Nat) (h : WFS x) :
    decS (packStep x p) = x ∧ packStep x p >>> shiftPropState = p := by
  rw [packStep_eq x p h]
  obtain ⟨h1, h2, h3, h4⟩ := h
  have m1 : ∀ v : Nat, v &&& maskGraphemeState = v % 16 := fun v => by
    show v &&& 15 = _; rw [show (15 : Nat) = 2 ^ 4 - 1 from rfl, Nat.and_two_pow_sub_one_eq_mod]
  have m2 : ∀ v : Nat, v &&& maskWordState = v % 32 := fun v => by
    show v &&& 31 = _; rw [show (31 : Nat) = 2 ^ 5 - 1 from rfl, Nat.and_two_pow_sub_one_eq_mod]
  have m3 : ∀ v : Nat, v &&& maskSentenceState = v % 16 := fun v => by
    show v &&& 15 = _; rw [show (15 : Nat) = 2 ^ 4 - 1 from rfl, Nat.and_two_pow_sub_one_eq_mod]
  have m4 : ∀ v : Nat, v &&& maskLineState = v % 256 := fun v => by
    show v &&& 255 = _; rw [show (255 : Nat) = 2 ^ 8 - 1 from rfl, Nat.and_two_pow_sub_one_eq_mod]
  have s1 : ∀ v : Nat, v >>> shiftWordState = v / 16 := fun v => by show v >>> 4 = _; rw [Nat.shiftRight_eq_div_pow]
  have s2 : ∀ v : Nat, v >>> shiftSentenceState = v / 512 := fun v => by show v >>> 9 = _; rw [Nat.shiftRight_eq_div_pow]
  have s3 : ∀ v : Nat, v >>> shiftLineState = v / 8192 := fun v => by show v >>> 13 = _; rw [Nat.shiftRight_eq_div_pow]
  have s4 : ∀ v : Nat, v >>> shiftPropState = v / 2097152 := fun v => by show v >>> 21 = _; rw [Nat.shiftRight_eq_div_pow]
  refine ⟨?_, ?_⟩
  · simp only [decS, m1, m2, m3, m4, s1, s2, s3]
    cases x with
    | mk g w s l =>
      simp only at h1 h2 h3 h4 ⊢
      congr 1 <;> omega
  · rw [s4]; omega

/-- the four transition functions in lock step; the verdict carries (grapheme boundary, word
boundary, sentence boundary, line verdict, grapheme class of the code point) -/
def trStep (st : Option StepSt) (r : Nat) (rest : List Nat) : StepSt × (Bool × Bool × Bool × Nat × Nat) :=
  let tg := transitionGraphemeState (st.map (·.g)) r
  let tw := transitionWordBreakState (st.map (·.w)) r rest
  let ts := transitionSentenceBreakState (st.map (·.s)) r rest
  let tl := transitionLineBreakState (st.map (·.l)) r rest
  (⟨tg.1, tw.1, ts.1, tl.1⟩, (tg.2.2, tw.2, ts.2, tl.2, tg.2.1))

def isBStep (v : Bool × Bool × Bool × Nat × Nat) : Bool := v.1

theorem optlt (st : Option StepSt) (f : StepSt → Nat) (B : Nat) (h : ∀ x, st = some x → f x < B) :
    ∀ s, st.map f = some s → s < B := by
  intro s hs
  cases st with
  | none => cases hs
  | some x => simp only [Option.map_some, Option.some.injEq] at hs; subst hs; exact h x rfl

/-- the product transition keeps every sub-state in range -/
theorem trStep_wf (st : Option StepSt) (hst : ∀ x, st = some x → WFS x) (r : Nat) (rest : List Nat) :
    WFS (trStep st r rest).1 := by
  refine ⟨?_, ?_, ?_, ?_⟩
  · exact Range.transG_lt _ _
  · exact Range.transWK_lt _ (optlt st (·.w) 32 (fun x hx => (hst x hx).2.1)) _ _ _
  · exact Range.transS_lt _ (optlt st (·.s) 16 (fun x hx => (hst x hx).2.2.1)) _ _
  · exact Range.transL_lt _ (optlt st (·.l) 256 (fun x hx => (hst x hx).2.2.2)) _ _

theorem stepLoop_cut (amb fp : Nat) : ∀ (rest : List Rune) (x : StepSt) (width : Nat), WFS x →
    (stepLoop amb fp x width rest).1 = (firstCutG isBStep (runV trStep (some x) (runeVals rest))).1 ∧
    ∀ t, (firstCutG isBStep (runV trStep (some x) (runeVals rest))).2 = some t →
      decS (stepLoop amb fp x width rest).2.2 = t.1 := by
  intro rest
  induction rest with
  | nil => intro x width _; exact ⟨rfl, fun σ' h => by cases h⟩
  | cons r rest ih =>
    intro x width hx
    have hwf := trStep_wf (some x) (fun y hy => by cases hy; exact hx) r.1 (runeVals rest)
    simp only [stepLoop, runeVals, List.map_cons, runV, firstCutG, isBStep]
    simp only [trStep, Option.map_some, runeVals] at hwf ⊢
    by_cases hb : (transitionGraphemeState (some x.g) r.1).2.2 = true
    · simp only [hb, ↓reduceIte, Option.some.injEq, true_and]
      intro σ' h
      subst h
      exact (unpack_pack _ _ hwf).1
    · simp only [hb, Bool.false_eq_true, ↓reduceIte]
      cases rest with
      | nil => exact ⟨rfl, fun σ' h => by cases h⟩
      | cons r2 rest2 =>
        have := ih _ (widthStep amb fp width r.1 (transitionGraphemeState (some x.g) r.1).2.1) hwf
        simp only [runeVals, List.map_cons] at this
        exact ⟨by simp only [this.1, List.map_cons], by simpa only [List.map_cons] using this.2⟩

/-- `Step` / `StepString` are first-cut loops over `trStep` with carried-state decoding `decS` -/
theorem step_isFirstCut (isString : Bool) (amb : Nat) :
    IsFirstCut trStep isBStep (stepR isString amb) decS (fun _ => ()) (fun _ => ()) := by
  intro r rest st
  cases rest with
  | nil => cases isString <;> exact ⟨rfl, (fun σ' h => by cases h), rfl⟩
  | cons r2 rest2 =>
    cases st with
    | none =>
      have hwf := trStep_wf none (fun y hy => by cases hy) r.1 (runeVals (r2 :: rest2))
      have := stepLoop_cut amb (transitionGraphemeState none r.1).2.1 (r2 :: rest2) (trStep none r.1 (runeVals (r2 :: rest2))).1
        (runeWidth amb r.1 (transitionGraphemeState none r.1).2.1) hwf
      simp only [stepR, startG]
      exact ⟨by simp only [← this.1]; rfl, this.2, by trivial⟩
    | some s =>
      have := stepLoop_cut amb (s >>> shiftPropState) (r2 :: rest2) (decS s) (runeWidth amb r.1 (s >>> shiftPropState)) (decS_wf s)
      simp only [stepR, startG]
      exact ⟨by simp only [← this.1]; rfl, this.2, by trivial⟩

end Uniseg.ChainStep

namespace Uniseg.ChainStep
open Uniseg Uniseg.Gen Uniseg.Chain

/-! ## the `boundaries` value -/

/-- what a caller decodes from `boundaries`: `& MaskLine`, `& MaskWord != 0`, `& MaskSentence != 0` -/
def flagsOf (b : Nat) : Nat × Bool × Bool := (b &&& MaskLine, b &&& MaskWord != 0, b &&& MaskSentence != 0)

theorem and_mask_mod (x m k : Nat) (hm : m < 2 ^ k) : x &&& m = (x % 2 ^ k) &&& m := by
  have h1 : m &&& (2 ^ k - 1) = m := by rw [Nat.and_two_pow_sub_one_eq_mod, Nat.mod_eq_of_lt hm]
  calc x &&& m = x &&& (m &&& (2 ^ k - 1)) := by rw [h1]
    _ = (x &&& (2 ^ k - 1)) &&& m := by rw [Nat.and_comm m, Nat.and_assoc]
    _ = (x % 2 ^ k) &&& m := by rw [Nat.and_two_pow_sub_one_eq_mod]

/-- finite part: for every value `y < 16` of the low four bits -/
theorem flags_low : ∀ y, y < 16 → ∀ n : Nat,
    flagsOf (n * 16 + y) = (y &&& MaskLine, y &&& MaskWord != 0, y &&& MaskSentence != 0) := by
  intro y hy n
  simp only [flagsOf]
  have e : ∀ m, m < 16 → (n * 16 + y) &&& m = y &&& m := by
    intro m hm
    rw [and_mask_mod (n * 16 + y) m 4 hm, and_mask_mod y m 4 hm]
    congr 1; omega
  rw [e MaskLine (by decide), e MaskWord (by decide), e MaskSentence (by decide)]

theorem flags_mk (l width : Nat) (w s : Bool) (hl : l < 4) :
    flagsOf (l ||| (width <<< ShiftWidth) ||| (if w then 1 <<< shiftWord else 0) ||| (if s then 1 <<< shiftSentence else 0)) =
      (l, w, s) := by
  have hreg : l ||| (width <<< ShiftWidth) ||| (if w then 1 <<< shiftWord else 0) ||| (if s then 1 <<< shiftSentence else 0) =
      (l ||| (if w then 1 <<< shiftWord else 0) ||| (if s then 1 <<< shiftSentence else 0)) ||| (width <<< ShiftWidth) := by
    ac_rfl
  rw [hreg]
  have hl' : l = 0 ∨ l = 1 ∨ l = 2 ∨ l = 3 := by omega
  have key : ∀ y, y < 16 → flagsOf (y ||| (width <<< ShiftWidth)) = (y &&& MaskLine, y &&& MaskWord != 0, y &&& MaskSentence != 0) := by
    intro y hy
    rw [show y ||| (width <<< ShiftWidth) = width * 16 + y from or_shift width y 4 (by omega)]
    exact flags_low y hy width
  rcases hl' with rfl | rfl | rfl | rfl <;> cases w <;> cases s <;> exact key _ (by decide)

theorem flags_end (width : Nat) : flagsOf (endBoundaries width) = (LineMustBreak, true, true) := by
  unfold endBoundaries
  have : LineMustBreak ||| (1 <<< shiftWord) ||| (1 <<< shiftSentence) ||| (width <<< ShiftWidth) =
      LineMustBreak ||| (width <<< ShiftWidth) ||| (if true then 1 <<< shiftWord else 0) ||| (if true then 1 <<< shiftSentence else 0) := by
    simp only [↓reduceIte]
    ac_rfl
  rw [this, flags_mk _ _ _ _ (by decide)]

/-- what the verdict of the product run at a cut says about the three other segmentations -/
def flagsHv : Option (Bool × Bool × Bool × Nat × Nat) → Nat × Bool × Bool
  | none => (LineMustBreak, true, true)
  | some v => (v.2.2.2.1, v.2.1, v.2.2.1)

theorem line_verdict_lt (st : Option Nat) (r : Nat) (rest : List Nat) : (transitionLineBreakState st r rest).2 < 4 :=
  Range.transL_verdict_lt _ _ _

theorem stepLoop_flags (amb fp : Nat) : ∀ (rest : List Rune) (x : StepSt) (width : Nat), rest ≠ [] →
    flagsOf (stepLoop amb fp x width rest).2.1 =
      flagsHv ((firstCutG isBStep (runV trStep (some x) (runeVals rest))).2.map (·.2)) := by
  intro rest
  induction rest with
  | nil => intro _ _ h; exact absurd rfl h
  | cons r rest ih =>
    intro x width _
    simp only [stepLoop, runeVals, List.map_cons, runV, firstCutG, isBStep]
    simp only [trStep, Option.map_some, runeVals]
    by_cases hb : (transitionGraphemeState (some x.g) r.1).2.2 = true
    · simp only [hb, ↓reduceIte, Option.map_some, flagsHv]
      exact flags_mk _ _ _ _ (line_verdict_lt _ _ _)
    · simp only [hb, Bool.false_eq_true, ↓reduceIte]
      cases rest with
      | nil => simp only [List.map_nil, runV, firstCutG, Option.map_none, flagsHv]; exact flags_end _
      | cons r2 rest2 =>
        have := ih ⟨(transitionGraphemeState (some x.g) r.1).1, (transitionWordBreakState (some x.w) r.1 (runeVals (r2 :: rest2))).1,
          (transitionSentenceBreakState (some x.s) r.1 (runeVals (r2 :: rest2))).1,
          (transitionLineBreakState (some x.l) r.1 (runeVals (r2 :: rest2))).1⟩
          (widthStep amb fp width r.1 (transitionGraphemeState (some x.g) r.1).2.1) (by simp)
        simp only [runeVals, List.map_cons] at this
        simpa only [List.map_cons] using this

/-- `Step`/`StepString` as a first-cut loop whose extra result, decoded by `flagsOf`, is the product
run's verdict at the cut: (line verdict, word boundary, sentence boundary), and
(LineMustBreak, true, true) at the end of the text -/
theorem step_isFirstCut_flags (isString : Bool) (amb : Nat) :
    IsFirstCut trStep isBStep (stepR isString amb) decS flagsOf flagsHv := by
  intro r rest st
  obtain ⟨h1, h2, _⟩ := step_isFirstCut isString amb r rest st
  refine ⟨h1, h2, ?_⟩
  cases rest with
  | nil =>
    cases isString <;> simp only [stepR, runeVals, List.map_nil, runV, firstCutG, Option.map_none, flagsHv] <;> exact flags_end _
  | cons r2 rest2 =>
    cases st with
    | none =>
      simp only [stepR, startG]
      exact stepLoop_flags amb _ (r2 :: rest2) (trStep none r.1 (runeVals (r2 :: rest2))).1 _ (by simp)
    | some s =>
      simp only [stepR, startG]
      exact stepLoop_flags amb _ (r2 :: rest2) (decS s) _ (by simp)

end Uniseg.ChainStep
