import Uniseg.Lookup
/-! # Range tables: sortedness and "binary search = interval lookup"

`sortedB` is the Boolean the kernel evaluates on each regenerated table (`decide +kernel` in
`Properties/C07`); `search_eq_lookup` turns it into: for every code point `r` (all naturals),
`propertySearch` returns the unique entry whose range contains `r`, or the zero entry if there
is none — i.e. the interval semantics `lookupE`, a plain left-to-right scan. -/
namespace Uniseg.Table
open Uniseg

/-- interval semantics of a range table: the first entry containing `r`, else the zero entry -/
def lookupE : List Nat → Nat → Nat
  | [], _ => 0
  | e :: es, r => if eLo e ≤ r ∧ r ≤ eHi e then e else lookupE es r

/-- every range is well-formed and ends before the next one starts (single pass) -/
def sortedB : List Nat → Bool
  | [] => true
  | e :: es =>
    decide (eLo e ≤ eHi e) &&
      (match es with
       | [] => true
       | e' :: _ => decide (eHi e < eLo e')) && sortedB es

structure Sorted (l : List Nat) : Prop where
  wf : ∀ e ∈ l, eLo e ≤ eHi e
  pw : l.Pairwise (fun a b => eHi a < eLo b)

theorem sortedB_cons (e : Nat) (es : List Nat) :
    sortedB (e :: es) = (decide (eLo e ≤ eHi e) &&
      (match es with
       | [] => true
       | e' :: _ => decide (eHi e < eLo e')) && sortedB es) := rfl

theorem sortedB_head_lt : ∀ (es : List Nat) (e : Nat), sortedB (e :: es) = true → ∀ x ∈ es, eHi e < eLo x := by
  intro es
  induction es with
  | nil => intro e _ x hx; cases hx
  | cons e' es ih =>
    intro e h x hx
    rw [sortedB_cons] at h
    simp only [Bool.and_eq_true, decide_eq_true_eq] at h
    obtain ⟨⟨_, h2⟩, hs⟩ := h
    rcases List.mem_cons.mp hx with rfl | hx'
    · exact h2
    · have := ih e' hs x hx'
      have hwf : eLo e' ≤ eHi e' := by
        rw [sortedB_cons] at hs
        simp only [Bool.and_eq_true, decide_eq_true_eq] at hs
        exact hs.1.1
      omega

theorem sortedB_sound : ∀ (l : List Nat), sortedB l = true → Sorted l := by
  intro l
  induction l with
  | nil => intro _; exact Sorted.mk (fun e he => nomatch he) List.Pairwise.nil
  | cons e es ih =>
    intro h
    have hlt := sortedB_head_lt es e h
    have h' := h
    rw [sortedB_cons] at h'
    simp only [Bool.and_eq_true, decide_eq_true_eq] at h'
    obtain ⟨⟨h1, _⟩, h3⟩ := h'
    have ihs := ih h3
    refine ⟨?_, List.Pairwise.cons hlt ihs.pw⟩
    intro x hx
    rcases List.mem_cons.mp hx with rfl | hx'
    · exact h1
    · exact ihs.wf x hx'

theorem lookupE_none (l : List Nat) (r : Nat) (h : ∀ e ∈ l, ¬ (eLo e ≤ r ∧ r ≤ eHi e)) : lookupE l r = 0 := by
  induction l with
  | nil => rfl
  | cons a as ih =>
    simp only [lookupE]
    rw [if_neg (h a (List.mem_cons_self ..))]
    exact ih (fun e he => h e (List.mem_cons_of_mem _ he))

theorem lookupE_of_mem (l : List Nat) (hs : Sorted l) (e r : Nat) (he : e ∈ l) (hr : eLo e ≤ r ∧ r ≤ eHi e) :
    lookupE l r = e := by
  induction l with
  | nil => cases he
  | cons a as ih =>
    simp only [lookupE]
    have hpw := List.pairwise_cons.mp hs.pw
    by_cases ha : eLo a ≤ r ∧ r ≤ eHi a
    · rw [if_pos ha]
      rcases List.mem_cons.mp he with rfl | he'
      · rfl
      · have := hpw.1 e he'
        omega
    · rw [if_neg ha]
      rcases List.mem_cons.mp he with rfl | he'
      · exact absurd hr ha
      · exact ih ⟨fun x hx => hs.wf x (List.mem_cons_of_mem _ hx), hpw.2⟩ he'

/-- every probe of the binary search is in range (no index panic) -/
theorem search_mid_lt (fr to n : Nat) (h : fr < to) (hto : to ≤ n) : (fr + to) / 2 < n := by omega

theorem getD_mem (l : List Nat) (i : Nat) (h : i < l.length) : l.getD i 0 ∈ l := by
  rw [List.getD_eq_getElem?_getD, List.getElem?_eq_getElem h]
  exact List.getElem_mem h

theorem sorted_lt (l : List Nat) (hs : Sorted l) (i j : Nat) (hij : i < j) (hj : j < l.length) :
    eHi (l.getD i 0) < eLo (l.getD j 0) := by
  have hi : i < l.length := by omega
  rw [List.getD_eq_getElem?_getD, List.getD_eq_getElem?_getD, List.getElem?_eq_getElem hi, List.getElem?_eq_getElem hj]
  exact (List.pairwise_iff_getElem.mp hs.pw) i j hi hj hij

theorem searchLoop_spec (l : List Nat) (hs : Sorted l) (r : Nat) :
    ∀ (fuel fr to : Nat), to ≤ l.length → to - fr < fuel →
      (∀ i, i < fr → i < l.length → eHi (l.getD i 0) < r) →
      (∀ i, to ≤ i → i < l.length → r < eLo (l.getD i 0)) →
      searchLoop l.toArray r fuel fr to = lookupE l r := by
  intro fuel
  induction fuel with
  | zero => intro fr to _ h; omega
  | succ fuel ih =>
    intro fr to hto hfuel hlo hhi
    simp only [searchLoop]
    by_cases hlt : fr < to
    · rw [if_pos hlt]
      have hm : (fr + to) / 2 < l.length := by omega
      have hget : l.toArray.getD ((fr + to) / 2) 0 = l.getD ((fr + to) / 2) 0 := by
        simp [Array.getD, List.getD_eq_getElem?_getD, hm]
      simp only [hget]
      have hwf : eLo (l.getD ((fr + to) / 2) 0) ≤ eHi (l.getD ((fr + to) / 2) 0) := hs.wf _ (getD_mem l _ hm)
      by_cases h1 : r < eLo (l.getD ((fr + to) / 2) 0)
      · rw [if_pos h1]
        apply ih fr ((fr + to) / 2) (by omega) (by omega) hlo
        intro i hi hil
        by_cases hie : i = (fr + to) / 2
        · subst hie; exact h1
        · have := sorted_lt l hs ((fr + to) / 2) i (by omega) hil
          omega
      · rw [if_neg h1]
        by_cases h2 : eHi (l.getD ((fr + to) / 2) 0) < r
        · rw [if_pos h2]
          apply ih ((fr + to) / 2 + 1) to hto (by omega) _ hhi
          intro i hi hil
          by_cases hie : i = (fr + to) / 2
          · subst hie; exact h2
          · have := sorted_lt l hs i ((fr + to) / 2) (by omega) hm
            omega
        · rw [if_neg h2]
          exact (lookupE_of_mem l hs _ r (getD_mem l _ hm) ⟨by omega, by omega⟩).symm
    · rw [if_neg hlt]
      symm
      apply lookupE_none
      intro e he hr
      obtain ⟨i, hi, rfl⟩ := List.getElem_of_mem he
      have hgd : l.getD i 0 = l[i] := by rw [List.getD_eq_getElem?_getD, List.getElem?_eq_getElem hi]; rfl
      by_cases hif : i < fr
      · have := hlo i hif hi; rw [hgd] at this; omega
      · have := hhi i (by omega) hi; rw [hgd] at this; omega

/-- **Binary search = interval lookup** on every sorted table, for every `r`. -/
theorem search_eq_lookup (l : List Nat) (h : sortedB l = true) (r : Nat) :
    propertySearch l.toArray r = lookupE l r := by
  unfold propertySearch
  have hsz : l.toArray.size = l.length := by simp
  rw [hsz]
  exact searchLoop_spec l (sortedB_sound l h) r (l.length + 1) 0 l.length (Nat.le_refl _) (by omega)
    (fun i hi _ => by omega) (fun i hi hil => by omega)

end Uniseg.Table
