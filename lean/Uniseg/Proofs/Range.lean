import Uniseg.Impl.Transitions
/-! # Ranges of the transition outputs (needed wherever states are packed or masked)

The new state of every transition function fits the bit field `step.go` and `grapheme.go` give it:
grapheme < 16, word < 32, sentence < 16, line < 256. For the rule tables this is a finite check on
the regenerated packed literal (every cell, by the kernel) plus a size bound on the literal (cells
beyond it read as "no such case"). -/
namespace Uniseg.Range
open Uniseg Uniseg.Gen

/-- the Boolean the kernel evaluates: the literal has no cell beyond state 63 and every cell's new
state is below `B` -/
def cellsBelow (packed B : Nat) : Bool :=
  decide (packed < 2 ^ (64 * 128 * 32)) &&
    (List.range 64).all fun s => (List.range 128).all fun p => decide (cell packed s p &&& 0xFF < B)

theorem cell_large (packed : Nat) (h : packed < 2 ^ (64 * 128 * 32)) (s p : Nat) (hs : 64 ≤ s) : cell packed s p = 0 := by
  unfold cell
  split
  · have : packed >>> ((s * 128 + p) * 32) = 0 := by
      rw [Nat.shiftRight_eq_div_pow]
      apply Nat.div_eq_of_lt
      calc packed < 2 ^ (64 * 128 * 32) := h
        _ ≤ 2 ^ ((s * 128 + p) * 32) := Nat.pow_le_pow_right (by decide) (by omega)
    rw [this]; rfl
  · rfl

theorem ruleGet_lt (packed B : Nat) (h : cellsBelow packed B = true) (st : Option Nat) (p : Nat)
    (r : Nat × Nat × Nat) (hr : ruleGet packed st p = some r) : r.1 < B := by
  simp only [cellsBelow, Bool.and_eq_true, decide_eq_true_eq, List.all_eq_true, List.mem_range] at h
  obtain ⟨hsz, hall⟩ := h
  unfold ruleGet at hr
  cases st with
  | none => cases hr
  | some s =>
    simp only at hr
    split at hr
    · cases hr
    · rename_i hc
      cases hr
      simp only
      by_cases hs : s < 64
      · by_cases hp : p < 128
        · exact hall s hs p hp
        · exfalso; apply hc; unfold cell; rw [if_neg hp]
      · exfalso; apply hc; exact cell_large packed hsz s p (by omega)

theorem merge_lt (packed B anyState anyProp : Nat) (dflt : Nat × Nat × Nat) (h : cellsBelow packed B = true)
    (hd : dflt.1 < B) (st : Option Nat) (p : Nat) : (merge packed anyState anyProp dflt st p).1 < B := by
  unfold merge
  split
  · rename_i t ht; exact ruleGet_lt packed B h st p t ht
  · split
    · rename_i a b c d e f h1 h2
      have := ruleGet_lt packed B h (some anyState) p _ h2
      split <;> exact this
    · rename_i t h1 h2; exact ruleGet_lt packed B h st anyProp t h1
    · rename_i t h1 h2; exact ruleGet_lt packed B h (some anyState) p t h2
    · exact hd

theorem gr_cells : cellsBelow grPacked 16 = true := by decide +kernel
theorem wb_cells : cellsBelow wbPacked 16 = true := by decide +kernel
theorem sb_cells : cellsBelow sbPacked 16 = true := by decide +kernel
theorem lb_cells : cellsBelow lbPacked 64 = true := by decide +kernel

/-- grapheme states fit `maskGraphemeState` -/
theorem transG_lt (st : Option Nat) (p : Nat) : (transG st p).1 < 16 := by
  unfold transG
  exact merge_lt grPacked 16 grAny prAny _ gr_cells (by decide) st p

/-- word states (with the ZWJ bit) fit `maskWordState` -/
theorem transWK_lt (st : Option Nat) (hst : ∀ s, st = some s → s < 32) (p : Nat) (g : Bool) (k : Bool × Bool × Bool) :
    (transWK st p g k).1 < 32 := by
  have hm : ∀ st' : Option Nat, (merge wbPacked wbAny prAny (wbAny, 1, 9990) st' p).1 < 32 := by
    intro st'
    have := merge_lt wbPacked 16 wbAny prAny (wbAny, 1, 9990) wb_cells (by decide) st' p
    omega
  have hor : ∀ s, s < 32 → s ||| wbZWJBit < 32 := by
    intro s hs
    exact Nat.or_lt_two_pow (n := 5) hs (by decide)
  unfold transWK
  cases st with
  | none =>
    dsimp only [Option.isNone_none, Option.getD_none, Option.map_none]
    repeat' split
    all_goals (try dsimp only)
    all_goals first | decide | exact hm none
  | some s =>
    have hs := hst s rfl
    dsimp only [Option.isNone_some, Option.getD_some, Option.map_some]
    repeat' split
    all_goals (try dsimp only)
    all_goals first | decide | exact hm _ | exact hor s hs | exact Nat.lt_of_le_of_lt Nat.and_le_left hs

/-- sentence states fit `maskSentenceState` -/
theorem transS_lt (st : Option Nat) (hst : ∀ s, st = some s → s < 16) (p : Nat) (sl : Bool) :
    (transS st p sl).1 < 16 := by
  unfold transS
  cases st with
  | none =>
    dsimp only
    repeat' split
    all_goals (try dsimp only)
    all_goals first | decide | exact merge_lt sbPacked 16 sbAny prAny (sbAny, 0, 9990) sb_cells (by decide) _ p
  | some s =>
    have hs := hst s rfl
    dsimp only
    repeat' split
    all_goals (try dsimp only)
    all_goals first | decide | exact hs | exact merge_lt sbPacked 16 sbAny prAny (sbAny, 0, 9990) sb_cells (by decide) _ p

/-- finite fact: stripping the two flag bits from a state below 256 leaves a state below 64 -/
theorem lbStrip_lt : ∀ s, s < 256 → (match (lbStrip (some s)).1 with | some s' => decide (s' < 64) | none => false) = true :=
  fun s hs => List.all_eq_true.mp (by decide +kernel :
    (List.range 256).all (fun s => match (lbStrip (some s)).1 with | some s' => decide (s' < 64) | none => false) = true) s
      (List.mem_range.mpr hs)

theorem lbFin_lt (x : LbIn) (a b : Bool) (res : Nat × Nat) (h : res.1 < 128) : (lbFin x a b res).1 < 256 := by
  unfold lbFin
  have hor : res.1 ||| lbCPeaFWHBit < 256 := Nat.or_lt_two_pow (n := 8) (by omega) (by decide)
  simp only
  repeat' split
  all_goals first | exact hor | omega

set_option maxHeartbeats 4000000 in
/-- line states (with both flag bits) fit `maskLineState` -/
theorem transLCore_lt (st : Option Nat) (hst : ∀ s, st = some s → s < 64) (a b : Bool) (x : LbIn) (nu : Bool) :
    (transLCore st a b x nu).1 < 256 := by
  have hm : ∀ st' : Option Nat, (merge lbPacked lbAny prAny (lbAny, LineCanBreak, 310) st' x.prop).1 < 128 := by
    intro st'
    have := merge_lt lbPacked 64 lbAny prAny (lbAny, LineCanBreak, 310) lb_cells (by decide) st' x.prop
    omega
  have hor : ∀ s bit, s < 64 → (bit = lbZWJBit ∨ bit = 0) → s ||| bit < 128 := by
    intro s bit hs hb
    rcases hb with rfl | rfl
    · exact Nat.or_lt_two_pow (n := 7) (by omega) (by decide)
    · simp; omega
  unfold transLCore
  apply lbFin_lt
  cases st with
  | none =>
    dsimp only [Option.isNone_none, Option.getD_none]
    repeat' split
    all_goals (try dsimp only)
    all_goals first | decide | exact hm none
  | some s =>
    have hs := hst s rfl
    dsimp only [Option.isNone_some, Option.getD_some]
    repeat' split
    all_goals (try dsimp only)
    all_goals first | decide | exact hm _ | exact hor s _ hs (Or.inl rfl) | exact hor s _ hs (Or.inr rfl)

theorem transL_lt (st : Option Nat) (hst : ∀ s, st = some s → s < 256) (x : LbIn) (nu : Bool) :
    (transL st x nu).1 < 256 := by
  unfold transL
  apply transLCore_lt
  intro s' hs'
  cases st with
  | none => simp [lbStrip] at hs'
  | some s =>
    have := lbStrip_lt s (hst s rfl)
    rw [hs'] at this
    simpa using this

end Uniseg.Range

namespace Uniseg.Range
open Uniseg Uniseg.Gen

/-- the verdict field of a rule cell has two bits -/
theorem ruleGet_verdict_lt (packed : Nat) (st : Option Nat) (p : Nat) (r : Nat × Nat × Nat)
    (hr : ruleGet packed st p = some r) : r.2.1 < 4 := by
  unfold ruleGet at hr
  cases st with
  | none => cases hr
  | some s =>
    simp only at hr
    split at hr
    · cases hr
    · cases hr
      simp only
      exact Nat.lt_of_le_of_lt Nat.and_le_right (by decide)

theorem merge_verdict_lt (packed anyState anyProp : Nat) (dflt : Nat × Nat × Nat) (hd : dflt.2.1 < 4)
    (st : Option Nat) (p : Nat) : (merge packed anyState anyProp dflt st p).2.1 < 4 := by
  unfold merge
  split
  · rename_i t ht; exact ruleGet_verdict_lt packed st p t ht
  · split
    · rename_i a b c d e f h1 h2
      have v1 := ruleGet_verdict_lt packed st anyProp _ h1
      have v2 := ruleGet_verdict_lt packed (some anyState) p _ h2
      split
      · exact v1
      · exact v2
    · rename_i t h1 h2; exact ruleGet_verdict_lt packed st anyProp t h1
    · rename_i t h1 h2; exact ruleGet_verdict_lt packed (some anyState) p t h2
    · exact hd

theorem lbFin_verdict_lt (x : LbIn) (a b : Bool) (res : Nat × Nat) (h : res.2 < 4) : (lbFin x a b res).2 < 4 := by
  unfold lbFin
  dsimp only
  split
  · decide
  · exact h

set_option maxHeartbeats 4000000 in
/-- every line verdict is one of LineDontBreak, LineCanBreak, LineMustBreak, or at least fits the
two bits of `MaskLine` -/
theorem transLCore_verdict_lt (st : Option Nat) (a b : Bool) (x : LbIn) (nu : Bool) :
    (transLCore st a b x nu).2 < 4 := by
  have hm : (merge lbPacked lbAny prAny (lbAny, LineCanBreak, 310) st x.prop).2.1 < 4 :=
    merge_verdict_lt lbPacked lbAny prAny _ (by decide) st x.prop
  unfold transLCore
  apply lbFin_verdict_lt
  dsimp only
  repeat' split
  all_goals (try dsimp only)
  all_goals first | decide | exact hm

theorem transL_verdict_lt (st : Option Nat) (x : LbIn) (nu : Bool) : (transL st x nu).2 < 4 :=
  transLCore_verdict_lt _ _ _ _ _

end Uniseg.Range
