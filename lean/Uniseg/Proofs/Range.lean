import Uniseg.Impl.Transitions
/-! # Ranges of the transition outputs (needed wherever states are packed or masked)

The new state of every transition function fits the bit field `step.go` and `grapheme.go` give it:
grapheme < 16, word < 32, sentence < 16, line < 256. For the rule tables this is a finite check on
the regenerated packed literal (every cell, by the kernel) plus a size bound on the literal (cells
beyond it read as "no such case"). -/
namespace Uniseg.Range
open Uniseg Uniseg.Gen

/-- the Boolean the kernel evaluates: the literal has no cell beyond state 63 and every cell's new
state is below `B` -/
def cellsBelow (packed B : Nat) : Bool :=
  decide (packed < 2 ^ (64 * 128 * 32)) &&
    (List.range 64).all fun s => (List.range 128).all fun p => decide (cell packed s p &&& 0xFF < B)

theorem cell_large (packed : Nat) (h : packed < 2 ^ (64 * 128 * 32)) (s p : Nat) (hs : 64 ≤ s) : cell packed s p = 0 := by
  unfold cell
  split
  · have : packed >>> ((s * 128 + p) * 32) = 0 := by
      rw [Nat.shiftRight_eq_div_pow]
      apply Nat.div_eq_of_lt
      calc packed < 2 ^ (64 * 128 * 32) := h
        _ ≤ 2 ^ ((s * 128 + p) * 32) := Nat.pow_le_pow_right (by decide) (by omega)
    rw [this]; rfl
  · rfl

theorem ruleGet_lt (packed B : Nat) (h : cellsBelow packed B = true) (st : Option Nat) (p : Nat)
    (r : Nat × Nat × Nat) (hr : ruleGet packed st p = some r) : r.1 < B := by
  simp only [cellsBelow, Bool.and_eq_true, decide_eq_true_eq, List.all_eq_true, List.mem_range] at h
  obtain ⟨hsz, hall⟩ := h
  unfold ruleGet at hr
  cases st with
  | none => cases hr
  | some s =>
    simp only at hr
    split at hr
    · cases hr
    · rename_i hc
      cases hr
      simp only
      by_cases hs : s < 64
      · by_cases hp : p < 128
        · exact hall s hs p hp
        · exfalso; apply hc; unfold cell; rw [if_neg hp]
      · exfalso; apply hc; exact cell_large packed hsz s p (by omega)

theorem merge_lt (packed B anyState anyProp : Nat) (dflt : Nat × Nat × Nat) (h : cellsBelow packed B = true)
    (hd : dflt.1 < B) (st : Option Nat) (p : Nat) : (merge packed anyState anyProp dflt st p).1 < B := by
  unfold merge
  split
  · rename_i t ht; exact ruleGet_lt packed B h st p t ht
  · split
    · rename_i a b c d e f h1 h2
      have := ruleGet_lt packed B h (some anyState) p _ h2
      split <;> exact this
    · rename_i t h1 h2; exact ruleGet_lt packed B h st anyProp t h1
    · rename_i t h1 h2; exact ruleGet_lt packed B h (some anyState) p t h2
    · exact hd

theorem gr_cells : cellsBelow grPacked 16 = true := by decide +kernel
theorem wb_cells : cellsBelow wbPacked 16 = true := by decide +kernel
theorem sb_cells : cellsBelow sbPacked 16 = true := by decide +kernel
theorem lb_cells : cellsBelow lbPacked 64 = true := by decide +kernel

/-- grapheme states fit `maskGraphemeState` -/
theorem transG_lt (st : Option Nat) (p : Nat) : (transG st p).1 < 16 := by
  unfold transG
  exact merge_lt grPacked 16 grAny prAny _ gr_cells (by decide) st p

end Uniseg.Range
