import Uniseg.Proofs.Closure
import Uniseg.Proofs.Chain
/-! # From the class-level certificates to the code-point-level transition functions

For each algorithm: the model's `transition*State st r rest` is the class-level core applied to the
letter of `r` and the promise of the letters of `rest` (so a run over code points is a run of the
product automaton), and the spec automaton's run is the declarative reading at every position. -/
namespace Uniseg.Lift
open Uniseg Uniseg.Gen Uniseg.Auto Uniseg.Chain Uniseg.Spec

section Generic
variable {L R Q V : Type} (A : Alg L R Q V) (φ : Nat → L) (tr : Option Nat → Nat → List Nat → Nat × V)

/-- a run over code points is the implementation automaton's run over their letters -/
theorem runV_implRun (h : ∀ st r rest, tr st r rest = A.trans st (φ r) (la A (rest.map φ))) :
    ∀ (vals : List Nat) (st : Option Nat), (runV tr st vals).map (·.2) = implRun A st (vals.map φ) := by
  intro vals
  induction vals with
  | nil => intro _; rfl
  | cons r rest ih =>
    intro st
    simp only [runV, List.map_cons, implRun]
    rw [ih, h]
end Generic

/-! ## Graphemes -/

theorem transG_factor (st : Option Nat) (r : Nat) :
    (let t := transitionGraphemeState st r; (t.1, t.2.2)) = algG.trans st (gbLetter r) () := rfl

/-- `transitionGraphemeState` as a `tr` of the generic run (it has no look-ahead) -/
def trG (st : Option Nat) (r : Nat) (_ : List Nat) : Nat × Bool :=
  let t := transitionGraphemeState st r; (t.1, t.2.2)

theorem gb_specRun (w : List Nat) : (specRun algG algG.q0 w).tail = interior GB.gbBreak [] w :=
  specRun_tail_eq_interior algG (fun _ => True) GB.summ GB.gbBreak rfl (fun _ _ => rfl)
    (fun left x rest _ _ => GB.gbBreak_factor left x rest) w (fun _ _ => trivial)

/-! ## Words -/

/-- what the spec's WB6/WB7b/WB12 tests see of the next non-ignored class -/
def nxKey (nx : Option WB.C) : Bool × Bool × Bool :=
  (nx == some .aletter, nx == some .hebrew, nx == some .numeric)

theorem qoutW_nx_congr (q : WB.Q) (r : WB.Ch) (nx nx' : Option WB.C) (h : nxKey nx = nxKey nx') :
    WB.qout q r nx = WB.qout q r nx' := by
  simp only [nxKey, Prod.mk.injEq] at h
  obtain ⟨h1, h2, h3⟩ := h
  have hA : WB.opt WB.isAHL nx = WB.opt WB.isAHL nx' := by
    have e : ∀ o : Option WB.C, WB.opt WB.isAHL o = (o == some .aletter || o == some .hebrew) := by
      intro o; cases o with
      | none => rfl
      | some c => cases c <;> rfl
    rw [e, e, h1, h2]
  unfold WB.qout
  simp only [hA, h2, h3]

/-- table fact: U+FFFD, where the implementation's look-ahead loop stops, is not ignorable and is
none of ALetter / Hebrew_Letter / Numeric (so stopping there and reading its class are the same) -/
def wbFFFDInert : Bool :=
  let p := property wordTable Utf8.runeError
  !wbIgnorable p && p != prALetter && p != prHebrewLetter && p != prNumeric

theorem far_la (hF : wbFFFDInert = true) : ∀ rest : List Nat,
    farKey (wbFar rest) = Far.key (la algW (rest.map wbL)) := by
  intro rest
  induction rest with
  | nil => rfl
  | cons r rs ih =>
    simp only [wbFar, List.map_cons, la, algW, wbL]
    by_cases hr : (r == Utf8.runeError) = true
    · have hr' : r = Utf8.runeError := by simpa using hr
      subst hr'
      simp only [wbFFFDInert, Bool.and_eq_true, Bool.not_eq_true', bne_iff_ne, ne_eq] at hF
      obtain ⟨⟨⟨f1, f2⟩, f3⟩, f4⟩ := hF
      simp only [beq_self_eq_true, ↓reduceIte, f1, Bool.false_eq_true, Far.ofProp, beq_iff_eq, f2, f3, f4]
      rfl
    · simp only [hr, Bool.false_eq_true, ↓reduceIte]
      by_cases hi : wbIgnorable (property wordTable r) = true
      · simp only [hi, ↓reduceIte]; exact ih
      · simp only [hi, Bool.false_eq_true, ↓reduceIte, Far.ofProp, farKey]
        have d1 : (prALetter == prHebrewLetter) = false := by decide
        have d2 : (prALetter == prNumeric) = false := by decide
        have d3 : (prHebrewLetter == prNumeric) = false := by decide
        have d1' : (prHebrewLetter == prALetter) = false := by decide
        have d2' : (prNumeric == prALetter) = false := by decide
        have d3' : (prNumeric == prHebrewLetter) = false := by decide
        by_cases a1 : property wordTable r = prALetter
        · simp [a1, Far.key, d1, d2]
        · by_cases a2 : property wordTable r = prHebrewLetter
          · simp [a2, Far.key, d1', d3]
          · by_cases a3 : property wordTable r = prNumeric
            · simp [a3, Far.key, d2', d3']
            · simp [a1, a2, a3, Far.key]

theorem transW_factor (hF : wbFFFDInert = true) (st : Option Nat) (r : Nat) (rest : List Nat) :
    transitionWordBreakState st r rest = algW.trans st (wbL r) (la algW (rest.map wbL)) := by
  simp only [transitionWordBreakState, transW, algW, wbL]
  rw [far_la hF rest]
  rfl

/-! Facts about the class maps are finite: every class code is `< 256` (`eProp` masks with `0xFF`),
so they are checked for all 256 values by the kernel. -/

theorem forall_lt_of_all (n : Nat) (P : Nat → Bool) (h : (List.range n).all P = true) :
    ∀ p, p < n → P p = true := by
  intro p hp
  exact List.all_eq_true.mp h p (List.mem_range.mpr hp)

theorem eProp_lt (e : Nat) : eProp e < 256 := by
  unfold eProp
  exact Nat.and_lt_two_pow _ (by decide : 0xFF < 2 ^ 8)

theorem property_lt (t : Array Nat) (r : Nat) : property t r < 256 := eProp_lt _

theorem isIgn_ofProp : ∀ p, p < 256 → (WB.isIgn (WB.ofProp p) == wbIgnorable p) = true :=
  forall_lt_of_all 256 _ (by decide +kernel)

theorem nxKey_ofProp : ∀ p, p < 256 →
    (decide (nxKey (some (WB.ofProp p)) = nxKey (Far.spec (Far.ofProp p)))) = true :=
  forall_lt_of_all 256 _ (by decide +kernel)

/-- the spec-side promise: the abstraction of the next class WB4 does not ignore -/
theorem nx_la : ∀ rest : List WbL, (∀ y ∈ rest, y.prop < 256) →
    nxKey (WB.nextNonIgn (WB.clss (rest.map WbL.ch))) = nxKey (Far.spec (la algW rest)) := by
  intro rest
  induction rest with
  | nil => intro _; rfl
  | cons x rs ih =>
    intro hall
    have hp : x.prop < 256 := hall x (List.mem_cons_self ..)
    have h1 : WB.isIgn (WB.ofProp x.prop) = wbIgnorable x.prop := by
      simpa using isIgn_ofProp _ hp
    have h2 := of_decide_eq_true (nxKey_ofProp _ hp)
    simp only [List.map_cons, WB.clss, WB.nextNonIgn, la, algW, WbL.ch, h1]
    by_cases hi : wbIgnorable x.prop = true
    · simp only [hi, ↓reduceIte]; exact ih (fun y hy => hall y (List.mem_cons_of_mem _ hy))
    · simp only [hi, Bool.false_eq_true, ↓reduceIte]; exact h2

theorem wb_specRun (w : List WbL) (hw : ∀ y ∈ w, y.prop < 256) :
    (specRun algW algW.q0 w).tail = interior WB.wbBreak [] (w.map WbL.ch) := by
  have hm := interior_map WB.wbBreak WbL.ch w []
  simp only [List.map_nil] at hm
  rw [← hm]
  apply specRun_tail_eq_interior algW (fun y => y.prop < 256) (fun l => WB.summ (l.map WbL.ch))
    (fun l r => WB.wbBreak (l.map WbL.ch) (r.map WbL.ch))
  · rfl
  · intro left x; rfl
  · intro left x rest _ hrest
    simp only [List.map_cons]
    rw [WB.wbBreak_factor]
    exact qoutW_nx_congr _ _ _ _ (nx_la rest hrest)
  · exact hw

theorem wbL_prop_lt (r : Nat) : (wbL r).prop < 256 := property_lt _ _

/-! ## Sentences -/

theorem sbStopper_lower : sbStopper prLower = true := by decide

theorem sbScan_la : ∀ (rest : List Nat) (p : Nat),
    (sbScan p rest == prLower) = (if sbStopper p then p == prLower else (la algS (rest.map sbL)).1) := by
  intro rest
  induction rest with
  | nil =>
    intro p
    simp only [sbScan, List.map_nil, la, algS]
    by_cases hs : sbStopper p = true
    · simp [hs]
    · simp only [hs, Bool.false_eq_true, ↓reduceIte]
      by_cases hp : p = prLower
      · subst hp; exact absurd sbStopper_lower hs
      · simpa using hp
  | cons r rs ih =>
    intro p
    simp only [sbScan, List.map_cons, la, algS, sbL]
    by_cases hs : sbStopper p = true
    · simp [hs]
    · simp only [hs, Bool.false_eq_true, ↓reduceIte]
      exact ih (property sentenceTable r)

theorem transS_factor (st : Option Nat) (r : Nat) (rest : List Nat) :
    transitionSentenceBreakState st r rest = algS.trans st (sbL r) (la algS (rest.map sbL)) := by
  simp only [transitionSentenceBreakState, algS, sbL]
  rw [sbScan_la]
  rfl

theorem scanLower_la : ∀ rest : List SbL, SB.scanLower (rest.map SB.ofProp) = (la algS rest).2 := by
  intro rest
  induction rest with
  | nil => rfl
  | cons x xs ih =>
    simp only [List.map_cons, SB.scanLower, la, algS]
    rw [ih]
    rfl

theorem sb_specRun (w : List SbL) :
    (specRun algS algS.q0 w).tail = interior SB.sbBreak [] (w.map SB.ofProp) := by
  have hm := interior_map SB.sbBreak SB.ofProp w []
  simp only [List.map_nil] at hm
  rw [← hm]
  apply specRun_tail_eq_interior algS (fun _ => True) (fun l => SB.summ (l.map SB.ofProp))
    (fun l r => SB.sbBreak (l.map SB.ofProp) (r.map SB.ofProp))
  · rfl
  · intro left x; rfl
  · intro left x rest _ _
    simp only [List.map_cons]
    rw [SB.sbBreak_factor, scanLower_la]
    rfl
  · intro _ _; trivial

/-! ## Lines -/

/-- finite fact about LB1 resolution: the look-ahead loop's raw test "CM, ZWJ or an SA mark" is
"resolves to CM or ZWJ", and otherwise "raw class NU" is "resolves to NU" -/
theorem lbResolve_skip : ∀ p, p < 256 → (List.range 256).all (fun gc =>
    ((p == prCM || p == prZWJ || (p == prSA && (gc == gcMn || gc == gcMc))) ==
       (lbResolve p gc == prCM || lbResolve p gc == prZWJ)) &&
    ((p == prCM || p == prZWJ || (p == prSA && (gc == gcMn || gc == gcMc))) ||
       ((p == prNU) == (lbResolve p gc == prNU)))) = true :=
  forall_lt_of_all 256 _ (by decide +kernel)

theorem eGc_lt (e : Nat) : eGc e < 256 := by
  unfold eGc
  exact Nat.and_lt_two_pow _ (by decide : 0xFF < 2 ^ 8)

theorem propertyLineBreak_lt (r : Nat) : (propertyLineBreak r).1 < 256 ∧ (propertyLineBreak r).2 < 256 := by
  unfold propertyLineBreak
  repeat' split
  all_goals first | exact ⟨by decide, by decide⟩ | exact ⟨eProp_lt _, eGc_lt _⟩

theorem lbNextNU_la : ∀ rest : List Nat, lbNextNU rest = (la algL (rest.map lbIn)).1 := by
  intro rest
  induction rest with
  | nil => rfl
  | cons r rs ih =>
    obtain ⟨h1, h2⟩ := propertyLineBreak_lt r
    have hf := List.all_eq_true.mp (lbResolve_skip _ h1) _ (List.mem_range.mpr h2)
    simp only [Bool.and_eq_true, beq_iff_eq, Bool.or_eq_true] at hf
    obtain ⟨hf1, hf2⟩ := hf
    simp only [lbNextNU, List.map_cons, la, algL, lbIn]
    by_cases hk : ((propertyLineBreak r).1 == prCM || (propertyLineBreak r).1 == prZWJ ||
        ((propertyLineBreak r).1 == prSA && ((propertyLineBreak r).2 == gcMn || (propertyLineBreak r).2 == gcMc))) = true
    · rw [if_pos hk]
      have : (lbResolve (propertyLineBreak r).1 (propertyLineBreak r).2 == prCM ||
          lbResolve (propertyLineBreak r).1 (propertyLineBreak r).2 == prZWJ) = true := by
        rw [← hf1]; exact hk
      rw [if_pos this]
      exact ih
    · rw [if_neg hk]
      have hk' := hk
      rw [hf1] at hk'
      rw [if_neg hk']
      rcases hf2 with h | h
      · simp only [Bool.or_eq_true, Bool.and_eq_true, beq_iff_eq] at hk h
        exact absurd h hk
      · exact h

/-- `transitionLineBreakState` with its verdict read as ×, ÷, ! -/
def trL (st : Option Nat) (r : Nat) (rest : List Nat) : Nat × LB.V :=
  let t := transitionLineBreakState st r rest; (t.1, lvOfNat t.2)

theorem transL_factor (st : Option Nat) (r : Nat) (rest : List Nat) :
    trL st r rest = algL.trans st (lbIn r) (la algL (rest.map lbIn)) := by
  simp only [trL, transitionLineBreakState]
  rw [lbNextNU_la]
  rfl

theorem nextNU_la : ∀ rest : List LbIn, LB.nextNU (rest.map LbIn.ch) = (la algL rest).2 := by
  intro rest
  induction rest with
  | nil => rfl
  | cons x xs ih =>
    simp only [List.map_cons, LB.nextNU, la, algL]
    rw [ih]
    rfl

theorem lb_specRun (w : List LbIn) :
    (specRun algL algL.q0 w).tail = interior LB.lbVerdict [] (w.map LbIn.ch) := by
  have hm := interior_map LB.lbVerdict LbIn.ch w []
  simp only [List.map_nil] at hm
  rw [← hm]
  apply specRun_tail_eq_interior algL (fun _ => True) (fun l => LB.summ (l.map LbIn.ch))
    (fun l r => LB.lbVerdict (l.map LbIn.ch) (r.map LbIn.ch))
  · rfl
  · intro left x; rfl
  · intro left x rest _ _
    simp only [List.map_cons]
    rw [LB.lbVerdict_factor, nextNU_la]
    rfl
  · intro _ _; trivial

end Uniseg.Lift
